"""C07 — relational units over the setups of the other properties' units (imported read-only).

Every unit here has a *base* unit of another property's contract module (C06, C09, C10, C11, C13, C15, C17): its `setup` builds the
symbolic inputs x, its callee contracts / loop hints / library table are re-used, and the function under contract is the base unit's
real function.  `ensures` executes the same real AST a second time on g.x — a view of the same symbols through the group element g
(`Translation`, `LatticeShift`, `AxisPermutation`, `Relabelling` below) — and compares the two results at symbolic indices.  Nothing
of the base unit's functional postcondition is used: the clauses here are statements about two runs of the code.
"""
import copy

import z3

from contracts.common import RU
from pyvc import arr as A
from pyvc import sv
from pyvc.interp import FuncVal, Ref, load_module, new_obj
from pyvc.state import Content, cur
from pyvc.vc import Unit

I_, R_ = z3.IntSort(), z3.RealSort()
TVEC = z3.Function("TVEC", I_, I_, R_)          # TVEC(frame, axis): translation vector (of the frame)
PBC_KEY = "PyMatterSim.utils.pbc.remove_pbc"


# ---------------------------------------------------------------------------------------------------------------
# engine helpers


def call(ctx, fv, args, kwargs=None):
    """second execution of a real function (single path: branch decisions follow the path condition of the first run)"""
    interp = ctx.interp
    interp.depth += 1
    try:
        return interp.call_function(fv, list(args), dict(kwargs or {}))
    finally:
        interp.depth -= 1


def method(modname, clsname, meth, obj):
    m = load_module(modname)
    cls = m.get_class(clsname)
    return FuncVal(m, cls.methods[meth], bound=obj, cls=cls)


def function(modname, fname):
    m = load_module(modname)
    return FuncVal(m, m.defs[fname])


def obj(modname, clsname, attrs):
    """instance of a repo class allocated in the CURRENT path state (ctx.obj allocates in the initial state, which a forked path
    no longer shares)"""
    cls = load_module(modname).get_class(clsname)
    return new_obj(cls, attrs, frozen=cls.frozen)


def in_range(*triples):
    return sv.and_(*[sv.and_(sv.cmp(">=", x, lo), sv.cmp("<", x, hi)) for lo, x, hi in triples])


def snapshots_like(ctx, T, N, d, pos, typ, H, L=None, ts=None, name="g"):
    """a Snapshots object with a frame list of symbolic length T (or a concrete list): frame n is a SingleSnapshot with
    positions[i, c] = pos(n, i, c), particle_type[i] = typ(n, i), hmatrix[a, b] = H(n, a, b), boxlength[c] = L(n, c)"""
    cls = load_module(RU).get_class("SingleSnapshot")
    tsf = z3.Function(name + "_ts", I_, I_)

    def frame(n):
        n = A.simp(n) if isinstance(n, sv.SV) else n
        attrs = dict(timestep=(ts(n) if ts else sv.SV(tsf(sv.znum(n)))), nparticle=N,
                     positions=A.new_arr((N, d), lambda idx: pos(n, idx[0], idx[1]), "float", input=name + "_pos"),
                     particle_type=(A.new_arr((N,), lambda idx: typ(n, idx[0]), "int", input=name + "_type") if typ else None),
                     boxlength=(A.new_arr((d,), lambda idx: L(n, idx[0]), "float", input=name + "_L") if L else None),
                     boxbounds=None, realbounds=None,
                     hmatrix=A.new_arr((d, d), lambda idx: H(n, idx[0], idx[1]), "float", input=name + "_H"))
        return new_obj(cls, attrs, frozen=True)
    if sv.is_conc(T):
        from pyvc.interp import new_list
        lst = new_list([frame(n) for n in range(int(T))])
    else:
        lst = Ref(cur().alloc(Content("list", A.SeqVal(T, frame))), "list")
    return obj(RU, "Snapshots", dict(nsnapshots=T, snapshots=lst))


def eq_goal(name, inr, pairs, opts=None):
    """(name, goal, opts) for: inr -> a == b for every (a, b) in pairs (real or complex scalars)"""
    flat = []
    for a, b in pairs:
        a, b = sv.norm(a), sv.norm(b)
        if isinstance(a, sv.Cx) or isinstance(b, sv.Cx):
            a, b = sv.as_cx(a), sv.as_cx(b)
            flat += [(a.re, b.re), (a.im, b.im)]
        else:
            flat.append((a, b))
    return name, sv.implies(inr, sv.and_(*[sv.cmp("==", a, b) for a, b in flat])), dict(opts or {})


def sigma_equal(name, pairs, rewrites, assume):
    """goals for S1 == S2 for pairs of Σ-applications over the same range: (i) the summands are equal at an arbitrary index (ring
    normal form, with `rewrites` = instances of facts in `assume`, each its own obligation), (ii) the sums are equal by
    Σ-extensionality with (i) instantiated at the Skolem index"""
    from pyvc import sigma
    x = z3.Int("x_any")
    pw = []
    for q, (s1, s2) in enumerate(pairs):
        d1, d2 = sigma.sigma_def_of(s1), sigma.sigma_def_of(s2)
        a1 = [s1.arg(i) for i in range(2, s1.num_args())]
        a2 = [s2.arg(i) for i in range(2, s2.num_args())]
        same_range = z3.simplify(s1.arg(0) - s2.arg(0)).eq(z3.IntVal(0)) and z3.simplify(s1.arg(1) - s2.arg(1)).eq(z3.IntVal(0))
        if not same_range:
            yield name, False
            continue
        yield name + ":summands-equal", d1.body_at(x, a1) == d2.body_at(x, a2), {"ring_only": True, "rewrites": rewrites}
        pw.append(lambda w, d1=d1, d2=d2, a1=a1, a2=a2: d1.body_at(w, a1) == d2.body_at(w, a2))
    yield (name + ":accumulated-sums-equal", z3.And(*[s1 == s2 for s1, s2 in pairs]),
           {"assume": list(assume), "solver_opts": {"pointwise": pw, "rounds": 1, "unfold": False}})


# ---- equality of two terms built from accumulated sums whose summands are equal only up to ring identities inside atoms ----------


def _uf_apps(e):
    out, seen, stack = [], set(), [e]
    while stack:
        t = stack.pop()
        if t.get_id() in seen:
            continue
        seen.add(t.get_id())
        if z3.is_app(t):
            if t.decl().kind() == z3.Z3_OP_UNINTERPRETED and t.num_args() > 0:
                out.append(t)
            stack.extend(t.children())
    return out


GEOMETRY = ("sqrt", "rintz", "cos", "sin", "exp", "log", "atan2", "arccos", "POW")


def _outermost_geometry_apps(e):
    out, seen, stack = [], set(), [e]
    while stack:
        t = stack.pop()
        if t.get_id() in seen:
            continue
        seen.add(t.get_id())
        if z3.is_app(t):
            nm = t.decl().name() if t.decl().kind() == z3.Z3_OP_UNINTERPRETED else ""
            if t.num_args() > 0 and (nm in GEOMETRY or nm.startswith(("MINIMG", "MINIMAGE", "remove_pbc_row"))):
                out.append(t)
                continue
            stack.extend(t.children())
    return out


def align(e2, e1, limit=300):
    """rewrite applications of uninterpreted symbols in e2 to the applications of the same symbol in e1 whose arguments are ring-equal
    (congruence; innermost first, repeated until nothing changes) -> (e2', [(application of e2, application of e1)])"""
    from pyvc import ring
    from pyvc import sigma
    nz = ring.Normalizer()
    pool = {}
    for a in _uf_apps(e1):
        if sigma.sigma_def_of(a) is None:
            pool.setdefault(a.decl().name(), []).append(a)
    ids1 = {a.get_id() for lst in pool.values() for a in lst}
    pairs = []
    for _ in range(limit):
        found = None
        for a2 in sorted(_uf_apps(e2), key=lambda t: len(t.sexpr())):
            if a2.get_id() in ids1 or sigma.sigma_def_of(a2) is not None:
                continue
            for a1 in pool.get(a2.decl().name(), []):
                try:
                    if a1.num_args() == a2.num_args() and all(nz.rf_eq(nz.nf(x), nz.nf(y)) for x, y in zip(a1.children(), a2.children())):
                        found = (a2, a1)
                        break
                except ring.TooLarge:
                    pass
            if found:
                break
        if not found:
            break
        pairs.append(found)
        e2 = z3.substitute(e2, found)
    return e2, pairs


RULES = []       # term -> [(application, replacement)]: rewrite instances of stated laws (relabelling: PI(PINV(z)) = z), see Relabelling


def _rules(*terms):
    out = []
    for f in RULES:
        for t in terms:
            out += f(t)
    return out


def _normalise(t):
    """apply the rewrite instances of the stated laws (RULES) inside a term, everywhere (also inside the arguments of Σ-applications),
    until none is left -> (term, [(application, replacement)])"""
    used = []
    for _ in range(50):
        rw = _rules(t)
        if not rw:
            break
        used += rw
        t = z3.substitute(t, *rw)
    return t, used


def sigma_chain(name, s1, s2, depth=0):
    """obligations for S1 == S2, two Σ-applications over the same range whose summands agree up to ring identities inside the arguments
    of uninterpreted applications (distances, rounded fractional coordinates ...) and up to linear arithmetic outside them:
      :atoms-congruent          the applications of the second summand equal those of the first (ring normal form of the arguments),
      :summands-equal           with these identified and generalised to fresh constants, the summands are equal at an arbitrary index,
      :accumulated-sums-equal   Σ-extensionality with the summand fact at the Skolem index;
    nested sums are treated first, the same way"""
    from pyvc import sigma
    import contracts.C03 as C03
    d1, d2 = sigma.sigma_def_of(s1), sigma.sigma_def_of(s2)
    if d1 is None or d2 is None or not (z3.simplify(s1.arg(0) - s2.arg(0)).eq(z3.IntVal(0)) and z3.simplify(s1.arg(1) - s2.arg(1)).eq(z3.IntVal(0))):
        # not two sums over the same range: left to the solver as it stands
        yield name + ":accumulated-sums-equal", s1 == s2
        return
    a1 = [s1.arg(i) for i in range(2, s1.num_args())]
    a2 = [s2.arg(i) for i in range(2, s2.num_args())]
    x = z3.Int(f"x_any{depth}")
    b1, b2 = d1.body_at(x, a1), d2.body_at(x, a2)
    b1, _u1 = _normalise(b1)
    b2, _u2 = _normalise(b2)
    if _u1 or _u2:
        yield name + ":law-instances", z3.And(*[a == b for a, b in _u1 + _u2])
    rng = z3.And(s1.arg(0) <= x, x < s1.arg(1))
    # conditions that the index range decides (a neighbour slot below the coordination number ...) are resolved first; each is an obligation
    decided = []
    for gd in _all_ite_guards(z3.And(b1 == b1, b2 == b2)):
        for val in (True, False):
            sol = z3.Solver()
            sol.set("timeout", 2000)
            sol.add(rng, gd if not val else z3.Not(gd))
            if sol.check() == z3.unsat:
                decided.append((gd, z3.BoolVal(val)))
                break
    if decided:
        yield name + ":conditions-decided-by-the-index-range", z3.And(*[z3.Implies(rng, gd if z3.is_true(v) else z3.Not(gd)) for gd, v in decided])
        b1, b2 = z3.simplify(z3.substitute(b1, *decided)), z3.simplify(z3.substitute(b2, *decided))
        b1, _u1 = _normalise(b1)
        b2, _u2 = _normalise(b2)
        if _u1 or _u2:
            yield name + ":law-instances", z3.And(*[a == b for a, b in _u1 + _u2])
    in1, in2 = C03.outer_sigmas(b1), C03.outer_sigmas(b2)
    gen = []
    if len(in1) == len(in2):
        for k, (i1, i2) in enumerate(zip(in1, in2)):
            if not i1.eq(i2):
                yield from sigma_chain(f"{name}:inner{k}", i1, i2, depth + 1)
                b2 = z3.substitute(b2, (i2, i1))
            gen.append(i1)
    rw = _rules(b1, b2)
    if rw and ring_ok(b1 == b2, rw):
        # the summands are ring-equal once the stated laws (instances in `rw`) are applied
        yield name + ":summands-equal", z3.Implies(rng, b1 == b2), {"ring_only": True, "rewrites": rw}

        def pw0(w, d1=d1, d2=d2, a1=a1, a2=a2, lo=s1.arg(0), hi=s1.arg(1)):
            return z3.Implies(z3.And(lo <= w, w < hi), d1.body_at(w, a1) == d2.body_at(w, a2))
        yield name + ":accumulated-sums-equal", s1 == s2, {"solver_opts": {"pointwise": [pw0], "rounds": 1, "unfold": False}}
        return
    b2a, pairs = align(b2, b1)
    if pairs:
        yield name + ":atoms-congruent", z3.And(*[p2 == p1 for p2, p1 in pairs]), {"ring_only": True}
    atoms = {}
    for _, p1 in pairs:
        atoms[p1.get_id()] = p1
    # the geometry atoms both summands now share (distances, rounded fractional coordinates, ...) are generalised as well: what is left
    # is linear arithmetic over them (bin edges, cutoffs, selections)
    for t in _outermost_geometry_apps(z3.And(b1 == b1, b2a == b2a)):
        atoms[t.get_id()] = t
    goal, _ = sv.generalize(z3.Implies(rng, b1 == b2a), [sv.SV(t) for t in list(atoms.values()) + gen], "u")
    yield name + ":summands-equal", goal, {"timeout": 10, "solver_opts": {"rounds": 1, "unfold": False}}

    def pw(w, d1=d1, d2=d2, a1=a1, a2=a2, lo=s1.arg(0), hi=s1.arg(1)):
        return z3.Implies(z3.And(lo <= w, w < hi), d1.body_at(w, a1) == d2.body_at(w, a2))
    yield name + ":accumulated-sums-equal", s1 == s2, {"solver_opts": {"pointwise": [pw], "rounds": 1, "unfold": False}}


def related(name, inr, v1, v2, subst=()):
    """goals for inr -> v1 == v2 (real scalars): ring normal form if that decides it; otherwise the accumulated sums are paired in order
    of occurrence and proved equal by `sigma_chain`, the rest is ring normal form after identifying them"""
    import contracts.C03 as C03
    g = sv.zb(sv.implies(inr, sv.cmp("==", v1, v2)))
    if subst:
        g = z3.substitute(g, *subst)
    rw = _rules(g)
    if ring_ok(g, rw):
        yield name, g, {"ring_only": True, "rewrites": rw}
        return
    t1, t2 = sv.zr(sv.norm(v1)), sv.zr(sv.norm(v2))
    if subst:
        t2 = z3.substitute(t2, *subst)
    # instances of the stated laws are applied everywhere first (they are facts of the unit: one obligation lists the instances used)
    t1, u1 = _normalise(t1)
    t2, u2 = _normalise(t2)
    if u1 or u2:
        yield name + ":law-instances", z3.And(*[a == b for a, b in u1 + u2])
    g = z3.Implies(sv.zb(inr), t1 == t2) if not isinstance(inr, bool) else (t1 == t2)
    s1, s2 = C03.outer_sigmas(t1), C03.outer_sigmas(t2)
    if len(s1) != len(s2) or not s1:
        yield name, g
        return
    sub = []
    for k, (x1, x2) in enumerate(zip(s1, s2)):
        if not x1.eq(x2):
            yield from sigma_chain(f"{name}:sum{k}", x1, x2)
            sub.append((x2, x1))
    yield name, z3.substitute(g, *sub) if sub else g, {"ring_only": True, "rewrites": _rules(g)}


def related_cx(name, inr, v1, v2):
    v1, v2 = sv.norm(v1), sv.norm(v2)
    if isinstance(v1, sv.Cx) or isinstance(v2, sv.Cx):
        v1, v2 = sv.as_cx(v1), sv.as_cx(v2)
        yield from related(name + ":re", inr, v1.re, v2.re)
        yield from related(name + ":im", inr, v1.im, v2.im)
    else:
        yield from related(name, inr, v1, v2)


# ---------------------------------------------------------------------------------------------------------------
# group elements


class Geo:
    """geometry of the base unit's symbolic input: pos(s, i, c), cell H(s, a, b), mask p[k], dimension d"""

    def __init__(self, d, pos, H=None, p=None):
        self.d, self.pos, self.H, self.p = d, pos, H, p


class Group:
    """defaults of a group element: what it does to the cell, the mask, the box lengths and the coordinate axes (nothing)"""
    key = what = ""

    def cell(self, geo, s, a, b):
        return geo.H(s, a, b)

    def mask(self, arr):
        return arr

    def vec(self, arr):
        """a per-particle vector field (N, d) given along with the configuration"""
        return arr

    def axis(self, d, c):
        return c

    def particle(self, i):
        """index in the run on x of the particle that has index i in the run on g.x"""
        return i

    def typ(self, base, s, i):
        return base(s, i)

    def prepare(self, ctx, unit, inp):
        pass

    def begin(self, ctx, unit, inp):
        return None

    def end(self, ctx, unit, inp, token):
        pass


class Translation(Group):
    """x_i -> x_i + t(s): an arbitrary vector per frame (per_frame) or the same vector in every frame (frames compared with each other)"""
    key = "translation"
    what = "unchanged-under-translation"

    def pos(self, geo, s, i, c, per_frame=True):
        return sv.add(geo.pos(s, i, c), sv.SV(TVEC(sv.znum(s if per_frame else 0), sv.znum(c))))

    cancellation = "rows-handed-to-remove_pbc-are-the-rows-of-the-untranslated-run"

    def begin(self, ctx, unit, inp):
        # units whose loops carry WRITTEN invariants over the base unit's spec (Hessian assembly) need the run on g.x to produce
        # the terms of the run on x syntactically: the translation is cancelled at the call of remove_pbc (checked ring identity)
        if getattr(unit, "normalise_rows", False):
            return install_row_wrapper(ctx, unit, inp, "TVEC", self.cancellation)
        return None

    def end(self, ctx, unit, inp, token):
        remove_row_wrapper(ctx, token)


TRANSLATION = Translation()


# ---- lattice shifts of single particles ---------------------------------------------------------------------------

KSH = z3.Function("KSH", I_, I_, I_, I_)             # KSH(frame, particle, axis): integer number of cell vectors added along the axis
SHIFTV = z3.Function("SHIFTV", I_, I_, I_, R_)       # SHIFTV(frame, particle, c) := sum_k KSH(frame, particle, k) ppp_k H(frame)[k, c]


class _Out:
    """the outcome of the first run seen from the forked state of the second run (trace and heap contain both runs)"""

    def __init__(self, out, state):
        self.kind, self.value, self.frame, self.exc, self.msg = out.kind, out.value, out.frame, out.exc, out.msg
        self.state = state


class _Goal:
    """side obligation with explicit assumptions and solver options (SideOb-compatible, see pyvc.loops._SideGoal)"""

    def __init__(self, kind, cond, where, opts, clause=None):
        self.kind, self.cond, self.pc, self.where = kind, cond, [], where
        self.explicit = True
        self.opts = opts
        if clause:
            self.clause = clause


def _contains(e, name, memo):
    i = e.get_id()
    r = memo.get(i)
    if r is None:
        r = (z3.is_app(e) and e.decl().kind() == z3.Z3_OP_UNINTERPRETED and e.decl().name() == name) or any(_contains(c, name, memo) for c in e.children())
        memo[i] = r
    return r


def affine_in(e, name="SHIFTV"):
    """e = base + sum_a coef_a * a over the applications a of the symbol `name`, with INTEGER-sorted coefficient terms:
    -> (base, {id: (a, coef)}); sums, differences, integer multiples and conditionals are decomposed, anything else that contains
    an application of the symbol is refused (EngineError)"""
    memo = {}
    zero_r = z3.RealVal(0)

    def comb(c1, c2, f):
        out = {}
        for k in set(c1) | set(c2):
            a = (c1.get(k) or c2.get(k))[0]
            x = c1[k][1] if k in c1 else z3.IntVal(0)
            y = c2[k][1] if k in c2 else z3.IntVal(0)
            out[k] = (a, f(x, y))
        return out

    def go(t):
        """-> (base or None when the base is zero, coefficients); the base keeps the structure of t (no `+ 0` left behind), so
        that the row of the run on x is reproduced term for term"""
        if not _contains(t, name, memo):
            return t, {}
        k = t.decl().kind()
        ch = t.children()
        if k == z3.Z3_OP_UNINTERPRETED and t.decl().name() == name:
            return None, {t.get_id(): (t, z3.IntVal(1))}
        if k == z3.Z3_OP_ADD:
            b, c = None, {}
            for x in ch:
                b2, c2 = go(x)
                b = b2 if b is None else (b if b2 is None else b + b2)
                c = comb(c, c2, lambda u, v: u + v)
            return b, c
        if k == z3.Z3_OP_SUB:
            b, c = go(ch[0])
            for x in ch[1:]:
                b2, c2 = go(x)
                if b2 is not None:
                    b = -b2 if b is None else b - b2
                c = comb(c, c2, lambda u, v: u - v)
            return b, c
        if k == z3.Z3_OP_UMINUS:
            b, c = go(ch[0])
            return (None if b is None else -b), {i: (a, -x) for i, (a, x) in c.items()}
        if k == z3.Z3_OP_MUL and len(ch) == 2:
            for num, other in ((ch[0], ch[1]), (ch[1], ch[0])):
                ns = z3.simplify(num)
                if z3.is_rational_value(ns) and ns.denominator_as_long() == 1 and not _contains(num, name, memo):
                    b, c = go(other)
                    n = ns.numerator_as_long()
                    return (None if b is None else num * b), {i: (a, z3.IntVal(n) * x) for i, (a, x) in c.items()}
        if k == z3.Z3_OP_ITE:
            if _contains(ch[0], name, memo):
                raise sv.EngineError("transformation symbol inside a condition")
            b1, c1 = go(ch[1])
            b2, c2 = go(ch[2])
            b = None if (b1 is None and b2 is None) else z3.If(ch[0], zero_r if b1 is None else b1, zero_r if b2 is None else b2)
            return b, comb(c1, c2, lambda u, v: z3.If(ch[0], u, v))
        raise sv.EngineError(f"remove_pbc argument is not affine in the transformation symbol {name} ({t.decl().name()})")
    base, coefs = go(e)
    return (zero_r if base is None else base), coefs


def _all_ite_guards(e):
    """conditions of all conditionals of a term, including those inside the arguments of applications"""
    out, seen, stack = {}, set(), [e]
    while stack:
        t = stack.pop()
        if t.get_id() in seen:
            continue
        seen.add(t.get_id())
        if z3.is_app(t) and t.decl().kind() == z3.Z3_OP_ITE:
            out[t.arg(0).get_id()] = t.arg(0)
        stack.extend(t.children())
    return list(out.values())


def _ite_guards(e):
    out, seen = {}, set()
    stack = [e]
    while stack:
        t = stack.pop()
        if t.get_id() in seen:
            continue
        seen.add(t.get_id())
        if z3.is_app(t) and t.decl().kind() == z3.Z3_OP_UNINTERPRETED:
            continue        # conditionals inside the arguments of an application stay inside the atom
        if z3.is_app(t) and t.decl().kind() == z3.Z3_OP_ITE:
            out[t.arg(0).get_id()] = t.arg(0)
        stack.extend(t.children())
    return list(out.values())


def install_row_wrapper(ctx, unit, inp, symbol, clause, lattice=None):
    """wrap the callee contract of remove_pbc that the base unit uses, for the run on g.x: every row r' handed to remove_pbc is
    decomposed as r' = r + sum_a coef_a a over the applications a of `symbol` (the translation vector / the lattice shift) with
    integer coefficient terms (affine_in), r = the row of the run on x.  An obligation (clause `clause`, ring normal form per
    conditional branch) shows r' = r (translation: the vectors cancel in every difference) or r' = r + sum_k t_k ppp_k H[k, :] with
    integer terms t_k (lattice shift; `symbol` unfolded to its definition on the cell and mask the CALL received); the base unit's
    contract is then applied to r — for the lattice shift this is clause (c) of the callee contract (C02)."""
    from pyvc.lib import _arr
    interp = ctx.interp
    orig = interp.summaries.get(PBC_KEY)
    if orig is None:
        return ("none", None)
    geo = unit.geo(inp)

    def wrapped(interp_, args, kwargs):
        names = ["RIJ", "hmatrix", "ppp"]
        vals = dict(zip(names, args))
        vals.update(kwargs)
        R, Hh, P = _arr(vals["RIJ"], interp_), _arr(vals["hmatrix"], interp_), vals.get("ppp")
        if R.ndim != 2:
            raise sv.EngineError("row wrapper: remove_pbc(RIJ (n, d), hmatrix, ppp) expected")
        d = A.conc_dim(Hh.shape[0], "cell dimension")
        rd = R.reader()
        q = sv.fresh_int("row")
        rows = [sv.zr(sv.norm(rd((q, c)))) for c in range(d)]
        dec = [affine_in(e, symbol) for e in rows]
        apps = {}
        for _, cf in dec:
            for i, (a, _x) in cf.items():
                apps[i] = a
        if not apps:
            return orig(interp_, args, kwargs)
        lat = [0] * d
        rw = []
        if lattice is not None:
            if P is None:
                raise sv.EngineError("row wrapper: remove_pbc called without ppp")
            P = _arr(P, interp_)
            Hm = [[Hh.get((a, b)) for b in range(d)] for a in range(d)]
            pm = [P.get((k,)) for k in range(d)]
            # t_k: the integer combination of the shifts along axis k, read off component 0 (the obligation shows that the same
            # integers serve every component)
            tk = []
            for k in range(d):
                acc = z3.IntVal(0)
                for i, (a, coef) in dec[0][1].items():
                    acc = acc + coef * KSH(a.arg(0), a.arg(1), z3.IntVal(k))
                tk.append(acc)
            for c in range(d):
                for k in range(d):
                    lat[c] = sv.add(lat[c], sv.mul(sv.mul(sv.to_real(sv.SV(tk[k])), pm[k]), Hm[k][c]))
            rw = [(a, lattice.definition(geo, a)) for a in apps.values()]
        goals = []
        for c in range(d):
            ident = rows[c] == dec[c][0] + (z3.RealVal(0) if sv.is_conc(lat[c]) else sv.zr(lat[c]))
            guards = _ite_guards(ident)
            if len(guards) > 4:
                raise sv.EngineError("row wrapper: too many conditionals in a remove_pbc argument")
            for bits in range(1 << len(guards)):
                sub = [(gd, z3.BoolVal(bool(bits >> n & 1))) for n, gd in enumerate(guards)]
                goals.append(z3.simplify(z3.substitute(ident, *sub)) if sub else ident)
        cur().side.append(_Goal("call:remove_pbc:" + clause, z3.And(*goals) if len(goals) > 1 else goals[0], cur().where,
                                {"rewrites": rw, "ring_only": True}, clause=clause))

        def strip(idx):
            return sv.SV(affine_in(sv.zr(sv.norm(rd(idx))), symbol)[0])
        R0 = A.new_arr(R.shape, A._memo(strip), "float")
        return orig(interp_, [R0] + list(args[1:]), {k_: v for k_, v in kwargs.items() if k_ != "RIJ"})
    interp.summaries[PBC_KEY] = wrapped
    return ("wrapped", orig)


def remove_row_wrapper(ctx, token):
    if token and token[0] == "wrapped":
        ctx.interp.summaries[PBC_KEY] = token[1]


class LatticeShift(Group):
    """x_i -> x_i + sum_k KSH(s, i, k) ppp_k H_s[k, :]: every particle, in every frame, moved by its own integer combination of the cell
    vectors of the periodic axes (per_frame False: the same combination in every frame and the cell of frame 0 — a shifted trajectory).

    The run on g.x uses, at every call of remove_pbc, clause (c) of the callee's contract (C02 `c:shift-invariance-away-from-ties`, proved for
    the real body for every mask and cell kind and re-verified with this check):
        remove_pbc(r + sum_k t_k ppp_k H[k, :], H, ppp) = remove_pbc(r, H, ppp)   for integers t_k, r away from half-cell ties.
    The wrapper below decomposes every row handed to remove_pbc as r + (lattice vector) — r = the row with the shifts removed, t_k an
    integer-sorted term — emits the decomposition as an obligation (`rows-handed-to-remove_pbc-differ-by-lattice-vectors`: a ring identity
    per conditional branch, with SHIFTV unfolded to its definition on the cell and mask THE CALL RECEIVED), and hands r to the callee
    contract the base unit uses.  Hypothesis of the clause (stated in the clause name): no row of the run on x is at a half-cell tie."""
    key = "lattice-shift"
    what = "unchanged-under-lattice-shifts(away-from-half-cell-ties)"
    decomposition = "rows-handed-to-remove_pbc-differ-by-lattice-vectors-of-the-periodic-axes"

    def pos(self, geo, s, i, c, per_frame=True):
        s0 = s if per_frame else 0
        return sv.add(geo.pos(s, i, c), sv.SV(SHIFTV(sv.znum(s0), sv.znum(i), sv.znum(c))))

    def definition(self, geo, app):
        """SHIFTV(s, i, c) unfolded on the unit's geometry (cell of frame s, mask)"""
        s, i, c = [(z3.simplify(x).as_long() if z3.is_int_value(z3.simplify(x)) else sv.SV(x)) for x in app.children()]
        acc = 0
        for k in range(geo.d):
            acc = sv.add(acc, sv.mul(sv.mul(sv.to_real(sv.SV(KSH(sv.znum(s), sv.znum(i), z3.IntVal(k)))), geo.p[k]), geo.H(s, k, c)))
        return acc

    def begin(self, ctx, unit, inp):
        return install_row_wrapper(ctx, unit, inp, "SHIFTV", self.decomposition, lattice=self)

    def end(self, ctx, unit, inp, token):
        remove_row_wrapper(ctx, token)


LATTICE = LatticeShift()


# ---- permutation of the coordinate axes together with the cell and the mask -------------------------------------------------------

SIGMA = {2: [1, 0], 3: [1, 2, 0]}        # new axis c carries old axis SIGMA[d][c] (d = 2: the transposition, d = 3: a cyclic permutation)


def _sig(d, c):
    """SIGMA[d][c] for a concrete or symbolic axis index"""
    return SIGMA[d][int(c)] if sv.is_conc(c) else A._pick(SIGMA[d], c)


def _sig_inv(d, a):
    inv = [SIGMA[d].index(x) for x in range(d)]
    return inv[int(a)] if sv.is_conc(a) else A._pick(inv, a)


class AxisPermutation(Group):
    """coordinates, cell vectors (rows AND columns of the cell matrix: H' = P H P^T), mask and box lengths permuted together.

    At every call of remove_pbc in the run on g.x the callee contract is applied through the lemma
        remove_pbc(r P^T, P H P^T, ppp P^T) = remove_pbc(r, H, ppp) P^T
    (`C07:lemma:d=<d>:remove_pbc-commutes-with-axis-permutations`, proved on the formula of the C02 contract for a general cell and a
    symbolic mask; the C02 units that prove the formula for the real body are re-run by this check): the wrapper permutes the
    arguments back, applies the base unit's contract and permutes the result."""
    key = "axis-permutation"
    what = "unchanged-under-axis-permutation"

    def pos(self, geo, s, i, c, per_frame=True):
        d = geo.d
        if sv.is_conc(c):
            return geo.pos(s, i, SIGMA[d][int(c)])
        return A._pick([geo.pos(s, i, SIGMA[d][k]) for k in range(d)], c)

    def cell(self, geo, s, a, b):
        d = geo.d
        if sv.is_conc(a) and sv.is_conc(b):
            return geo.H(s, SIGMA[d][int(a)], SIGMA[d][int(b)])
        return A._pick([A._pick([geo.H(s, SIGMA[d][x], SIGMA[d][y]) for y in range(d)], b) for x in range(d)], a)

    def mask(self, arr):
        d = A.conc_dim(arr.shape[0], "mask length")
        vals = [arr.get((SIGMA[d][k],)) for k in range(d)]
        return A.from_nested(vals, "int")

    def vec(self, arr):
        d = A.conc_dim(arr.shape[1], "vector dimension")
        rd = arr.reader()
        return A.new_arr(arr.shape, lambda idx: (rd((idx[0], SIGMA[d][int(idx[1])])) if sv.is_conc(idx[1])
                                                 else A._pick([rd((idx[0], SIGMA[d][k])) for k in range(d)], idx[1])), "float")

    def axis(self, d, c):
        return _sig(d, c)

    def begin(self, ctx, unit, inp):
        from pyvc.lib import _arr
        interp = ctx.interp
        orig = interp.summaries.get(PBC_KEY)
        if orig is None:
            return ("none", None)

        def wrapped(interp_, args, kwargs):
            names = ["RIJ", "hmatrix", "ppp"]
            vals = dict(zip(names, args))
            vals.update(kwargs)
            R, Hh, P = _arr(vals["RIJ"], interp_), _arr(vals["hmatrix"], interp_), vals.get("ppp")
            if R.ndim != 2 or P is None:
                raise sv.EngineError("axis wrapper: remove_pbc(RIJ (n, d), hmatrix, ppp) expected")
            P = _arr(P, interp_)
            d = A.conc_dim(Hh.shape[0], "cell dimension")
            inv = [SIGMA[d].index(x) for x in range(d)]
            rd = R.reader()
            # permuted back: old axis a is new axis inv[a]
            R0 = A.new_arr(R.shape, lambda idx: rd((idx[0], inv[int(idx[1])])) if sv.is_conc(idx[1]) else A._pick([rd((idx[0], inv[a])) for a in range(d)], idx[1]), "float")
            H0 = A.from_nested([[Hh.get((inv[a], inv[b])) for b in range(d)] for a in range(d)], "float")
            P0 = A.from_nested([P.get((inv[a],)) for a in range(d)], "int")
            D = _arr(orig(interp_, [R0, H0, P0], {}), interp_)
            dr = D.reader()
            return A.new_arr(D.shape, A._memo(lambda idx: dr((idx[0], SIGMA[d][int(idx[1])])) if sv.is_conc(idx[1])
                                              else A._pick([dr((idx[0], SIGMA[d][k])) for k in range(d)], idx[1])), "float")
        interp.summaries[PBC_KEY] = wrapped
        return ("wrapped", orig)

    def end(self, ctx, unit, inp, token):
        remove_row_wrapper(ctx, token)


AXES = AxisPermutation()


def axis_lemmas():
    """remove_pbc commutes with a permutation of the axes applied to the row, the cell (rows and columns) and the mask: on the C02
    contract's formula, general cell, symbolic mask (ring normal form; the rint atoms are congruent because their arguments are)"""
    import contracts.C02 as C02
    out = []
    for d in (2, 3):
        sg = SIGMA[d]
        Hm = [[sv.real(f"H_{a}{b}") for b in range(d)] for a in range(d)]
        r = [sv.real(f"r_{c}") for c in range(d)]
        p = [sv.integer(f"p_{c}") for c in range(d)]
        det, G = C02._inv_spec(Hm, d)
        Hp = [[Hm[sg[a]][sg[b]] for b in range(d)] for a in range(d)]
        detp, Gp = C02._inv_spec(Hp, d)
        a_ = C02.pbc_spec_row(r, Hm, G, p, d)
        b_ = C02.pbc_spec_row([r[sg[c]] for c in range(d)], Hp, Gp, [p[sg[c]] for c in range(d)], d)
        out.append((f"lemma:d={d}:remove_pbc-commutes-with-axis-permutations", sv.and_(sv.cmp("==", det, detp), *[sv.cmp("==", b_[c], a_[sg[c]]) for c in range(d)]),
                    {"ring_only": True}))
    return out


# ---- relabelling of the particle ids ---------------------------------------------------------------------------------------------------

PI = z3.Function("PI", I_, I_)          # particle a of the relabelled configuration is particle PI(a) of the original one
PINV = z3.Function("PINV", I_, I_)      # its inverse
RN_KEY = "PyMatterSim.neighbors.read_neighbors.read_neighbors"


def _pi_rules(t):
    out = []
    for a in _uf_apps(t):
        if a.decl().name() == "PI" and z3.is_app(a.arg(0)) and a.arg(0).decl().name() == "PINV":
            out.append((a, a.arg(0).arg(0)))
        if a.decl().name() == "PINV" and z3.is_app(a.arg(0)) and a.arg(0).decl().name() == "PI":
            out.append((a, a.arg(0).arg(0)))
    return out


class Relabelling(Group):
    """positions, types, per-particle input fields and the rows of the neighbour / weight files permuted consistently: particle a of
    g.x is particle PI(a) of x, PI a bijection of [0, N) with inverse PINV (stated as facts per application: ranges and the two
    inverse laws); a neighbour id j of x is written PINV(j) in the file of g.x.  Per-particle outputs permute accordingly:
    f(g.x)[a] = f(x)[PI(a)].  No re-indexing of a sum over particles is needed for the per-particle observables built on neighbour
    files (the sums run over the neighbour slots); only the law PI(PINV(j)) = j is used (rewrite instances)."""
    key = "relabelling"
    what = "permutes-with-the-particle-ids"

    def pos(self, geo, s, i, c, per_frame=True):
        return geo.pos(s, sv.SV(PI(sv.znum(i))), c)

    def typ(self, base, s, i):
        return base(s, sv.SV(PI(sv.znum(i))))

    def particle(self, i):
        return sv.SV(PI(sv.znum(i)))

    def rows(self, arr):
        """a per-particle input array (N, ...) of g.x"""
        rd = arr.reader()
        return A.new_arr(arr.shape, lambda idx: rd((sv.SV(PI(sv.znum(idx[0]))),) + tuple(idx[1:])), arr.dtype)

    def prepare(self, ctx, unit, inp):
        N = sv.znum(inp["N"])
        ctx.array_fact("PI", lambda x: z3.And(z3.Implies(z3.And(x >= 0, x < N), z3.And(PI(x) >= 0, PI(x) < N)), PINV(PI(x)) == x))
        ctx.array_fact("PINV", lambda y: z3.And(z3.Implies(z3.And(y >= 0, y < N), z3.And(PINV(y) >= 0, PINV(y) < N)), PI(PINV(y)) == y))
        if _pi_rules not in RULES:
            RULES.append(_pi_rules)

    def begin(self, ctx, unit, inp):
        from pyvc.lib import _arr
        interp = ctx.interp
        orig = interp.summaries.get(RN_KEY)
        if orig is None:
            return ("none", None)

        def wrapped(interp_, args, kwargs):
            arr = _arr(orig(interp_, args, kwargs), interp_)
            rd = arr.reader()
            if arr.ndim != 2:
                raise sv.EngineError("relabelling wrapper: read_neighbors returns a 2-D array")

            def fn(idx):
                a, k = idx
                row = sv.SV(PI(sv.znum(a)))
                v = rd((row, k))
                if arr.dtype != "int":
                    return v                      # a weight (or any other per-neighbour property) stays with its slot
                cn = rd((row, 0))
                listed = sv.and_(sv.cmp(">=", k, 1), sv.cmp("<=", k, cn))
                if sv.is_conc(k) and int(k) == 0:
                    return v
                return sv.ite(listed, lambda: sv.SV(PINV(sv.znum(v))), lambda: v)
            return A.new_arr(arr.shape, A._memo(fn), arr.dtype)
        interp.summaries[RN_KEY] = wrapped
        return ("wrapped-rn", orig)

    def end(self, ctx, unit, inp, token):
        if token and token[0] == "wrapped-rn":
            ctx.interp.summaries[RN_KEY] = token[1]


RELABEL = Relabelling()


# ---------------------------------------------------------------------------------------------------------------
# the generic relational unit


class Rel(Unit):
    """base class.  Subclasses give: geo(inp), second(ctx, inp, g) -> result of the run on g.x, compare(ctx, case, inp, out, res2)"""
    prop = "C07"
    per_frame = True         # translation: a different vector per frame (False: frames are compared with each other)
    label = None
    clauses = ()

    def __init__(self, base, g=TRANSLATION, cases=None, label=None):
        self.base, self.g = base, g
        self.module, self.qualname = base.module, base.qualname
        self.lib_prop = getattr(base, "lib_prop", None) or base.prop
        self.loop_opts = getattr(base, "loop_opts", None) or {}
        self.timeout = max(getattr(base, "timeout", 10), 10)
        self.solver_opts = base.solver_opts
        self._cases = cases
        if label:
            self.label = label

    @property
    def summaries(self):
        return self.base.summaries

    @property
    def loop_hints(self):
        return self.base.loop_hints

    @property
    def name(self):
        return f"{self.g.key}:{self.label or self.qualname}"

    def cases(self):
        return list(self._cases) if self._cases is not None else list(self.base.cases())

    def setup(self, ctx, case):
        args, kwargs, inp = self.base.setup(ctx, case)
        inp = dict(inp)
        inp["args"], inp["kwargs"] = list(args), dict(kwargs)
        self.g.prepare(ctx, self, inp)
        return args, kwargs, inp

    def cl(self, what):
        return f"{what}:{self.g.what}"

    def clause_names(self, case):
        return [self.cl(c) for c in self.clauses]

    def pos2(self, inp):
        geo = self.geo(inp)
        return lambda s, i, c: self.g.pos(geo, s, i, c, self.per_frame)

    def cell2(self, inp):
        geo = self.geo(inp)
        return lambda s, a, b: self.g.cell(geo, s, a, b)

    light_state = False      # run on g.x from a fork of the final state that keeps only the branch decisions of the path condition

    def ensures(self, ctx, case, inp, out):
        from pyvc.state import use_state
        if not self.light_state:
            token = self.g.begin(ctx, self, inp)
            try:
                res2 = self.second(ctx, inp)
            finally:
                self.g.end(ctx, self, inp, token)
            yield from self.compare(ctx, case, inp, out, res2)
            return
        # the facts the first run left in the path condition (loop summaries, relational library contracts such as the eigen-equations)
        # are not needed by the second run; its obligations are generated under the branch decisions only (a subset of the path
        # condition, hence sound) — this keeps the nonlinear facts of the first run out of the second run's loop obligations
        s2 = out.state.fork()
        s2.pc = [(t if val else z3.Not(t)) for val, t in s2.decisions.values()]
        with use_state(s2):
            token = self.g.begin(ctx, self, inp)
            try:
                res2 = self.second(ctx, inp)
            finally:
                self.g.end(ctx, self, inp, token)
            goals = list(self.compare(ctx, case, inp, _Out(out, s2), res2))
        yield from goals

    def fail(self):
        for c in self.clauses:
            yield self.cl(c), False


# ---- Traj-based setups (contracts/common.Traj): C10 boo_2d, C09 boo_3d, C13 conditional_gr


def traj_geo(inp):
    tr = inp["tr"]
    return Geo(tr.d, tr.pos, tr.hm, inp.get("p"))


def traj_view(unit, inp):
    p2, c2, tr = unit.pos2(inp), unit.cell2(inp), inp["tr"]
    raw_typ = lambda s, i: sv.SV(tr.TYPE(sv.znum(tr._s(s, tr.same_types)), sv.znum(i)))
    return tr.view(pos_map=lambda t, s, i, c, base: p2(s, i, c), cell_map=lambda t, s, a, b, base: c2(s, a, b),
                   type_map=lambda t, s, i, base: unit.g.typ(raw_typ, s, i))


class Boo2d(Rel):
    """psi_l(s, i) returned by boo_2d.lthorder (real and imaginary part)"""
    clauses = ("psi",)

    def clause_names(self, case):
        return [self.cl("psi") + ":re", self.cl("psi") + ":im"]
    geo = staticmethod(traj_geo)

    def second(self, ctx, inp):
        import contracts.C10 as C10
        attrs = dict(inp["args"][0].content)
        attrs["snapshots"] = traj_view(self, inp).snapshots()
        o2 = obj(C10.MOD, "boo_2d", attrs)
        return call(ctx, method(C10.MOD, "boo_2d", "lthorder", o2), [""])

    def compare(self, ctx, case, inp, out, res2):
        res1 = out.value
        if not all(isinstance(r, A.Arr) and r.ndim == 2 for r in (res1, res2)):
            yield from self.fail()
            return
        s, i = inp["s"], inp["i"]
        yield from related_cx(self.cl("psi"), in_range((0, s, inp["T"]), (0, i, inp["N"])), res1.get((s, self.g.particle(i))), res2.get((s, i)))

    def replay(self, case, clause, model, seed):
        return replay_rel("boo_2d.lthorder", self.g.key, seed, case)


class Boo3d(Rel):
    """q_lm(n, i) and Q_lm(n, i) returned by boo_3d.qlm_Qlm (every m, real and imaginary part)"""
    clauses = ("q_lm", "Q_lm")
    geo = staticmethod(traj_geo)

    def clause_names(self, case):
        return [self.cl(c) + p for c in self.clauses for p in (":re", ":im")]

    def second(self, ctx, inp):
        import contracts.C09 as C09
        attrs = dict(inp["args"][0].content)
        attrs["snapshots"] = traj_view(self, inp).snapshots()
        o2 = obj(C09.MOD, C09.CLS, attrs)
        return call(ctx, method(C09.MOD, C09.CLS, "qlm_Qlm", o2), [])

    def compare(self, ctx, case, inp, out, res2):
        res1 = out.value
        ok = all(isinstance(r, tuple) and len(r) == 2 and all(isinstance(a, A.Arr) and a.ndim == 3 for a in r) for r in (res1, res2))
        if not ok:
            yield from self.fail()
            return
        n, i, k = inp["n"], inp["i"], inp["k"]
        inr = in_range((0, n, inp["T"]), (0, i, inp["N"]), (0, k, inp["M"]))
        yield from related_cx(self.cl("q_lm"), inr, res1[0].get((n, self.g.particle(i), k)), res2[0].get((n, i, k)))
        yield from related_cx(self.cl("Q_lm"), inr, res1[1].get((n, self.g.particle(i), k)), res2[1].get((n, i, k)))

    def replay(self, case, clause, model, seed):
        return replay_rel("boo_3d.qlm_Qlm", self.g.key, seed, case)


class CondGr(Rel):
    """every column of the frame returned by conditional_gr, at a symbolic bin"""
    geo = staticmethod(traj_geo)

    def clause_names(self, case):
        import contracts.C13 as C13
        kind = case.split("/")[1]
        return [self.cl(c) for c in ["rows", "r", "gr", "gA"] + (["gA_norm"] if C13.GR_KINDS[kind][1] else [])]

    def second(self, ctx, inp):
        import contracts.C13 as C13
        tr, d = inp["tr"], inp["d"]
        snap2 = snapshots_like(ctx, 1, tr.N, d, self.pos2(inp), tr.typ, self.cell2(inp), lambda n, c: tr.bl(n, self.g.axis(d, c))).content["snapshots"].content[0]
        kw = dict(inp["kwargs"])
        kw["ppp"] = self.g.mask(kw["ppp"])
        cond = inp["cond"]
        if inp["kind"] in ("vector", "cvector") and inp["m"] == d and cond.dtype == "float":
            cond = self.g.vec(cond)          # a vector field is given in the same coordinates as the positions
        return call(ctx, function(C13.MOD_GR, "conditional_gr"), [snap2, cond], kw)

    def compare(self, ctx, case, inp, out, res2):
        from pyvc.pandas_model import df_content
        res1 = out.value
        names = [c.split(":")[0] for c in self.clause_names(case)][1:]
        if not all(isinstance(r, Ref) and r.kind == "df" for r in (res1, res2)):
            for c in ["rows"] + names:
                yield self.cl(c), False
            return
        c1, c2 = df_content(res1), df_content(res2)
        yield self.cl("rows"), sv.and_(list(c1["order"]) == list(c2["order"]), sv.cmp("==", c1["n"], c2["n"]))
        k = inp["k"]
        inr = in_range((0, k, c1["n"]))
        # the number of bins of the second run, written as the term of the first run (equal by the clause above: the box lengths are
        # only permuted) so that the remaining clauses compare like with like
        n1, n2 = sv.norm(c1["n"]), sv.norm(c2["n"])
        same_n = [(sv.znum(n2), sv.znum(n1))] if isinstance(n1, sv.SV) and isinstance(n2, sv.SV) and not sv.znum(n1).eq(sv.znum(n2)) else []
        for nm in names:
            if nm in c1["cols"] and nm in c2["cols"]:
                yield from related(self.cl(nm), inr, c1["cols"][nm].get((k,)), c2["cols"][nm].get((k,)), same_n)
            else:
                yield self.cl(nm), False

    def replay(self, case, clause, model, seed):
        return replay_rel("conditional_gr", self.g.key, seed, case)


# ---- C04 S(q): unit-modulus phase (translation), 2 pi periodicity (lattice shift of an orthogonal cell)


def _apps_named(e, names):
    out, seen, stack = [], set(), [e]
    while stack:
        t = stack.pop()
        if t.get_id() in seen:
            continue
        seen.add(t.get_id())
        if z3.is_app(t):
            if t.decl().kind() == z3.Z3_OP_UNINTERPRETED and t.decl().name() in names:
                out.append(t)
            stack.extend(t.children())
    return out


def _split_guards(goal):
    """the goal under every truth assignment of the conditions of its (skeleton) conditionals: a complete case split"""
    guards = _ite_guards(goal)
    if len(guards) > 4:
        raise sv.EngineError("too many conditionals")
    out = []
    for bits in range(1 << len(guards)):
        sub = [(gd, z3.BoolVal(bool(bits >> n & 1))) for n, gd in enumerate(guards)]
        out.append(z3.simplify(z3.substitute(goal, *sub)) if sub else goal)
    return z3.And(*out) if len(out) > 1 else out[0]


def _split_cases(goal, rewrites):
    """[(goal, rewrites)] under every truth assignment of the conditions of the (skeleton) conditionals of the goal and of the
    right-hand sides of the rewrites: a complete case split (each case is discharged on its own)"""
    gs = {}
    for t in [goal] + [r for _, r in rewrites]:
        for gd in _ite_guards(t):
            gs[gd.get_id()] = gd
    guards = list(gs.values())
    if len(guards) > 5:
        raise sv.EngineError("too many conditionals")
    out = []
    for bits in range(1 << len(guards)):
        sub = [(gd, z3.BoolVal(bool(bits >> n & 1))) for n, gd in enumerate(guards)]
        if not sub:
            return [(goal, list(rewrites))]
        out.append((z3.simplify(z3.substitute(goal, *sub)), [(l, z3.simplify(z3.substitute(r, *sub))) for l, r in rewrites]))
    return out


class Sq(Rel):
    """the per-wave-vector structure factors (every total / partial column, vector m) that sq.<method> averages over equal |q|:
    translation multiplies every density mode of a frame by the unit-modulus phase exp(-i q.t_s) — Re[rho_a conj rho_b] is unchanged;
    a lattice shift of a particle of an orthogonal cell changes every phase q_m . r_i by 2 pi times an integer"""

    def geo(self, inp):
        tr, L, d = inp["tr"], inp["L"], inp["d"]
        return Geo(d, tr.pos, lambda s, a, b: A._pick([A._pick([L[x] if x == y else sv.to_frac(0.0) for y in range(d)], b) for x in range(d)], a), [1] * d)

    def clause_names(self, case):
        import contracts.C04 as C04
        names = []
        for name, _ in C04.columns(self.base.K):
            if self.g.key == "relabelling":
                names += [f"{name}:summand-of-g.x-at-i=summand-of-x-at-PI(i)", f"{name}:frame-term"]
            elif self.g.key == "translation":
                names += [f"{name}:particle-sums=phase-rotated-sums:induction-base", f"{name}:particle-sums=phase-rotated-sums:induction-step",
                          f"{name}:frame-term-invariant-under-a-unit-phase"]
            else:
                names += [f"{name}:phases-differ-by-2pi-times-an-integer", f"{name}:particle-sums:summands-equal", f"{name}:particle-sums:accumulated-sums-equal",
                          f"{name}:frame-term"]
            names += [f"{name}:sum-over-frames", self.cl(f"{name}:per-vector-value")]
        return names

    def second(self, ctx, inp):
        import contracts.C04 as C04
        attrs = dict(inp["args"][0].content)
        attrs["snapshots"] = traj_view(self, inp).snapshots()
        o2 = obj(C04.MOD, "sq", attrs)
        return call(ctx, method(C04.MOD, "sq", C04.METHODS[self.base.K], o2), [])

    def compare(self, ctx, case, inp, out, res2):
        import contracts.C04 as C04
        from pyvc import sigma
        from pyvc.sigma import Sum
        res1 = out.value
        m, M, T, N, s0 = inp["m"], inp["M"], inp["T"], inp["N"], inp["s0"]
        inm = in_range((0, m, M))
        ins = sv.and_(inm, in_range((0, s0, T)))
        gbs = [cur().heap[r.sid].meta.get("groupby") if isinstance(r, Ref) and r.kind == "df" else None for r in (res1, res2)]
        iv, nv = z3.Int("i_any"), z3.Int("n_ind")
        geo = self.geo(inp)
        for name, ab in C04.columns(self.base.K):
            names = [c for c in self.clause_names(case) if c.startswith(name + ":") or c == self.cl(f"{name}:per-vector-value")]
            try:
                rv1, rv2 = [sv.zr(g["values"][name]((m,))) for g in gbs]
                ok = all(z3.is_app(t) and t.decl().name() == "round6" for t in (rv1, rv2))
                v1, v2 = rv1.arg(0), rv2.arg(0)
                r1, r2 = C04.outer_sigmas(v1), C04.outer_sigmas(v2)
                ok = ok and len(r1) == 1 and len(r2) == 1
            except Exception:
                ok = False
            if not ok:
                for c in names:
                    yield c, False
                continue
            raw1, raw2 = r1[0], r2[0]
            sd1, sd2 = sigma.sigma_def_of(raw1), sigma.sigma_def_of(raw2)
            a1 = [raw1.arg(i) for i in range(2, raw1.num_args())]
            a2 = [raw2.arg(i) for i in range(2, raw2.num_args())]
            be1, be2 = sd1.body_at(s0.t, a1), sd2.body_at(s0.t, a2)
            subs, bad = [], False
            step_goals, base_goals = [], []
            re_goals, re_inst = [], []
            lat_goals, lat_rw, lat_pairs = [], [], []
            B = None
            for e2 in C04.outer_sigmas(be2):
                sdi = sigma.sigma_def_of(e2)
                ai = [e2.arg(i) for i in range(2, e2.num_args())]
                lo, hi = e2.arg(0), e2.arg(1)
                body2 = sdi.body_at(iv, ai)
                fas = _apps_named(body2, ("cos", "sin"))
                if len(fas) != 1 or not (z3.is_int_value(lo) and lo.as_long() == 0):
                    bad = True
                    break
                fa = fas[0]
                isc = fa.decl().name() == "cos"
                arg2 = fa.arg(0)
                if self.g.key == "relabelling":
                    # Σ over the particles re-indexed by the bijection PI of [0, N): the summand of g.x at i is the summand of x at PI(i)
                    # (obligation), hence sum_{i<N} f(PI(i)) = sum_{i<N} f(i) — TRUSTED rule `reindex-by-bijection`, one instance per sum
                    w = z3.Int("w_any")
                    piv = PI(iv)
                    tmpl = z3.substitute(body2, (piv, w))
                    if _contains_const(tmpl, iv) or not (hi.eq(sv.znum(N))):
                        bad = True
                        break
                    e1 = sv.zr(sv.norm(Sum(0, N, lambda t, tmpl=tmpl: sv.SV(z3.substitute(tmpl, (w, sv.znum(t)))))))
                    re_goals.append(body2 == z3.substitute(tmpl, (w, piv)))
                    re_inst.append(e2 == e1)
                    subs.append((e2, e1))
                    continue
                sym = "TVEC" if self.g.key == "translation" else "SHIFTV"
                tapps = _apps_named(arg2, (sym,))
                A_ = z3.substitute(arg2, *[(t, z3.RealVal(0)) for t in tapps]) if tapps else arg2
                COS, SIN = fa.decl() if isc else sv.cos(sv.SV(A_)).t.decl(), fa.decl() if not isc else sv.sin(sv.SV(A_)).t.decl()
                tmpl_c, tmpl_s = z3.substitute(body2, (fa, COS(A_))), z3.substitute(body2, (fa, SIN(A_)))

                def S(tmpl, upto):
                    return Sum(0, upto, lambda t, tmpl=tmpl: sv.SV(z3.substitute(tmpl, (iv, sv.znum(t)))))
                if self.g.key == "translation":
                    papps = _apps_named(arg2, ("POS",))
                    Bq = z3.substitute(arg2, *[(t, z3.RealVal(0)) for t in papps]) if papps else arg2
                    if _contains_const(Bq, iv) or not tapps:
                        bad = True
                        break
                    B = Bq if B is None else B
                    cB, sB = COS(Bq), SIN(Bq)

                    def target(upto):
                        Ec, Es = sv.zr(sv.norm(S(tmpl_c, upto))), sv.zr(sv.norm(S(tmpl_s, upto)))
                        return (cB * Ec - sB * Es) if isc else (sB * Ec + cB * Es)
                    n1 = nv + 1
                    e2n, e2n1 = sdi.fn(lo, nv, *ai), sdi.fn(lo, z3.simplify(n1), *ai)
                    rw = [(e2n1, e2n + sdi.body_at(nv, ai)), (e2n, target(sv.SV(nv)))]
                    for tmpl in (tmpl_c, tmpl_s):
                        En, En1 = sv.zr(sv.norm(S(tmpl, sv.SV(nv)))), sv.zr(sv.norm(S(tmpl, sv.SV(z3.simplify(n1)))))
                        if sigma.sigma_def_of(En1) is None or sigma.sigma_def_of(En) is None:
                            bad = True
                            break
                        rw.append((En1, En + z3.substitute(tmpl, (iv, nv))))
                    if bad:
                        break
                    fan = z3.substitute(fa, (iv, nv))
                    An = z3.substitute(A_, (iv, nv))
                    rw.append((fan, (COS(An) * cB - SIN(An) * sB) if isc else (SIN(An) * cB + COS(An) * sB)))
                    # the angle-addition instance is used with the argument of the code's cos / sin ring-equal to A_n + B
                    step_goals.append((z3.And(z3.substitute(arg2, (iv, nv)) == An + Bq, e2n1 == target(sv.SV(z3.simplify(n1)))), rw))
                    base_goals.append(sdi.fn(lo, z3.IntVal(0), *ai) == 0)
                    subs.append((e2, target(N)))
                else:
                    # lattice shift: arg2 = A + 2 pi Z, Z an integer-sorted term (SHIFTV unfolded on the orthogonal cell of the box lengths)
                    Z = z3.IntVal(0)
                    for t in tapps:
                        s_, i_, c_ = t.children()
                        Z = Z + sv.znum(inp["nq"](sv.SV(raw2.arg(raw2.num_args() - 1)) if False else m, sv.SV(c_))) * KSH(s_, i_, c_)
                    two_pi = sv.zr(sv.mul(2, sv.PI))
                    defs = [(t, self.g.definition(geo, t)) for t in tapps]
                    sign = None
                    for sg in (-1, 1):
                        if ring_ok(arg2 == A_ + two_pi * z3.ToReal(sg * Z), defs):
                            sign = sg
                    if sign is None:
                        lat_goals.append(arg2 == A_ + two_pi * z3.ToReal(Z))
                        lat_rw += defs
                    else:
                        lat_goals.append(arg2 == A_ + two_pi * z3.ToReal(sign * Z))
                        lat_rw += defs
                    e1 = sv.zr(sv.norm(S(tmpl_c if isc else tmpl_s, N)))
                    if sigma.sigma_def_of(e1) is None:
                        bad = True
                        break
                    lat_pairs.append((e1, e2, (fa, (COS if isc else SIN)(A_))))
                    subs.append((e2, e1))
            if bad:
                for c in names:
                    yield c, False
                continue
            if self.g.key == "relabelling":
                yield f"{name}:summand-of-g.x-at-i=summand-of-x-at-PI(i)", z3.And(*re_goals), {"ring_only": True}
                # the instances of the reindexing rule (TRUSTED) are assumed here; with them the frame terms are ring-equal
                yield f"{name}:frame-term", z3.Implies(z3.And(*re_inst), z3.substitute(be2, *subs) == be1), {"ring_only": True}
            elif self.g.key == "translation":
                # (A) induction over the number of particles: sum_{i<n} f(A_i + B) = (cos B, sin B)-combination of the untranslated sums;
                #     base n = 0: empty sums; step: unfold-last instances + hypothesis + angle-addition instance at i = n (rewrites)
                yield f"{name}:particle-sums=phase-rotated-sums:induction-base", z3.And(*base_goals), {"solver_opts": {"rounds": 1, "unfold": False}}
                for gl, rw in step_goals:
                    for gq, rq in _split_cases(gl, rw):
                        yield f"{name}:particle-sums=phase-rotated-sums:induction-step", gq, {"ring_only": True, "rewrites": rq}
                be2s = z3.substitute(be2, *subs)
                cB, sB = sv.cos(sv.SV(B)).t, sv.sin(sv.SV(B)).t
                atoms = [cB, sB] + C04.outer_sigmas(be2s) + C04.outer_sigmas(be1)
                seen, ua = set(), []
                for a in atoms:
                    if a.get_id() not in seen:
                        seen.add(a.get_id())
                        ua.append(a)
                gB, _ = sv.generalize(z3.Implies(cB * cB + sB * sB == 1, be2s == be1), [sv.SV(a) for a in ua], "u")
                yield f"{name}:frame-term-invariant-under-a-unit-phase", gB, {"timeout": 20}
            else:
                yield f"{name}:phases-differ-by-2pi-times-an-integer", z3.And(*lat_goals), {"ring_only": True, "rewrites": lat_rw}
                x = z3.Int("x_any")
                pw = []
                sg = []
                for e1, e2, (fa, fA) in lat_pairs:
                    d1, d2 = sigma.sigma_def_of(e1), sigma.sigma_def_of(e2)
                    b1 = d1.body_at(x, [e1.arg(i) for i in range(2, e1.num_args())])
                    b2 = d2.body_at(x, [e2.arg(i) for i in range(2, e2.num_args())])
                    sg.append((_split_guards(b1 == b2), (z3.substitute(fa, (iv, x)), z3.substitute(fA, (iv, x)))))
                    pw.append(lambda w, d1=d1, d2=d2, e1=e1, e2=e2: d1.body_at(w, [e1.arg(i) for i in range(2, e1.num_args())]) == d2.body_at(w, [e2.arg(i) for i in range(2, e2.num_args())]))
                # cos / sin of the shifted phase rewritten to cos / sin of the unshifted one: instances of the 2 pi Z periodicity (clause above)
                yield f"{name}:particle-sums:summands-equal", z3.And(*[g_ for g_, _ in sg]), {"ring_only": True, "rewrites": [r_ for _, r_ in sg]}
                yield (f"{name}:particle-sums:accumulated-sums-equal", z3.And(*[e1 == e2 for e1, e2, _ in lat_pairs]),
                       {"solver_opts": {"pointwise": pw, "rounds": 1, "unfold": False}})
                yield f"{name}:frame-term", z3.substitute(be2, *subs) == be1, {"ring_only": True}

            # (C) sum over frames by Σ-extensionality with the frame-term fact at the Skolem frame
            def pointwise(w, sd1=sd1, sd2=sd2, a1=a1, a2=a2):
                return z3.Implies(z3.And(w >= 0, w < sv.znum(T)), sd1.body_at(w, a1) == sd2.body_at(w, a2))
            yield f"{name}:sum-over-frames", z3.Implies(sv.zb(inm), raw1 == raw2), {"solver_opts": {"pointwise": [pointwise], "rounds": 1, "unfold": False}}
            yield self.cl(f"{name}:per-vector-value"), z3.substitute(rv2, (raw2, raw1)) == rv1, {"ring_only": True}

    def replay(self, case, clause, model, seed):
        return replay_rel(f"sq.{self.base.qualname.split('.')[-1]}", self.g.key, seed, case)


def _contains_const(e, c):
    seen, stack = set(), [e]
    while stack:
        t = stack.pop()
        if t.get_id() in seen:
            continue
        seen.add(t.get_id())
        if t.eq(c):
            return True
        stack.extend(t.children())
    return False


def ring_ok(goal, rewrites=()):
    from pyvc import ring
    return ring.ring_proves(goal, rewrites)


# ---- C17 setups (make_snapshots accessors)


def c17_geo(inp):
    acc = inp["acc"]
    return Geo(inp["d"], acc["pos"], acc["H"], inp["pl"])


def c17_snapshots(unit, ctx, inp):
    acc, d = inp["acc"], inp["d"]
    return snapshots_like(ctx, inp["T"], inp["N"], d, unit.pos2(inp), acc["typ"], unit.cell2(inp), lambda n, c: acc["L"](unit.g.axis(d, c)))


class Tetra(Rel):
    """the tetrahedral order parameter q8_tetrahedral[n, i]"""
    clauses = ("q_tetra",)
    geo = staticmethod(c17_geo)

    def second(self, ctx, inp):
        import contracts.C17 as C17
        kw = dict(inp["kwargs"])
        kw["ppp"] = self.g.mask(kw["ppp"])
        return call(ctx, function(C17.GEO, "q8_tetrahedral"), [c17_snapshots(self, ctx, inp)], kw)

    def compare(self, ctx, case, inp, out, res2):
        res1 = out.value
        if not all(isinstance(r, A.Arr) and r.ndim == 2 for r in (res1, res2)):
            yield from self.fail()
            return
        n, i = inp["n0"], inp["i0"]
        yield eq_goal(self.cl("q_tetra"), in_range((0, n, inp["T"]), (0, i, inp["N"])), [(res1.get((n, i)), res2.get((n, i)))])

    def replay(self, case, clause, model, seed):
        return replay_rel("q8_tetrahedral", self.g.key, seed, case)


class PairEntropy(Rel):
    """S2[n, i] returned by S2.particle_s2 (and the particle g(r) [n, i, b] with savegr)"""
    geo = staticmethod(c17_geo)

    def clause_names(self, case):
        return [self.cl("S2")] + ([self.cl("particle_gr")] if case.endswith("savegr") else [])

    def second(self, ctx, inp):
        import contracts.C17 as C17
        attrs = dict(inp["self"].content)
        attrs["snapshots"] = c17_snapshots(self, ctx, inp)
        attrs["ppp"] = self.g.mask(attrs["ppp"])
        o2 = obj(C17.PAIR, "S2", attrs)
        kw = dict(inp["kwargs"])
        if kw.get("outputfile"):
            kw["outputfile"] = "g." + kw["outputfile"]
        return call(ctx, method(C17.PAIR, "S2", "particle_s2", o2), [], kw)

    def compare(self, ctx, case, inp, out, res2):
        res1 = out.value
        sg = inp["savegr"]
        ok = all((isinstance(r, tuple) and len(r) == 2 and all(isinstance(a, A.Arr) for a in r)) if sg else isinstance(r, A.Arr) for r in (res1, res2))
        if not ok:
            for c in self.clause_names(case):
                yield c, False
            return
        n, i, b = inp["n0"], inp["i0"], inp["b0"]
        inr = in_range((0, n, inp["T"]), (0, i, inp["N"]))
        a1, a2 = (res1[0], res2[0]) if sg else (res1, res2)
        yield eq_goal(self.cl("S2"), inr, [(a1.get((n, i)), a2.get((n, i)))])
        if sg:
            yield eq_goal(self.cl("particle_gr"), sv.and_(inr, in_range((0, b, inp["nb"]))), [(res1[1].get((n, i, b)), res2[1].get((n, i, b)))])

    def replay(self, case, clause, model, seed):
        return replay_rel("S2.particle_s2", self.g.key, seed, case)


class Gyration(Rel):
    """the tensor handed to the eigen-solver (translation cancels against the centre of mass) and every returned shape descriptor"""
    per_frame = False

    def geo(self, inp):
        return Geo(inp["d"], lambda s, i, c: inp["p"](i, c))

    def clause_names(self, case):
        return [self.cl("centre-of-mass-shifts-with-the-points"), self.cl("gyration-tensor") + ":summands-equal",
                self.cl("gyration-tensor") + ":accumulated-sums-equal", self.cl("gyration-tensor"), self.cl("descriptors")]

    def second(self, ctx, inp):
        import contracts.C17 as C17
        p2 = self.pos2(inp)
        P2 = A.new_arr((inp["N"], inp["d"]), lambda idx: p2(0, idx[0], idx[1]), "float", input="gP")
        inp["P2"] = P2
        return call(ctx, function(C17.SHAPE, "gyration_tensor"), [P2])

    def compare(self, ctx, case, inp, out, res2):
        from pyvc.sigma import Sum
        import contracts.C03 as C03
        d, N, p = inp["d"], inp["N"], inp["p"]
        eigs = [e for e in out.state.trace if e[0] == "eig"]
        try:
            r1, r2 = ctx.interp.iter_concrete(out.value), ctx.interp.iter_concrete(res2)
        except Exception:
            r1 = r2 = None
        if len(eigs) != 2 or r1 is None or len(r1) != len(r2):
            for c in self.clause_names(case):
                yield c, False
            return
        T1, T2 = eigs[0][1], eigs[1][1]
        # Σ-linearity, one instance per axis: sum_i (p(i,c) + t_c) = sum_i p(i,c) + N t_c
        #   = linearity instance (summand = sum of the two summands at the Skolem index) + constant-summand instance sum_i t_c = t_c N
        t = [sv.SV(TVEC(z3.IntVal(0), z3.IntVal(c))) for c in range(d)]
        shifted = [Sum(0, N, lambda q, c=c: sv.add(p(q, c), t[c])) for c in range(d)]
        plain = [Sum(0, N, lambda q, c=c: p(q, c)) for c in range(d)]
        const = [Sum(0, N, lambda q, c=c: t[c]) for c in range(d)]
        lin = [sv.cmp("==", shifted[c], sv.add(plain[c], sv.mul(N, t[c]))) for c in range(d)]
        yield (self.cl("centre-of-mass-shifts-with-the-points"), sv.and_(*lin),
               {"solver_opts": {"sigma_linear": [(sv.zr(shifted[c]), [sv.zr(plain[c]), sv.zr(const[c])]) for c in range(d)], "const_sum": True, "rounds": 2}})
        # with the shifted sums rewritten (instances of the clause above) the summands of the two tensors are ring-equal at every index;
        # the accumulated sums are then equal by Σ-extensionality
        rw = [(shifted[c], sv.add(plain[c], sv.mul(N, t[c]))) for c in range(d)]
        pairs = [(T1.get((m, n)), T2.get((m, n))) for m in range(d) for n in range(m, d)]
        sub, ok = [], True
        for a, b in pairs:
            sa, sb = C03.outer_sigmas(sv.zr(a)), C03.outer_sigmas(sv.zr(b))
            ok = ok and len(sa) == 1 and len(sb) == 1
            if ok:
                sub.append((sa[0], sb[0]))
        if not ok:
            yield self.cl("gyration-tensor"), False
            yield self.cl("descriptors"), False
            return
        yield from sigma_equal(self.cl("gyration-tensor"), sub, rw, lin)
        same = [sv.SV(x == y) for x, y in sub]
        # entries and descriptors as functions of the accumulated sums: ring normal form after identifying the sums
        g = sv.zb(sv.and_(*[sv.cmp("==", a, b) for a, b in pairs] + [sv.cmp("==", T2.get((n, m)), T2.get((m, n))) for m in range(d) for n in range(m)]))
        yield self.cl("gyration-tensor"), z3.substitute(g, *[(y, x) for x, y in sub]), {"ring_only": True}
        gd = sv.zb(sv.and_(*[sv.cmp("==", a, b) for a, b in zip(r1, r2)]))
        yield self.cl("descriptors"), z3.substitute(gd, *[(y, x) for x, y in sub]), {"ring_only": True}

    def replay(self, case, clause, model, seed):
        return replay_rel("gyration_tensor", self.g.key, seed, case)


# ---- C15 divergence_curl (one snapshot given by arrays)


class DivCurl(Rel):
    """divergence (and curl in 3-D) of a vector field on the neighbour graph"""
    per_frame = False

    def geo(self, inp):
        R, Hm = inp["R"], inp["Hm"]
        return Geo(inp["d"], lambda s, i, c: R.get((i, c)), lambda s, a, b: A._pick([A._pick(r, b) for r in Hm], a), inp["pm"])

    def clause_names(self, case):
        return [self.cl("divergence")] + ([self.cl("curl")] if case == "d=3" else [])

    def second(self, ctx, inp):
        import contracts.C15 as C15
        snap = inp["args"][0]
        p2 = self.pos2(inp)
        attrs = dict(snap.content)
        d = inp["d"]
        c2 = self.cell2(inp)
        attrs["positions"] = A.new_arr((inp["N"], d), lambda idx: p2(0, idx[0], idx[1]), "float", input="g_pos")
        attrs["hmatrix"] = A.from_nested([[c2(0, a, b) for b in range(d)] for a in range(d)], "float")
        snap2 = obj(RU, "SingleSnapshot", attrs)
        _, U_, P_, fn = inp["args"]
        return call(ctx, function(C15.MOD, "divergence_curl"), [snap2, self.g.vec(U_), self.g.mask(P_), fn], inp["kwargs"])

    def compare(self, ctx, case, inp, out, res2):
        d, N = inp["d"], inp["N"]
        res1 = out.value
        if d == 3:
            ok = all(isinstance(r, tuple) and len(r) == 2 and all(isinstance(a, A.Arr) for a in r) for r in (res1, res2))
            div1, curl1 = res1 if ok else (None, None)
            div2, curl2 = res2 if ok else (None, None)
        else:
            ok = all(isinstance(r, A.Arr) for r in (res1, res2))
            div1, div2 = res1, res2
        if not ok:
            for c in self.clause_names(case):
                yield c, False
            return
        p = ctx.int("p")
        inr = in_range((0, p, N))
        yield eq_goal(self.cl("divergence"), inr, [(div1.get((p,)), div2.get((p,)))])
        if d == 3:
            # a proper (even) permutation of the axes permutes the components of the curl like those of a vector
            yield eq_goal(self.cl("curl"), inr, [(curl1.get((p, self.g.axis(3, c))), curl2.get((p, c))) for c in range(3)])

    def replay(self, case, clause, model, seed):
        return replay_rel("divergence_curl", self.g.key, seed, case)


# ---- C11 diagonalize_hessian


class Hessian(Rel):
    """the mass-weighted Hessian handed to the eigen-solver, entry (a, b) — hence its spectrum (the eigenvalues are a function of the
    matrix).  The assembly loops of the run on g.x are verified against the SAME written invariants as the run on x (the base
    unit's, phrased over the untransformed system): their init / step obligations are part of this unit's clauses `assembly:*`."""
    per_frame = False
    normalise_rows = True
    light_state = True
    clauses = ("matrix-handed-to-eigh",)

    def geo(self, inp):
        S = inp["S"]
        return Geo(S.d, lambda s, i, c: S.pos.get((i, c)), lambda s, a, b: A._pick([A._pick(r, b) for r in S.Hm], a), S.p)

    def setup(self, ctx, case):
        args, kwargs, inp = super().setup(ctx, case)
        # which files are written does not matter here: the two flags (symbolic in the base unit, four paths) are fixed
        kwargs = dict(kwargs, saveevecs=False, savehessian=False)
        inp["kwargs"] = dict(kwargs)
        return args, kwargs, inp

    def second(self, ctx, inp):
        import contracts.C11 as C11
        S = inp["S"]
        p2 = self.pos2(inp)
        sattrs = dict(S.snapshot.content)
        sattrs["positions"] = A.new_arr((S.N, S.d), lambda idx: p2(0, idx[0], idx[1]), "float", input="g_pos")
        snap2 = obj(RU, "SingleSnapshot", sattrs)
        oattrs = dict(S.obj.content)
        oattrs["snapshot"] = snap2
        o2 = obj(C11.MOD, "HessianMatrix", oattrs)
        kw = dict(inp["kwargs"])
        kw["outputfile"] = "g.out"
        return call(ctx, method(C11.MOD, "HessianMatrix", "diagonalize_hessian", o2), inp["args"][1:], kw)

    def compare(self, ctx, case, inp, out, res2):
        S, d = inp["S"], inp["d"]
        eg = [e for e in out.state.trace if e[0] == "np.linalg.eigh"]
        if len(eg) != 2 or not all(isinstance(e[1], A.Arr) and e[1].ndim == 2 for e in eg):
            yield from self.fail()
            return
        a, b = ctx.int("a"), ctx.int("b")
        n = sv.mul(d, S.N)
        M1, M2 = eg[0][1], eg[1][1]
        yield self.cl("matrix-handed-to-eigh"), sv.and_(sv.cmp("==", M1.shape[0], M2.shape[0]), sv.cmp("==", M1.shape[1], M2.shape[1]),
                                                        sv.implies(in_range((0, a, n), (0, b, n)), sv.cmp("==", M1.get((a, b)), M2.get((a, b)))))

    def replay(self, case, clause, model, seed):
        return replay_rel("HessianMatrix.diagonalize_hessian", self.g.key, seed, case)


# ---- C06 Dynamics.relaxation


class Relaxation(Rel):
    """every column of the frame returned by Dynamics.relaxation at a symbolic lag (the same vector in every frame)"""
    per_frame = False
    COLS = "t isf Qt X4_Qt msd alpha2".split()

    def geo(self, inp):
        W = inp["W"]
        return Geo(W.d, W.pos, (lambda s, a, b: W.HM.get((s, a, b))) if W.pbc else None, W.p)

    def clause_names(self, case):
        return [self.cl(c) for c in self.COLS]

    def second(self, ctx, inp):
        import contracts.C06 as C06
        W = inp["W"]
        p2 = self.pos2(inp)
        W2 = copy.copy(W)
        W2.X = A.new_arr((W.T, W.N, W.d), lambda idx: p2(idx[0], idx[1], idx[2]), "float", input="gX")
        attrs = dict(inp["args"][0].content)
        attrs["snapshots"] = W2.snapshots(ctx)
        attrs["ppp"] = self.g.mask(attrs["ppp"])
        o2 = obj(C06.MOD, "Dynamics", attrs)
        return call(ctx, method(C06.MOD, "Dynamics", "relaxation", o2), inp["args"][1:], inp["kwargs"])

    def compare(self, ctx, case, inp, out, res2):
        res1 = out.value
        if not all(isinstance(r, Ref) and r.kind == "df" for r in (res1, res2)):
            for c in self.clause_names(case):
                yield c, False
            return
        c1, c2 = res1.content["cols"], res2.content["cols"]
        k = inp["k"]
        inr = in_range((0, k, sv.sub(inp["W"].T, 1)))
        for nm in self.COLS:
            if nm in c1 and nm in c2:
                yield eq_goal(self.cl(nm), inr, [(c1[nm].get((k,)), c2[nm].get((k,)))])
            else:
                yield self.cl(nm), False

    def replay(self, case, clause, model, seed):
        return replay_rel("Dynamics.relaxation", self.g.key, seed, case)


# ---------------------------------------------------------------------------------------------------------------
# replay: the relation on the REAL code (contracts/C07_relational.py, `unit:` observables with full outputs)


def replay_rel(observable, group, seed, case=""):
    from contracts.C07 import _run_relational
    d = _run_relational(seed, None, only=f"unit:{observable}/{group}", case=case)
    bad = [r for r in d.get("failed", [])]
    if bad:
        return {"ran": True, "failed": True, "searched": d.get("relations_checked"), "inputs": bad[0].get("inputs"),
                "detail": f"{bad[0]['observable']} under {bad[0]['group']}: {bad[0].get('detail')}"}
    errs = "; ".join(e.get("error", "")[-300:] for e in d.get("errors", []))
    return {"ran": bool(d.get("relations_checked")), "failed": False, "searched": d.get("relations_checked"), "error": errs}
