"""C08 — tabulated spherical harmonics are the standard Y_lm for all angles.

Functions under contract: SphHarm1..SphHarm10 (straight-line closed forms), SphHarm_above, sph_harm_l.
Spec: Y_lm(theta, phi) = sqrt((2l+1)/(4 pi) (l-|m|)!/(l+|m|)!) P_l^{|m|}(cos theta) e^{i m phi}, Condon-Shortley
phase, Y_{l,-m} = (-1)^m conj(Y_lm);  P_l from the three-term recurrence in exact rational arithmetic and
P_l^m(x) = (-1)^m (1-x^2)^{m/2} d^m P_l/dx^m, with (1-cos^2 theta)^{m/2} = sin^m theta on [0, pi].
Nothing of the spec is taken from the code or from sympy/scipy.
"""
from fractions import Fraction
from math import factorial

from pyvc import sv
from pyvc import symb
from pyvc.vc import Unit

MOD = "PyMatterSim.utils.spherical_harmonics"

NOT_DECIDED = [
    "numerical accuracy of scipy's spherical harmonics for l > 10 (assumed contract; bounded numerical comparison in the thorough tier)",
]
TRUSTED = [
    "sin(theta) >= 0 for theta in [0, pi]; cos(-x) = cos(x), sin(-x) = -sin(x); sqrt(q t) = sqrt(q) sqrt(t) for rational q > 0",
    "assumed contract of scipy.special.sph_harm(m, n, azimuth, polar) = Y_n^m(polar, azimuth), 2 pi-periodic in the azimuth",
]


def legendre(l):
    """coefficients (ascending) of P_l"""
    p0, p1 = [Fraction(1)], [Fraction(0), Fraction(1)]
    if l == 0:
        return p0
    for k in range(1, l):
        # (k+1) P_{k+1} = (2k+1) x P_k - k P_{k-1}
        a = [Fraction(0)] + [Fraction(2 * k + 1) * c for c in p1]
        b = [Fraction(k) * c for c in p0] + [Fraction(0)] * (len(a) - len(p0))
        p0, p1 = p1, [(x - y) / (k + 1) for x, y in zip(a, b)]
    return p1


def deriv(c, m):
    for _ in range(m):
        c = [Fraction(k) * c[k] for k in range(1, len(c))]
    return c or [Fraction(0)]


def polyval(c, x, M):
    acc = 0
    for k in range(len(c) - 1, -1, -1):
        acc = M.add(M.mul(acc, x), c[k])
    return acc


def Y_spec(l, m, theta, phi, M=symb):
    """(re, im) of Y_lm"""
    am = abs(m)
    K = Fraction(2 * l + 1, 4) * Fraction(factorial(l - am), factorial(l + am))
    poly = deriv(legendre(l), am)
    c, s = M.cos(theta), M.sin(theta)
    P = M.mul((-1) ** am, M.mul(M.power(s, am), polyval(poly, c, M)))
    N = M.sqrt(M.div(K, M.PI))
    mag = M.mul(N, P)
    re, im = M.mul(mag, M.cos(M.mul(am, phi))), M.mul(mag, M.sin(M.mul(am, phi)))
    if m >= 0:
        return re, im
    sign = (-1) ** am
    return M.mul(sign, re), M.mul(-sign, im)


def spec_table(l, theta, phi, M=symb):
    return [Y_spec(l, m, theta, phi, M) for m in range(-l, l + 1)]


def _frac(x, default):
    if isinstance(x, str) and "/" in x:
        a, b = x.split("/")
        return int(a) / int(b)
    try:
        return float(x)
    except (TypeError, ValueError):
        return default


def _replay_table(fn_name, l, model, seed, args_of=None):
    import importlib
    import math
    import random
    from pyvc import conc
    try:
        S = importlib.import_module(MOD)
    except Exception as e:
        return {"ran": True, "failed": True, "detail": f"module cannot be imported: {type(e).__name__}: {e}"}
    rng = random.Random(seed)
    f = getattr(S, fn_name)
    pts = []
    c = _frac(model.get("cos_theta"), None)
    if c is not None and -1 <= c <= 1:
        pts.append((math.acos(c), _frac(model.get("phi"), 0.3)))
    th = _frac(model.get("theta"), None)
    if th is not None and 0 <= th <= math.pi:
        pts.append((th, _frac(model.get("phi"), 0.3)))
    pts += [(math.acos(x), 0.7) for x in (-0.5, 0.5, 0.25, -0.75)]
    pts += [(rng.uniform(0, math.pi), rng.uniform(-math.pi, math.pi)) for _ in range(60)]
    for k, (theta, phi) in enumerate(pts):
        try:
            got = f(*(args_of(theta, phi) if args_of else (theta, phi)))
        except Exception as e:
            return {"ran": True, "failed": True, "inputs": {"theta": theta, "phi": phi}, "detail": f"raises {type(e).__name__}: {e}"}
        want = spec_table(l, theta, phi, M=conc)
        if got is None or len(got) != 2 * l + 1:
            return {"ran": True, "failed": True, "inputs": {"theta": theta, "phi": phi, "l": l},
                    "detail": f"returned {type(got).__name__} of length {None if got is None else len(got)}, expected {2*l+1} values"}
        for i, (w, g) in enumerate(zip(want, got)):
            g = complex(g)
            if not conc.close(g, complex(w[0], w[1]), rel=1e-8, abs_=1e-10):
                return {"ran": True, "failed": True, "inputs": {"theta": theta, "phi": phi, "l": l, "m": i - l},
                        "got": [g.real, g.imag], "expected": [w[0], w[1]], "searched": k + 1}
    return {"ran": True, "failed": False, "searched": len(pts)}


class Table(Unit):
    """SphHarm{l}(theta, phi)[m + l] == Y_lm(theta, phi) for m = -l..l, identically in both angles"""
    module = MOD
    prop = "C08"
    timeout = 20

    def __init__(self, l):
        self.l = l
        self.qualname = f"SphHarm{l}"

    def setup(self, ctx, case):
        theta, phi = ctx.real("theta"), ctx.real("phi")
        ctx.assume(theta >= 0)
        ctx.assume(theta <= sv.PI)
        ctx.assume(sv.sin(theta) >= 0)      # trusted: sin >= 0 on [0, pi]
        ctx.assume(phi > -sv.PI)
        ctx.assume(phi <= sv.PI)
        return [theta, phi], {}, {"theta": theta, "phi": phi}

    def clause_names(self, case):
        l = self.l
        return ["length=2l+1"] + [f"m={m}" for m in range(-l, l + 1)] + ["conjugation-symmetry", "addition-theorem"]

    def ensures(self, ctx, case, inp, out):
        l = self.l
        res = out.value
        from pyvc import arr as A
        if not isinstance(res, A.Arr) or res.ndim != 1:
            yield "length=2l+1", False
            return
        yield "length=2l+1", sv.cmp("==", res.shape[0], 2 * l + 1)
        if not (sv.is_conc(res.shape[0]) and res.shape[0] == 2 * l + 1):
            return
        vals = [sv.as_cx(res.get((k,))) for k in range(2 * l + 1)]
        for m in range(-l, l + 1):
            re, im = Y_spec(l, m, inp["theta"], inp["phi"])
            v = vals[m + l]
            yield f"m={m}", sv.and_(sv.cmp("==", v.re, re), sv.cmp("==", v.im, im))
        # Y_{l,-m} = (-1)^m conj(Y_lm) on the returned values
        conds = []
        for m in range(0, l + 1):
            a, b = vals[l - m], vals[l + m]
            sg = (-1) ** m
            conds.append(sv.and_(sv.cmp("==", a.re, sv.mul(sg, b.re)), sv.cmp("==", a.im, sv.mul(-sg, b.im))))
        yield "conjugation-symmetry", sv.and_(*conds)
        # sum_m |Y_lm|^2 = (2l+1)/(4 pi): lemma on the spec (|e^{i m phi}| = 1, sin^2 = 1 - x^2, N^2 = K/pi), a univariate
        # polynomial identity in x = cos(theta); the returned values inherit it through the entry-wise clauses above
        x = sv.real("x_cos")
        tot = 0
        for m in range(-l, l + 1):
            am = abs(m)
            K = Fraction(2 * l + 1, 4) * Fraction(factorial(l - am), factorial(l + am))
            pv = polyval(deriv(legendre(l), am), x, sv)
            tot = sv.add(tot, sv.mul(K, sv.mul(sv.power(sv.sub(1, sv.mul(x, x)), am), sv.mul(pv, pv))))
        yield "addition-theorem", sv.cmp("==", tot, Fraction(2 * l + 1, 4))

    def replay(self, case, clause, model, seed):
        return _replay_table(self.qualname, self.l, model, seed)


# ---- assumed contract of scipy.special.sph_harm -----------------------------------------------------
import z3  # noqa: E402

_YRE = z3.Function("Ylm_re", z3.IntSort(), z3.IntSort(), z3.RealSort(), z3.RealSort(), z3.RealSort())
_YIM = z3.Function("Ylm_im", z3.IntSort(), z3.IntSort(), z3.RealSort(), z3.RealSort(), z3.RealSort())


def Y_abstract(l, m, polar, azimuth):
    """the definition Y_lm(polar, azimuth) as an abstract function for symbolic degree l"""
    a = [sv.znum(l), sv.znum(m), sv.zr(polar), sv.zr(azimuth)]
    return sv.Cx(sv.SV(_YRE(*a)), sv.SV(_YIM(*a)))


def _scipy_sph_harm(interp, m, n, az, pol):
    """ASSUMED: scipy.special.sph_harm(m, n, theta=azimuth, phi=polar) = Y_n^m(polar, azimuth)"""
    return Y_abstract(n, m, pol, az)


def _scipy_sph_harm_y(interp, n, m, pol, az):
    """ASSUMED: scipy.special.sph_harm_y(n, m, theta=polar, phi=azimuth) = Y_n^m(polar, azimuth)"""
    return Y_abstract(n, m, pol, az)


class Above(Unit):
    """SphHarm_above(l, theta, phi)[k] == Y_{l, k-l}(polar=theta, azimuth=phi) for symbolic l > 10"""
    module = MOD
    qualname = "SphHarm_above"
    prop = "C08"

    def cases(self):
        # x which arm of the module-level `try: from scipy.special import sph_harm / except ImportError:` is live
        return [f"{p}/{v}" for p in ("phi<0", "phi>=0") for v in ("scipy-has-sph_harm", "scipy-lacks-sph_harm")]

    def setup(self, ctx, case):
        from pyvc.interp import MODULE_VARIANTS, LibFunc
        from pyvc.vc import LIB
        case, variant = case.split("/")
        MODULE_VARIANTS[MOD] = "try" if variant == "scipy-has-sph_harm" else "except"
        LIB.extern["scipy.special.sph_harm"] = LibFunc("scipy.special.sph_harm", _scipy_sph_harm)
        LIB.extern["scipy.special.sph_harm_y"] = LibFunc("scipy.special.sph_harm_y", _scipy_sph_harm_y)
        l = ctx.int("l")
        theta, phi = ctx.real("theta"), ctx.real("phi")
        ctx.assume(l > 10)
        ctx.assume(theta >= 0)
        ctx.assume(theta <= sv.PI)
        ctx.assume(phi > -sv.PI)
        ctx.assume(phi <= sv.PI)
        ctx.assume(phi < 0 if case == "phi<0" else phi >= 0)
        # 2 pi-periodicity of the definition in the azimuth, instantiated at the shift the code applies
        k = sv.integer("k_any")
        mm = sv.sub(k, l)
        a = Y_abstract(l, mm, theta, phi)
        b = Y_abstract(l, mm, theta, sv.add(phi, sv.mul(2, sv.PI)))
        ctx.assume(sv.and_(sv.cmp("==", a.re, b.re), sv.cmp("==", a.im, b.im)))
        return [l, theta, phi], {}, {"l": l, "theta": theta, "phi": phi, "k": k}

    def clause_names(self, case):
        return ["length=2l+1", "entry k is Y_{l,k-l}(theta, phi)"]

    def ensures(self, ctx, case, inp, out):
        from pyvc import arr as A
        res = out.value
        l = inp["l"]
        if not isinstance(res, A.Arr) or res.ndim != 1:
            yield "length=2l+1", False
            return
        yield "length=2l+1", sv.cmp("==", res.shape[0], sv.add(sv.mul(2, l), 1))
        k = inp["k"]
        v = sv.as_cx(res.get((k,)))
        w = Y_abstract(l, sv.sub(k, l), inp["theta"], inp["phi"])
        inr = sv.and_(sv.cmp(">=", k, 0), sv.cmp("<=", k, sv.mul(2, l)))
        yield "entry k is Y_{l,k-l}(theta, phi)", sv.implies(inr, sv.and_(sv.cmp("==", v.re, w.re), sv.cmp("==", v.im, w.im)))

    def replay(self, case, clause, model, seed):
        l = 11
        try:
            l = max(11, min(20, int(model.get("l", 11))))
        except (TypeError, ValueError):
            pass
        return _replay_table("SphHarm_above", l, model, seed, args_of=lambda th, ph: (l, th, ph))


# ---- dispatcher -------------------------------------------------------------------------------------


def _table_summary(l):
    def summ(interp, args, kwargs):
        from pyvc import arr as A
        theta, phi = args[0], args[1]
        tab = spec_table(l, theta, phi)
        return A.from_nested([sv.Cx(re, im) for re, im in tab], "complex")
    return summ


def _above_summary(interp, args, kwargs):
    from pyvc import arr as A
    l, theta, phi = args
    n = sv.add(sv.mul(2, l), 1)
    return A.new_arr((n,), lambda idx: Y_abstract(l, sv.sub(idx[0], l), theta, phi), "complex")


class Dispatch(Unit):
    """sph_harm_l(l, theta, phi) returns the table of the requested degree (callee contracts, not bodies)"""
    module = MOD
    qualname = "sph_harm_l"
    prop = "C08"
    summaries = dict({f"{MOD}.SphHarm{l}": _table_summary(l) for l in range(1, 11)}, **{f"{MOD}.SphHarm_above": _above_summary})

    def cases(self):
        return [f"l={l}" for l in range(1, 11)] + ["l>10"]

    def setup(self, ctx, case):
        theta, phi = ctx.real("theta"), ctx.real("phi")
        ctx.assume(theta >= 0)
        ctx.assume(theta <= sv.PI)
        ctx.assume(phi > -sv.PI)
        ctx.assume(phi <= sv.PI)
        if case == "l>10":
            l = ctx.int("l")
            ctx.assume(l > 10)
        else:
            l = int(case[2:])
        return [l, theta, phi], {}, {"l": l, "theta": theta, "phi": phi}

    def clause_names(self, case):
        return ["returns-table-of-degree-l"]

    def ensures(self, ctx, case, inp, out):
        from pyvc import arr as A
        res = out.value
        l = inp["l"]
        if not isinstance(res, A.Arr) or res.ndim != 1:
            yield "returns-table-of-degree-l", False
            return
        if case == "l>10":
            k = sv.integer("k_any")
            v = sv.as_cx(res.get((k,)))
            w = Y_abstract(l, sv.sub(k, l), inp["theta"], inp["phi"])
            inr = sv.and_(sv.cmp(">=", k, 0), sv.cmp("<=", k, sv.mul(2, l)))
            yield "returns-table-of-degree-l", sv.and_(sv.cmp("==", res.shape[0], sv.add(sv.mul(2, l), 1)),
                                                       sv.implies(inr, sv.and_(sv.cmp("==", v.re, w.re), sv.cmp("==", v.im, w.im))))
            return
        if not (sv.is_conc(res.shape[0]) and res.shape[0] == 2 * l + 1):
            yield "returns-table-of-degree-l", False
            return
        conds = []
        for m in range(-l, l + 1):
            re, im = Y_spec(l, m, inp["theta"], inp["phi"])
            v = sv.as_cx(res.get((m + l,)))
            conds.append(sv.and_(sv.cmp("==", v.re, re), sv.cmp("==", v.im, im)))
        yield "returns-table-of-degree-l", sv.and_(*conds)

    def replay(self, case, clause, model, seed):
        if case == "l>10":
            l = 12
        else:
            l = int(case[2:])
        return _replay_table("sph_harm_l", l, model, seed, args_of=lambda th, ph: (l, th, ph))


UNITS = [Table(l) for l in range(1, 11)] + [Above(), Dispatch()]


def extra_checks(tier, seed, repo):
    from pyvc.probe import import_probe
    return {"obligations": import_probe([MOD], repo)}


def replay_extra(rec):
    from pyvc.probe import replay_import
    return replay_import(rec)


MANIFEST = {
    "text": 'For l = 1..10 and every m the value returned at index m+l by the real SphHarm{l} (AST re-read every run) equals the Condon-Shortley Y_lm generated from the Legendre recurrence in exact rationals, identically in theta and phi (SMT unsat per entry); order m=-l..l, conjugation symmetry on the returned values, the addition theorem as a lemma on the spec; SphHarm_above for symbolic l > 10 against the assumed scipy contract (both arms of the optional import); the dispatcher returns the table of the requested degree for l = 1..10 and l > 10 (callee contracts).',
    "note": "floats as reals (A1); cos/sin/sqrt uninterpreted with the axioms of pyvc/axioms.py, sin(theta) >= 0 on [0, pi], parity of cos/sin, sqrt(q t) = sqrt(q) sqrt(t); scipy's sph_harm / sph_harm_y assumed to return Y_n^m (2 pi-periodic in azimuth); module import checked by a CPython probe",
}
