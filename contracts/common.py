"""Shared builders for contracts: symbolic trajectories (Snapshots objects), callee contracts used by many properties."""
import z3

from pyvc import arr as A
from pyvc import sv
from pyvc.state import Content, cur

RU = "PyMatterSim.reader.reader_utils"


class Traj:
    """a symbolic trajectory: T frames (symbolic or concrete), N particles (symbolic), d in {2,3}.
    POS(s,i,c) real, TYPE(s,i) int, HM(s,a,b) real cell matrix, BL(s,c) box length, BB(s,c,e) bounds, TS(s) timestep."""

    def __init__(self, ctx, d, T=None, N=None, tag="", same_types=False, same_cell=False, pos_map=None, type_map=None, cell_map=None):
        """pos_map(traj, s, i, c, base) / type_map(traj, s, i, base) / cell_map(traj, s, a, b, base): transformed views of the same
        underlying trajectory (used by the symmetry clauses of C07: the transformed input is a function of the original one)"""
        self.ctx, self.d, self.tag = ctx, d, tag
        self.pos_map, self.type_map, self.cell_map = pos_map, type_map, cell_map
        self.T = ctx.int("T" + tag) if T is None else T
        self.N = ctx.int("N" + tag) if N is None else N
        I, R = z3.IntSort(), z3.RealSort()
        self.POS = z3.Function("POS" + tag, I, I, I, R)
        self.TYPE = z3.Function("TYPE" + tag, I, I, I)
        self.HM = z3.Function("HM" + tag, I, I, I, R)
        self.BL = z3.Function("BL" + tag, I, I, R)
        self.BB = z3.Function("BB" + tag, I, I, I, R)
        self.TS = z3.Function("TS" + tag, I, I)
        self.same_types, self.same_cell = same_types, same_cell
        if not sv.is_conc(self.T):
            ctx.assume(self.T >= 1)
        if not sv.is_conc(self.N):
            ctx.assume(self.N >= 1)

    def _s(self, s, shared):
        return 0 if shared else s

    def pos(self, s, i, c):
        base = sv.SV(self.POS(sv.znum(s), sv.znum(i), sv.znum(c)))
        return self.pos_map(self, s, i, c, base) if self.pos_map else base

    def typ(self, s, i):
        base = sv.SV(self.TYPE(sv.znum(self._s(s, self.same_types)), sv.znum(i)))
        return self.type_map(self, s, i, base) if self.type_map else base

    def hm(self, s, a, b):
        base = sv.SV(self.HM(sv.znum(self._s(s, self.same_cell)), sv.znum(a), sv.znum(b)))
        return self.cell_map(self, s, a, b, base) if self.cell_map else base

    def view(self, pos_map=None, type_map=None, cell_map=None):
        """the same trajectory seen through a transformation (shares T, N and the underlying functions)"""
        import copy
        t = copy.copy(self)
        t.pos_map, t.type_map, t.cell_map = pos_map, type_map, cell_map
        return t

    def bl(self, s, c):
        return sv.SV(self.BL(sv.znum(self._s(s, self.same_cell)), sv.znum(c)))

    def Hm(self, s):
        return [[self.hm(s, a, b) for b in range(self.d)] for a in range(self.d)]

    def snapshot(self, s):
        """SingleSnapshot object of frame s (s may be symbolic); arrays are fresh cells reading the trajectory functions"""
        ctx, d, N = self.ctx, self.d, self.N
        st = cur()
        pos = A.new_arr((N, d), lambda idx: self.pos(s, idx[0], idx[1]), "float", input="positions")
        typ = A.new_arr((N,), lambda idx: self.typ(s, idx[0]), "int", input="particle_type")
        hm = A.new_arr((d, d), lambda idx: self.hm(s, idx[0], idx[1]), "float", input="hmatrix")
        bl = A.new_arr((d,), lambda idx: self.bl(s, idx[0]), "float", input="boxlength")
        bb = A.new_arr((d, 2), lambda idx: sv.SV(self.BB(sv.znum(self._s(s, self.same_cell)), sv.znum(idx[0]), sv.znum(idx[1]))), "float", input="boxbounds")
        for a, nm in ((pos, "positions"), (typ, "particle_type"), (hm, "hmatrix"), (bl, "boxlength"), (bb, "boxbounds")):
            st.origin[a.sid] = f"snapshot.{nm}"
        from pyvc.interp import load_module, new_obj
        cls = load_module(RU).get_class("SingleSnapshot")
        return new_obj(cls, dict(timestep=sv.SV(self.TS(sv.znum(s))), nparticle=N, particle_type=typ, positions=pos,
                                                  boxlength=bl, boxbounds=bb, realbounds=bb, hmatrix=hm), frozen=True)

    def snapshots(self):
        from pyvc.interp import Ref
        ctx = self.ctx
        T = self.T
        if sv.is_conc(T):
            lst = ctx.pylist([self.snapshot(s) for s in range(int(T))])
        else:
            lst = Ref(cur().alloc(Content("list", A.SeqVal(T, lambda s: self.snapshot(s)))), "list")
        return ctx.obj(RU, "Snapshots", dict(nsnapshots=T, snapshots=lst))


# ---- callee contract of remove_pbc (proved by contracts/C02.py) ---------------------------------------


def remove_pbc_summary(interp, args, kwargs):
    """requires: hmatrix (d,d) invertible, ppp of shape (d,) with entries in {0,1}, RIJ of shape (n,d);
    ensures: row j of the result = sum_k (m_k - rint(m_k) ppp_k) H[k,:],  m = RIJ[j] . H^-1   (C02 clauses a,b)"""
    from contracts.C02 import _inv_spec, pbc_spec_row
    from pyvc.lib import _arr
    RIJ = _arr(args[0], interp)
    H = _arr(args[1], interp)
    ppp = _arr(args[2] if len(args) > 2 else kwargs.get("ppp"), interp)
    d = A.conc_dim(H.shape[0], "cell dimension")
    if RIJ.ndim != 2:
        raise sv.EngineError("remove_pbc summary: RIJ must be (n,d) here")
    A.require_dim_eq(RIJ.shape[1], d, "call:remove_pbc:pre:shape")
    A.require_dim_eq(ppp.shape[0], d, "call:remove_pbc:pre:ppp-shape")
    Hm = [[H.get((a, b)) for b in range(d)] for a in range(d)]
    det, G = _inv_spec(Hm, d)
    cur().require(sv.cmp("!=", det, 0), "call:remove_pbc:pre:det!=0")
    p = [ppp.get((k,)) for k in range(d)]
    for k in range(d):
        cur().require(sv.or_(sv.cmp("==", p[k], 0), sv.cmp("==", p[k], 1)), "call:remove_pbc:pre:ppp-in-{0,1}")
    r = RIJ.reader()

    def fn(idx):
        row = [r((idx[0], c)) for c in range(d)]
        out = pbc_spec_row(row, Hm, G, p, d)
        return A._pick(out, idx[1])
    return A.new_arr((RIJ.shape[0], d), A._memo(fn), "float")


PBC = {"PyMatterSim.utils.pbc.remove_pbc": remove_pbc_summary}


def min_image(traj, s, i, j, p):
    """spec: minimum-image vector D_s(i,j) = remove_pbc(r_j - r_i) as a list of d terms (C02 contract)"""
    from contracts.C02 import _inv_spec, pbc_spec_row
    d = traj.d
    Hm = traj.Hm(s)
    det, G = _inv_spec(Hm, d)
    row = [sv.sub(traj.pos(s, j, c), traj.pos(s, i, c)) for c in range(d)]
    return pbc_spec_row(row, Hm, G, p, d)


# ---- opaque variant of the remove_pbc callee contract ---------------------------------------------------
# For clauses that only need that the minimum image is a FUNCTION of (row, cell, mask) and that the zero row maps to the
# zero row (lemma `remove_pbc(0)=0`, proved with C02's contract in contracts/C05.py), the result is left uninterpreted:
# MINIMG<d>_<c>(r_0..r_{d-1}, H_00..H_{d-1,d-1}, p_0..p_{d-1}).  This keeps the cell inverse out of the queries.


def _minimg_fn(d, c):
    R, I = z3.RealSort(), z3.IntSort()
    return z3.Function(f"MINIMG{d}_{c}", *([R] * d), *([R] * (d * d)), *([I] * d), R)


def minimg_row(row, Hm, p, d):
    args = [sv.zr(x) for x in row] + [sv.zr(Hm[a][b]) for a in range(d) for b in range(d)] + [sv.znum(x) for x in p]
    return [sv.SV(_minimg_fn(d, c)(*args)) for c in range(d)]


def register_minimg_facts(ctx, d):
    for c in range(d):
        f = _minimg_fn(d, c)
        ctx.array_fact(f.name(), lambda *a, f=f: z3.Implies(z3.And(*[a[k] == 0 for k in range(d)]), f(*a) == 0))


def remove_pbc_summary_opaque(interp, args, kwargs):
    from contracts.C02 import _inv_spec
    from pyvc.lib import _arr
    RIJ = _arr(args[0], interp)
    H = _arr(args[1], interp)
    ppp = _arr(args[2] if len(args) > 2 else kwargs.get("ppp"), interp)
    d = A.conc_dim(H.shape[0], "cell dimension")
    if RIJ.ndim != 2:
        raise sv.EngineError("remove_pbc summary: RIJ must be (n,d) here")
    A.require_dim_eq(RIJ.shape[1], d, "call:remove_pbc:pre:shape")
    A.require_dim_eq(ppp.shape[0], d, "call:remove_pbc:pre:ppp-shape")
    Hm = [[H.get((a, b)) for b in range(d)] for a in range(d)]
    det, G = _inv_spec(Hm, d)
    cur().require(sv.cmp("!=", det, 0), "call:remove_pbc:pre:det!=0")
    p = [ppp.get((k,)) for k in range(d)]
    for k in range(d):
        cur().require(sv.or_(sv.cmp("==", p[k], 0), sv.cmp("==", p[k], 1)), "call:remove_pbc:pre:ppp-in-{0,1}")
    r = RIJ.reader()

    def fn(idx):
        row = [r((idx[0], c)) for c in range(d)]
        return A._pick(minimg_row(row, Hm, p, d), idx[1])
    return A.new_arr((RIJ.shape[0], d), A._memo(fn), "float")


PBC_OPAQUE = {"PyMatterSim.utils.pbc.remove_pbc": remove_pbc_summary_opaque}


def min_image_opaque(traj, s, i, j, p):
    d = traj.d
    row = [sv.sub(traj.pos(s, j, c), traj.pos(s, i, c)) for c in range(d)]
    return minimg_row(row, traj.Hm(s), p, d)


def callee_units(deps, own):
    """units of the functions whose contracts (proved under another property) this property's units use at call sites: they are
    re-verified with this check, so that a change inside such a callee fails an obligation here too.
    deps: [(contract module, set of qualnames or None)]"""
    import importlib
    seen = {(u.module, u.qualname, u.name) for u in own}
    out = []
    for modname, quals in deps:
        m = importlib.import_module("contracts." + modname)
        for u in m.UNITS:
            if getattr(u, "prop", modname) != modname or (quals is not None and u.qualname not in quals):
                continue
            k = (u.module, u.qualname, u.name)
            if k not in seen:
                seen.add(k)
                out.append(u)
    return out
