"""C12 — pair-potential derivatives are the derivatives of the documented potentials.

Functions under contract: PairInteractions.lennard_jones / inverse_power_law / harmonic_hertz / caller.
Spec: the documented s(r) (docs/hessian.md, repeated in the property statement) as a term of
pyvc.diff; s' and s'' are obtained by the differentiation rules of pyvc.diff (trusted), *not* copied
from the code or the documentation's derivative formulas.
"""
from pyvc import sv
from pyvc.diff import D, Var, ev
from pyvc.vc import Unit

MOD = "PyMatterSim.static.hessians"

r, eps, sig, n_, A_, alpha = Var("r"), Var("epsilon"), Var("sigma"), Var("n"), Var("A"), Var("alpha")

POTENTIALS = {
    "lennard_jones": 4 * eps * ((sig / r) ** 12 - (sig / r) ** 6),
    "inverse_power_law": A_ * eps * (sig / r) ** n_,
    "harmonic_hertz": eps / alpha * (1 - r / sig) ** alpha,
}


def spec_triple(model, env, shift, M=sv):
    """(s'(r), s'(r_c) if shift else 0, s''(r)) from the documented potential"""
    s = POTENTIALS[model]
    d1 = D(s, "r")
    d2 = D(d1, "r")
    s1 = ev(d1, env, M)
    s2 = ev(d2, env, M)
    env_c = dict(env)
    env_c["r"] = env["r_c"]
    s1rc = M.ite(shift, lambda: ev(d1, env_c, M), 0)
    return s1, s1rc, s2


def _self(ctx, shift):
    return ctx.obj(MOD, "PairInteractions",
                   dict(r=ctx.real("r"), epsilon=ctx.real("epsilon"), sigma=ctx.real("sigma"), r_c=ctx.real("r_c"),
                        shift=shift))


def _env(o, **extra):
    c = o.content
    e = dict(r=c["r"], epsilon=c["epsilon"], sigma=c["sigma"], r_c=c["r_c"])
    e.update(extra)
    return e


ATTRS = ("r", "epsilon", "sigma", "r_c", "shift")
FRAME = "frame:the-object's-parameters(r,epsilon,sigma,r_c,shift)-are-not-modified"


def _frame_goal(inp):
    """the PairInteractions object after the call holds the parameters it held before (a later request on the same object must be
    answered with the shift setting and the parameters the caller constructed it with)"""
    before, after = inp["attrs0"], inp["o"].content
    if set(after) != set(before):
        return False
    goals = []
    for k in ATTRS:
        a, b = before[k], after[k]
        if isinstance(a, bool) or isinstance(b, bool):
            goals.append(a is b)
        else:
            goals.append(sv.cmp("==", a, b))
    return sv.and_(*goals)


class _Model(Unit):
    module = MOD
    prop = "C12"
    model = None

    def cases(self):
        return ["shift", "noshift"]

    def extra(self, ctx):
        return {}

    def requires(self, ctx, env):
        ctx.assume(env["r"] > 0)
        ctx.assume(env["sigma"] > 0)
        ctx.assume(env["r_c"] > 0)

    def setup(self, ctx, case):
        o = _self(ctx, case == "shift")
        ex = self.extra(ctx)
        env = _env(o, **ex)
        self.requires(ctx, env)
        return [o], {k: v for k, v in ex.items()}, {"env": env, "shift": case == "shift", "o": o, "attrs0": dict(o.content)}

    def clause_names(self, case):
        return ["s1=ds/dr", "s1rc=ds/dr(rc)|0", "s2=d2s/dr2", "result-shape", FRAME]

    def replay(self, case, clause, model, seed):
        return _replay_model(self.model, case == "shift", model, seed, hertz=self.model == "harmonic_hertz", clause=clause)

    def ensures(self, ctx, case, inp, out):
        res = ctx.interp.iter_concrete(out.value)
        yield "result-shape", len(res) == 3
        s1, s1rc, s2 = spec_triple(self.model, inp["env"], inp["shift"])
        yield "s1=ds/dr", sv.cmp("==", res[0], s1)
        yield "s1rc=ds/dr(rc)|0", sv.cmp("==", res[1], s1rc)
        yield "s2=d2s/dr2", sv.cmp("==", res[2], s2)
        yield FRAME, _frame_goal(inp)


def _frac(x, default):
    if x is None:
        return default
    if isinstance(x, (int, float)):
        return float(x)
    if isinstance(x, str) and "/" in x:
        a, b = x.split("/")
        return float(int(a)) / float(int(b))
    try:
        return float(x)
    except (TypeError, ValueError):
        return default


def _replay_model(unit_model, case_shift, model, seed, hertz=False, clause="", int_alpha=None):
    """concrete replay against the real PairInteractions (runs under /venv/bin/python)"""
    import importlib
    import random
    from pyvc import conc
    H = importlib.import_module(MOD)
    rng = random.Random(seed)
    tried = []

    def one(vals):
        obj = H.PairInteractions(vals["r"], vals["epsilon"], vals["sigma"], vals["r_c"], case_shift)
        before = dict(vars(obj))
        if unit_model == "lennard_jones":
            got = obj.lennard_jones()
        elif unit_model == "inverse_power_law":
            got = obj.inverse_power_law(n=vals["n"], A=vals["A"])
        else:
            got = obj.harmonic_hertz(alpha=vals["alpha"])
        want = spec_triple(unit_model, vals, case_shift, M=conc)
        bad = [i for i in range(3) if not conc.close(float(got[i]), float(want[i]), rel=1e-7, abs_=1e-9)]
        if dict(vars(obj)) != before:
            bad.append("object attributes modified: " + str({k: (before.get(k), v) for k, v in vars(obj).items() if before.get(k) != v}))
        return bad, [float(x) for x in got], [float(x) for x in want]

    def sample(first):
        v = {}
        for k, d in (("r", 1.3), ("epsilon", 1.0), ("sigma", 1.0), ("r_c", 2.5), ("n", 12.0), ("A", 1.0), ("alpha", 2.5)):
            v[k] = _frac(model.get(k), None) if first else None
            if v[k] is None:
                v[k] = d if first else rng.uniform(0.3, 3.0)
        if hertz and int_alpha is not None:      # integer exponent: any distance, on both sides of contact
            v["r_c"] = v["sigma"]
            v["alpha"] = float(int_alpha)
            if not first:
                v["r"] = v["sigma"] * rng.uniform(0.1, 2.5)
        elif hertz:
            v["r_c"] = v["sigma"]
            if not (0 < v["r"] < v["sigma"]):
                v["r"] = v["sigma"] * rng.uniform(0.1, 0.95)
            if v["alpha"] <= 1:
                v["alpha"] = 1 + abs(v["alpha"]) + 0.5
        return v
    for k in range(200):
        vals = sample(k == 0)
        try:
            bad, got, want = one(vals)
        except Exception as e:  # the real code raises on an input satisfying the precondition
            return {"ran": True, "failed": True, "inputs": vals, "detail": f"raises {type(e).__name__}: {e}", "searched": k + 1}
        if bad:
            return {"ran": True, "failed": True, "inputs": vals, "got": got, "expected": want,
                    "components_wrong": bad, "from_model": k == 0, "searched": k + 1}
    return {"ran": True, "failed": False, "searched": 200, "detail": "real code agrees with the spec on the model and 199 seeded inputs"}


class LJ(_Model):
    qualname = "PairInteractions.lennard_jones"
    model = "lennard_jones"


class IPL(_Model):
    qualname = "PairInteractions.inverse_power_law"
    model = "inverse_power_law"

    def extra(self, ctx):
        return dict(n=ctx.real("n"), A=ctx.real("A"))


class Hertz(_Model):
    """documented convention: the Hertz/harmonic potential is cut at r_c = sigma (where s'(r_c) = 0 for alpha > 1);
    stated as the model's precondition, see DESIGN C12"""
    qualname = "PairInteractions.harmonic_hertz"
    model = "harmonic_hertz"

    # the documented s(r) = eps/alpha (1 - r/sigma)^alpha is a real number for every distance when alpha is an integer (harmonic
    # alpha = 2, ...) and for r < sigma when alpha is any real > 1 (Hertz 5/2): symbolic alpha with r < sigma, and concrete integer
    # exponents with NO restriction on r (pairs beyond contact, r_cut > sigma)
    INT_ALPHAS = (2, 3, 4)

    def cases(self):
        return ["shift", "noshift"] + [f"{sh}/alpha={a}/any-distance" for sh in ("shift", "noshift") for a in self.INT_ALPHAS]

    def _alpha(self, case):
        parts = case.split("/")
        return int(parts[1].split("=")[1]) if len(parts) > 1 else None

    def extra(self, ctx):
        return dict(alpha=ctx.real("alpha"))

    def setup(self, ctx, case):
        sh = case.split("/")[0] == "shift"
        a = self._alpha(case)
        o = _self(ctx, sh)
        ex = dict(alpha=ctx.real("alpha") if a is None else a)
        env = _env(o, **ex)
        ctx.assume(env["r"] > 0)
        ctx.assume(env["sigma"] > 0)
        ctx.assume(sv.cmp("==", env["r_c"], env["sigma"]))
        if a is None:
            ctx.assume(env["r"] < env["sigma"])
            ctx.assume(env["alpha"] > 1)
        return [o], dict(ex), {"env": env, "shift": sh, "o": o, "attrs0": dict(o.content)}

    def replay(self, case, clause, model, seed):
        return _replay_model(self.model, case.split("/")[0] == "shift", model, seed, hertz=True, clause=clause, int_alpha=self._alpha(case))


class Caller(Unit):
    """the selector returns the triple of the requested model with n, A, alpha passed through
    (callee contracts of the three models are used, not their bodies)"""
    module = MOD
    qualname = "PairInteractions.caller"
    prop = "C12"

    def cases(self):
        return [f"{m}/{s}" for m in POTENTIALS for s in ("shift", "noshift")]

    def setup(self, ctx, case):
        model, sh = case.split("/")
        o = _self(ctx, sh == "shift")
        params = ctx.obj(MOD, "InteractionParams", dict(
            model_name=ctx.enum(MOD, "ModelName", model), ipl_n=ctx.real("n"), ipl_A=ctx.real("A"),
            harmonic_hertz_alpha=ctx.real("alpha")))
        env = _env(o, n=ctx.real("n"), A=ctx.real("A"), alpha=ctx.real("alpha"))
        ctx.assume(env["r"] > 0)
        ctx.assume(env["sigma"] > 0)
        ctx.assume(env["r_c"] > 0)
        if model == "harmonic_hertz":
            ctx.assume(env["r"] < env["sigma"])
            ctx.assume(sv.cmp("==", env["r_c"], env["sigma"]))
            ctx.assume(env["alpha"] > 1)
        return [o, params], {}, {"env": env, "shift": sh == "shift", "model": model, "o": o, "attrs0": dict(o.content)}

    def clause_names(self, case):
        return ["triple-of-requested-model", FRAME]

    def replay(self, case, clause, model, seed):
        import importlib
        import random
        from pyvc import conc
        H = importlib.import_module(MOD)
        mname, sh = case.split("/")
        rng = random.Random(seed)
        for k in range(100):
            v = {kk: (_frac(model.get(kk), None) if k == 0 else None) for kk in ("r", "epsilon", "sigma", "r_c", "n", "A", "alpha")}
            for kk in v:
                if v[kk] is None:
                    v[kk] = rng.uniform(0.3, 3.0)
            if k % 7 == 3:
                v["A"] = 0.0          # edge case: a vanishing prefactor must be passed through, not replaced by a default
            if mname == "harmonic_hertz":
                v["r_c"] = v["sigma"]
                v["r"] = v["sigma"] * rng.uniform(0.1, 0.95)
                v["alpha"] = 1.5 + abs(v["alpha"])
            obj = H.PairInteractions(v["r"], v["epsilon"], v["sigma"], v["r_c"], sh == "shift")
            params = H.InteractionParams(model_name=getattr(H.ModelName, mname), ipl_n=v["n"], ipl_A=v["A"], harmonic_hertz_alpha=v["alpha"])
            try:
                got = obj.caller(params)
            except Exception as e:
                return {"ran": True, "failed": True, "inputs": v, "detail": f"raises {type(e).__name__}: {e}"}
            want = spec_triple(mname, v, sh == "shift", M=conc)
            if got is None or len(got) != 3 or any(not conc.close(float(a), float(b), rel=1e-7, abs_=1e-9) for a, b in zip(got, want)):
                return {"ran": True, "failed": True, "inputs": v, "got": [float(x) for x in got] if got is not None else None,
                        "expected": [float(x) for x in want], "searched": k + 1}
            # the selector is a query: a later request for ANOTHER model on the same object is answered from the same parameters
            for other in POTENTIALS:
                if other == mname or (other == "harmonic_hertz" and not (v["r"] < v["sigma"])):
                    continue
                p2 = H.InteractionParams(model_name=getattr(H.ModelName, other), ipl_n=v["n"], ipl_A=v["A"], harmonic_hertz_alpha=v["alpha"])
                v2 = dict(v)
                got2 = obj.caller(p2)
                want2 = spec_triple(other, v2, sh == "shift", M=conc)
                if other != "harmonic_hertz" and any(not conc.close(float(a), float(b), rel=1e-7, abs_=1e-9) for a, b in zip(got2, want2)):
                    return {"ran": True, "failed": True, "inputs": v, "sequence": [mname, other], "got": [float(x) for x in got2],
                            "expected": [float(x) for x in want2], "searched": k + 1,
                            "detail": f"after caller({mname}) the same object answers caller({other}) with {[float(x) for x in got2]}, the documented triple is {[float(x) for x in want2]}"}
        return {"ran": True, "failed": False, "searched": 100}

    def ensures(self, ctx, case, inp, out):
        res = ctx.interp.iter_concrete(out.value)
        s1, s1rc, s2 = spec_triple(inp["model"], inp["env"], inp["shift"])
        yield "triple-of-requested-model", sv.and_(len(res) == 3, sv.cmp("==", res[0], s1), sv.cmp("==", res[1], s1rc),
                                                   sv.cmp("==", res[2], s2))
        yield FRAME, _frame_goal(inp)


def _model_summary(model, argnames):
    """callee contract of a model method: returns the spec triple (its own unit proves the body against it)"""
    def summ(interp, args, kwargs):
        from pyvc.interp import new_list
        o = args[0]
        c = o.content
        env = dict(r=c["r"], epsilon=c["epsilon"], sigma=c["sigma"], r_c=c["r_c"])
        rest = list(args[1:])
        for nme in argnames:
            if nme in kwargs:
                env[nme] = kwargs[nme]
            elif rest:
                env[nme] = rest.pop(0)
            elif nme == "A":
                env[nme] = sv.to_frac(1.0)
            else:
                from pyvc.interp import PyRaise
                raise PyRaise("TypeError", f"missing argument {nme}")
        extra = set(kwargs) - set(argnames)
        if extra:
            from pyvc.interp import PyRaise
            raise PyRaise("TypeError", f"unexpected keyword {sorted(extra)[0]}")
        s1, s1rc, s2 = spec_triple(model, env, c["shift"])
        return new_list([s1, s1rc, s2])
    return summ


MODEL_SUMMARIES = {
    f"{MOD}.PairInteractions.lennard_jones": _model_summary("lennard_jones", []),
    f"{MOD}.PairInteractions.inverse_power_law": _model_summary("inverse_power_law", ["n", "A"]),
    f"{MOD}.PairInteractions.harmonic_hertz": _model_summary("harmonic_hertz", ["alpha"]),
}
Caller.summaries = MODEL_SUMMARIES

UNITS = [LJ(), IPL(), Hertz(), Caller()]


MANIFEST = {
    "text": 'For all real r, epsilon, sigma, r_c > 0, exponents n, alpha and prefactor A, both shift settings: the triple returned by each of the three model methods (real AST, re-read every run) equals (ds/dr, ds/dr(r_c)|0, d2s/dr2) of the documented potential, the derivatives being produced by symbolic differentiation of the documented s(r); the selector returns the triple of the requested model (callee contracts, not bodies); frame: every method and the selector leave the object\'s parameters (r, epsilon, sigma, r_c, shift) unmodified, so a sequence of requests on one object is answered from the parameters it was constructed with. Harmonic/Hertz: symbolic real alpha > 1 for r < sigma, and the integer exponents 2, 3, 4 at ANY distance (pairs beyond contact). Every obligation is an SMT unsat result.',
    "note": 'floats as reals (A1); symbolic exponents via uninterpreted POW with shift axioms; differentiation rules of pyvc/diff.py trusted; Hertz: documented convention r_c = sigma; for a non-integer exponent the documented power is a real number only for r < sigma (precondition of the symbolic-alpha cases, alpha > 1); integer exponents are enumerated (2, 3, 4), not symbolic',
}
