"""C16 — coarse graining: neighbour mean, Gaussian grid projection, window average.

Functions under contract (real ASTs, re-read every run):
  PyMatterSim.utils.coarse_graining.time_average / spatial_average / gaussian_blurring
  PyMatterSim.utils.funcs.grid_gaussian

The postconditions are the sentences of the property statement / docs/utils.md VII, not the code's formulas:
  time_average      w = floor(period / interval), interval = (timestep_1 - timestep_0) dt;
                    out[n, i] = (1/w) sum_{t<w} A[n+t, i];  reported index = central frame of {n, .., n+w-1}
  spatial_average   out[n, i, ..] = (A[n, i, ..] + sum_{t<c(n,i)} A[n, nb(n,i,t), ..]) / (1 + c(n,i)),
                    (c, nb) = the n-th record of the neighbour file (frame by frame)
  gaussian_blurring grid index: (i, j[, k]) -> flat index is row-major with x slowest, inside [0, prod n), injective;
                    stored point = (X_i, Y_j[, Z_k]), X = equally spaced points spanning the box bounds;
                    value[n, p, ..] = sum_q [ |D| < cut ] exp(-|D|^2 / (2 sigma^2)) / sqrt(2 pi sigma^2) A[n, q, ..],
                    D = minimum image of grid_p - r_q (C02 contract)
"""
import z3

from pyvc import arr as A
from pyvc import sv
from pyvc.sigma import Sum
from pyvc.state import Content, cur
from pyvc.vc import Unit

MOD = "PyMatterSim.utils.coarse_graining"
RU = "PyMatterSim.reader.reader_utils"

NOT_DECIDED = [
    "int(period / interval) when the floating-point quotient of an exact multiple lands just below the integer (A1: floats are reals; in the reals int() of a positive quotient is its floor, which is what is proved)",
    "gaussian_blurring values exactly at |D| == gaussian_cut and at half-cell ties of the minimum image: decided in the reals (strict <), replayed in floats only on an exactly representable tie",
    "spatial_average / gaussian_blurring on integer-typed property arrays (in-place true division into an int array): outside the documented float inputs",
    "content of the neighbour file itself (which particles are neighbours): C05; here the file is an arbitrary well-formed neighbour-list file",
]
TRUSTED = [
    "callee contract of read_neighbors on neighbour-LIST files (contracts/C16.py read_neighbors_contract, to be proved against the real body by C05): returns (nparticle, 1+maxc) int rows [min(cn,Nmax), id-1, .., 0 padding], advances the handle by exactly one record; requires nparticle = particles per record and a record left in the file",
    "well-formed neighbour file (precondition, instantiated per read): listed counts >= 0, listed ids are particle ids 1..nparticle of the same trajectory, the file has at least as many records as the property has frames",
    "callee contract of remove_pbc = contracts/C02.pbc_spec_row (proved by C02 against the real body): requires det H != 0 (assumed for every frame) and a 0/1 mask",
    "assumed library contracts (pyvc/libext/C16.py, pyvc/lib.py): open() returns a handle at record 0; np.linspace(a,b,n)[i] = a + i (b-a)/(n-1) for n >= 2; np.linalg.norm(axis=1) = sqrt of the row sum of squares; boolean-mask selection keeps the selected rows in order, so products of two selections by the SAME mask pair up row by row and their sum is the masked sum; np.prod, np.zeros, np.copy (fresh copy), np.save (file-write event), enumerate, round (half to even), int (truncation)",
    "loop rule extensions of pyvc/loops.py (closed forms checked by the same init/step obligations): file read positions, conditional accumulation, scatter update with the old content of the written slot, zero-trip merging; the scatter-store nest rule records the store as a probe and takes a WRITTEN ghost inverse of the store index from the contract (row-major decoding, from the statement): that the slot with index p is written by iteration decode(p) and by no other iteration are obligations generated from the real store condition; given them the post-content stored-value(decode(p)) is the scatter-store rule (a slot written by exactly one iteration, with a value independent of the array and of loop-carried state, holds that value) — the rule itself is trusted like the other loop summaries",
    "spec of the central frame for even windows: either of the two middle frames is accepted (|2m - (2n+w-1)| <= 1); for odd windows the unique middle frame n+(w-1)/2",
]

# ------------------------------------------------------------------------------------------------
# symbolic trajectories


def _snapshots(ctx, T, N, d=None, watch=None):
    """Snapshots(nsnapshots=T, snapshots=[SingleSnapshot...]) with a symbolic number T of frames: frame f has
    timestep TS(f), nparticle N, positions POS(f,.,.), boxbounds BB(f,.,.), hmatrix HM(f,.,.) (uninterpreted)"""
    I = z3.IntSort()
    TS = z3.Function("TS", I, I)
    POS = z3.Function("POS", I, I, I, z3.RealSort())
    BB = z3.Function("BB", I, I, I, z3.RealSort())
    HM = z3.Function("HM", I, I, I, z3.RealSort())
    from pyvc.interp import Ref, load_module, new_obj
    cls = load_module(RU).get_class("SingleSnapshot")

    def frame(f):
        fz = sv.znum(f)
        attrs = {"timestep": sv.SV(TS(fz)), "nparticle": N}
        if d is not None:
            def mk(F, shape, what):
                a = A.new_arr(shape, lambda idx, F=F: sv.SV(F(fz, sv.znum(idx[0]), sv.znum(idx[1]))), "float")
                cur().origin[a.sid] = f"argument snapshots.snapshots[.].{what}"
                if watch is not None:
                    watch.append(a.sid)
                return a
            attrs["positions"] = mk(POS, (N, d), "positions")
            attrs["boxbounds"] = mk(BB, (d, 2), "boxbounds")
            attrs["hmatrix"] = mk(HM, (d, d), "hmatrix")
            # every frame's cell is non-singular (precondition of the minimum-image contract C02), instantiated per frame
            Hm = [[sv.SV(HM(fz, z3.IntVal(a), z3.IntVal(b))) for b in range(d)] for a in range(d)]
            _file_fact(sv.cmp("!=", A.det_small(Hm, d), 0))
        return new_obj(cls, attrs, frozen=True)
    if sv.is_conc(T):
        from pyvc.interp import new_list
        lst = new_list([frame(f) for f in range(int(T))])
    else:
        lst = Ref(cur().alloc(Content("list", A.SeqVal(T, frame))), "list")
    snaps = ctx.obj(RU, "Snapshots", {"nsnapshots": T, "snapshots": lst})
    return snaps, dict(TS=TS, POS=POS, BB=BB, HM=HM)


def _inr(*pairs):
    return sv.and_(*[sv.and_(sv.cmp(">=", x, 0), sv.cmp("<", x, n)) for x, n in pairs])


def _resolve_ite(v, assumptions):
    """v = If(c, a, b) with c decided by the assumptions -> the live branch (sound rewriting under these assumptions)"""
    v = sv.norm(v)
    for _ in range(8):
        if not isinstance(v, sv.SV) or not (z3.is_app(v.t) and v.t.decl().kind() == z3.Z3_OP_ITE):
            return v
        c, a, b = v.t.children()
        s = z3.Solver()
        s.set("timeout", 2000)
        for f in assumptions:
            s.add(f)
        s.push()
        s.add(z3.Not(c))
        r = s.check()
        s.pop()
        if r == z3.unsat:
            v = sv.wrap(a)
            continue
        s.add(c)
        if s.check() == z3.unsat:
            v = sv.wrap(b)
            continue
        return v
    return v


def _stores(out, sids):
    return [e for e in out.state.events if e[0] == "store" and e[1] in sids]


# ------------------------------------------------------------------------------------------------
# time_average


class TimeAverage(Unit):
    module = MOD
    qualname = "time_average"
    prop = "C16"
    timeout = 20

    def cases(self):
        return ["float", "complex"]

    def setup(self, ctx, case):
        T, N = ctx.int("T"), ctx.int("N")
        ctx.assume(T >= 2)
        ctx.assume(N >= 1)
        snaps, F = _snapshots(ctx, T, N)
        Aarr = ctx.array("A", (T, N), case, origin="argument input_property")
        period, dt = ctx.real("period"), ctx.real("dt")
        ts0, ts1 = sv.SV(F["TS"](z3.IntVal(0))), sv.SV(F["TS"](z3.IntVal(1)))
        ctx.assume(dt > 0)
        ctx.assume(sv.cmp(">", ts1, ts0))
        interval = sv.mul(sv.sub(ts1, ts0), dt)       # the frame interval in time units (statement: "period/interval")
        q = sv.div(period, interval)
        w = sv.floor(q)                               # spec: floor(period/interval)
        ctx.assume(sv.cmp(">=", w, 1))                # a window holds at least one frame
        ctx.assume(sv.cmp("<=", w, T))                # and fits into the trajectory
        inp = dict(T=T, N=N, A=Aarr, w=w, q=q, watch=[Aarr.sid])
        return [snaps, Aarr], {"time_period": period, "dt": dt}, inp

    def clause_names(self, case):
        return ["shape:T-w-windows", "window-mean", "middle-index:central-frame-of-window", "frame:input-not-written"]

    def ensures(self, ctx, case, inp, out):
        T, N, Aarr, w = inp["T"], inp["N"], inp["A"], inp["w"]
        res = out.value
        ok = isinstance(res, tuple) and len(res) == 2 and isinstance(res[0], A.Arr) and isinstance(res[1], A.Arr) \
            and res[0].ndim == 2 and res[1].ndim == 1
        if not ok:
            yield "shape:T-w-windows", False
            return
        R, M = res
        yield "shape:T-w-windows", sv.and_(sv.cmp("==", R.shape[0], sv.sub(T, w)), sv.cmp("==", R.shape[1], N),
                                           sv.cmp("==", M.shape[0], sv.sub(T, w)))
        n, i = ctx.int("n"), ctx.int("i")
        rng = _inr((n, sv.sub(T, w)), (i, N))
        ar = Aarr.reader()
        want = sv.div(Sum(0, w, lambda t: ar((sv.add(n, t), i))), w)
        yield "window-mean", sv.implies(rng, sv.cmp("==", R.get((n, i)), want))
        # central frame of the window {n, .., n+w-1}: |2 m - (2 n + w - 1)| <= 1  (unique for odd w; either middle frame for even w)
        if A.dim_conc(M.shape[0]) and M.shape[0] == 0:
            # zero windows on this path (T - w = 0 by the shape clause): nothing is reported
            yield "middle-index:central-frame-of-window", sv.cmp("<=", sv.sub(T, w), 0)
            yield "frame:input-not-written", len(_stores(out, inp["watch"])) == 0
            return
        m = M.get((n,))
        dev = sv.sub(sv.mul(2, m), sv.add(sv.mul(2, n), sv.sub(w, 1)))
        yield "middle-index:central-frame-of-window", sv.implies(rng, sv.and_(sv.cmp("<=", dev, 1), sv.cmp(">=", dev, -1)))
        yield "frame:input-not-written", len(_stores(out, inp["watch"])) == 0

    def replay(self, case, clause, model, seed):
        return _replay_time_average(case, clause, model, seed)


def _fr(x, default=None):
    if isinstance(x, bool):
        return float(x)
    if isinstance(x, (int, float)):
        return float(x)
    if isinstance(x, str):
        try:
            if "/" in x:
                a, b = x.split("/")
                return int(a) / int(b)
            return float(x)
        except ValueError:
            return default
    return default


def _mk_snapshots(np, T, N, d, rng, timesteps=None, boxes=None):
    import importlib
    RUm = importlib.import_module(RU)
    snaps = []
    for f in range(T):
        if boxes is not None:
            lo, L = boxes[f]
        else:
            lo, L = np.zeros(d), np.ones(d) * 5.0
        bb = np.column_stack([lo, lo + L])
        pos = lo + rng.random((N, d)) * L
        snaps.append(RUm.SingleSnapshot(timestep=int(timesteps[f]) if timesteps is not None else 100 * f, nparticle=N,
                                        particle_type=np.ones(N, dtype=int), positions=pos, boxlength=L.copy(), boxbounds=bb,
                                        realbounds=bb.copy(), hmatrix=np.diag(L)))
    return RUm.Snapshots(nsnapshots=T, snapshots=snaps)


def _replay_time_average(case, clause, model, seed):
    import importlib
    import math

    import numpy as np
    P = importlib.import_module(MOD)
    rng = np.random.default_rng(seed)
    tried = 0
    cands = []
    Tm, Nm = model.get("T"), model.get("N")
    # model first
    if isinstance(Tm, int) and 2 <= Tm <= 60:
        cands.append(("model", Tm, Nm if isinstance(Nm, int) and 1 <= Nm <= 6 else 2, None))
    for w in (1, 2, 3, 4, 5):
        for T in (w, w + 1, w + 3, w + 6):
            if T >= 2:
                cands.append(("edge", T, 2, w))
    for _ in range(60):
        T = int(rng.integers(2, 14))
        cands.append(("rand", T, int(rng.integers(1, 4)), int(rng.integers(1, T + 1))))
    # periods that are EXACT multiples of the frame interval (the statement names them): decimal inputs whose float quotient
    # period / interval is exactly the integer w, so that the statement over the reals and the float evaluation agree
    from fractions import Fraction
    exact = []
    for step_e, dt_e in ((50, "0.002"), (100, "0.001"), (10, "0.01"), (4, "0.25"), (1, "1.0"), (25, "0.004")):
        for w in (1, 2, 3, 5, 10):
            per = float(Fraction(step_e) * Fraction(dt_e) * w)
            if per / (step_e * float(dt_e)) == w:
                exact.append(("exact", w + 4, 2, w, step_e, float(dt_e), per))
    def ts_model(f):
        ent = model.get("TS")
        if isinstance(ent, dict):
            for e in ent.get("__func__") or []:
                if e[0] == f and isinstance(e[1], int):
                    return e[1]
            if isinstance(ent.get("else"), int):
                return ent["else"]
        return None
    for cand in exact + cands:
        kind, T, N, w = cand[:4]
        step = int(rng.integers(1, 50)) * 10 if kind != "exact" else cand[4]
        ts = [1000 + step * f for f in range(T)]
        if kind == "model" and ts_model(0) is not None and ts_model(1) is not None and ts_model(1) > ts_model(0):
            step = ts_model(1) - ts_model(0)
            ts = [ts_model(0) + step * f for f in range(T)]
        dt = float(rng.choice([0.002, 0.005, 0.25, 1.0])) if kind != "exact" else cand[5]
        interval = step * dt
        if kind == "exact":
            period = cand[6]
        elif w is None:
            period = _fr(model.get("period"))
            dtm = _fr(model.get("dt"))
            if period is None or dtm is None or dtm <= 0:
                continue
            dt = dtm
            interval = step * dt
            w = math.floor(period / interval)
            if not (1 <= w <= T):
                continue
        else:
            period = (w + float(rng.choice([0.25, 0.5, 0.75]))) * interval    # away from exact multiples (A1)
        snaps = _mk_snapshots(np, T, N, 2, rng, timesteps=ts)
        Ain = rng.normal(size=(T, N))
        if case == "complex":
            Ain = Ain + 1j * rng.normal(size=(T, N))
        keep = Ain.copy()
        tried += 1
        inputs = {"T": T, "N": N, "timesteps": ts[:3], "dt": dt, "time_period": period, "window": w}
        try:
            R, M = P.time_average(snaps, Ain, time_period=period, dt=dt)
        except Exception as e:
            return {"ran": True, "failed": True, "inputs": inputs, "detail": f"raises {type(e).__name__}: {e}", "searched": tried}
        bad = None
        if R.shape != (T - w, N) or np.asarray(M).shape != (T - w,):
            bad = f"shapes {R.shape}, {np.asarray(M).shape}; expected ({T - w},{N}) and ({T - w},)"
        elif not np.array_equal(keep, Ain):
            bad = "input_property was modified"
        else:
            for n in range(T - w):
                want = sum(keep[n + t] for t in range(w)) / w
                if not np.allclose(R[n], want, rtol=1e-9, atol=1e-12):
                    bad = f"window mean at n={n}: got {R[n].tolist()}, mean of frames {n}..{n + w - 1} is {want.tolist()}"
                    break
                if abs(2 * M[n] - (2 * n + w - 1)) > 1:
                    bad = (f"reported middle index at n={n} is {M[n]}; window frames {n}..{n + w - 1}, central frame "
                           f"{n + (w - 1) // 2}" + (f" or {n + w // 2}" if w % 2 == 0 else "") + f" (all reported: {np.asarray(M).tolist()[:8]})")
                    break
        if bad:
            return {"ran": True, "failed": True, "from_model": kind == "model", "searched": tried, "inputs": inputs, "detail": bad}
    return {"ran": True, "failed": False, "searched": tried, "detail": "real code satisfies every clause on the model inputs and the seeded inputs"}


# ------------------------------------------------------------------------------------------------
# spatial_average

RN = "PyMatterSim.neighbors.read_neighbors.read_neighbors"
_I = z3.IntSort()
CNF = z3.Function("CNF", _I, _I, _I)            # file record p, particle i: number of neighbours listed in the file
NBF = z3.Function("NBF", _I, _I, _I, _I)        # file record p, particle i, position t: listed neighbour id - 1
MAXC = z3.Function("MAXC", _I, _I)              # file record p: largest (truncated) coordination number of the record
NPF = z3.Int("NPF")                             # particles per record of the file
TF = z3.Int("TF")                               # number of records (frames) in the file


def nb_count(p, i, Nmax):
    """coordination number read_neighbors reports: min(listed, Nmax)"""
    return sv.minv(sv.SV(CNF(sv.znum(p), sv.znum(i))), Nmax)


def _file_fact(f):
    """instance of a universally quantified well-formedness fact about the neighbour file (precondition)"""
    facts = cur().facts
    t = sv.zb(f)
    if not any(t.eq(x) for x in facts[-40:]):
        facts.append(t)


def read_neighbors_contract(interp, args, kwargs):
    """callee contract of read_neighbors(f, nparticle, Nmax) on a neighbour-LIST file (header word 'neighborlist', C05):
    requires the handle at a record boundary `pos` < TF of a file whose records have `nparticle` rows;
    returns the int array (nparticle, 1 + maxc): row i = [c, id_1 - 1, .., id_c - 1, 0, ..], c = min(listed, Nmax),
    maxc = max_i c; the handle is advanced by one record (consecutive calls read consecutive frames)."""
    f = args[0]
    nparticle = kwargs.get("nparticle", args[1] if len(args) > 1 else None)
    Nmax = kwargs.get("Nmax", args[2] if len(args) > 2 else 200)
    st = cur()
    cell = st.heap[f.sid]
    if cell.kind != "file":
        raise sv.EngineError("read_neighbors on a non-file value")
    pos = cell.data["pos"]
    st.require(sv.cmp("==", nparticle, sv.SV(NPF)), "call:read_neighbors:pre:nparticle-is-the-file's-particle-number")
    st.require(sv.and_(sv.cmp(">=", pos, 0), sv.cmp("<", pos, sv.SV(TF))), "call:read_neighbors:pre:a-record-is-left-in-the-file")
    st.heap[f.sid] = Content("file", dict(cell.data, pos=A.simp(sv.add(pos, 1))), cell.meta)
    st.events.append(("store", f.sid, st.where, list(st.pc)))
    pz = sv.znum(pos)
    maxc = sv.SV(MAXC(pz))
    _file_fact(sv.and_(sv.cmp(">=", maxc, 0), sv.cmp("<=", maxc, sv.maxv(Nmax, 0))))

    def elem(idx):
        i, col = idx
        c = nb_count(pos, i, Nmax)
        _file_fact(sv.and_(sv.cmp(">=", sv.SV(CNF(pz, sv.znum(i))), 0), sv.cmp("<=", c, maxc)))
        if sv.is_conc(col) and col == 0:
            return c
        t = A.simp(sv.sub(col, 1))
        v = sv.SV(NBF(pz, sv.znum(i), sv.znum(t)))
        # listed ids are particle ids of the same trajectory: 1..nparticle in the file, 0..nparticle-1 after the shift
        _file_fact(sv.implies(sv.and_(sv.cmp(">=", t, 0), sv.cmp("<", t, c)), sv.and_(sv.cmp(">=", v, 0), sv.cmp("<", v, sv.SV(NPF)))))
        return sv.ite(sv.cmp("==", col, 0), c, sv.ite(sv.cmp("<", t, c), v, 0))
    return A.new_arr((nparticle, A.simp(sv.add(maxc, 1))), elem, "int")


class SpatialAverage(Unit):
    module = MOD
    qualname = "spatial_average"
    prop = "C16"
    timeout = 20
    summaries = {RN: read_neighbors_contract}
    solver_opts = {"ext_all": True}     # Σ extensionality also between sums whose bounds are equal only under the path condition

    def cases(self):
        return ["rank0/float", "rank1/float", "rank2/float", "rank1/complex", "rank0/float/outputfile"]

    def setup(self, ctx, case):
        parts = case.split("/")
        rank, dt = int(parts[0][4]), parts[1]
        T, N, Nmax = ctx.int("T"), ctx.int("N"), ctx.int("Nmax")
        ctx.assume(T >= 1)
        ctx.assume(N >= 1)
        ctx.assume(Nmax >= 0)
        ctx.assume(sv.cmp("==", sv.SV(NPF), N))       # the neighbour file belongs to this trajectory
        ctx.assume(sv.cmp(">=", sv.SV(TF), T))
        dims = [ctx.int(f"d{k}") for k in range(rank)]
        for dd in dims:
            ctx.assume(dd >= 1)
        Aarr = ctx.array("A", tuple([T, N] + dims), dt, origin="argument input_property")
        out = "cg.npy" if len(parts) > 2 else ""
        inp = dict(T=T, N=N, Nmax=Nmax, A=Aarr, dims=dims, rank=rank, watch=[Aarr.sid], outputfile=out)
        return [Aarr, "neighborlist.dat"], {"Nmax": Nmax, "outputfile": out}, inp

    def clause_names(self, case):
        return ["shape", "neighbour-mean:self+listed-neighbours/(1+cn)-frame-by-frame", "frame:input-not-written", "saved-file=returned"]

    def ensures(self, ctx, case, inp, out):
        T, N, Nmax, Aarr, dims = inp["T"], inp["N"], inp["Nmax"], inp["A"], inp["dims"]
        res = out.value
        ok = isinstance(res, A.Arr) and res.ndim == 2 + len(dims)
        if not ok:
            yield "shape", False
            return
        yield "shape", sv.and_(*[sv.cmp("==", a, b) for a, b in zip(res.shape, [T, N] + dims)])
        n, i = ctx.int("n"), ctx.int("i")
        tr = [ctx.int(f"a{k}") for k in range(len(dims))]
        rng = _inr((n, T), (i, N), *zip(tr, dims))
        ar = Aarr.reader()
        c = nb_count(n, i, Nmax)                       # record n of the file is used for frame n
        want = sv.div(sv.add(ar(tuple([n, i] + tr)),
                             Sum(0, c, lambda t: ar(tuple([n, sv.SV(NBF(n.t, i.t, sv.znum(t)))] + tr)))), sv.add(1, c))
        yield "neighbour-mean:self+listed-neighbours/(1+cn)-frame-by-frame", sv.implies(rng, sv.cmp("==", res.get(tuple([n, i] + tr)), want))
        yield "frame:input-not-written", len(_stores(out, inp["watch"])) == 0
        saves = [e for e in out.state.trace if e[0] == "np.save"]
        if inp["outputfile"]:
            good = len(saves) == 1 and saves[0][1] == inp["outputfile"]
            if good:
                sa = saves[0][2]
                good = sa.ndim == res.ndim and sv.implies(rng, sv.cmp("==", sa.get(tuple([n, i] + tr)), res.get(tuple([n, i] + tr))))
            yield "saved-file=returned", good
        else:
            yield "saved-file=returned", len(saves) == 0

    def replay(self, case, clause, model, seed):
        return _replay_spatial(case, clause, model, seed)


def _replay_spatial(case, clause, model, seed):
    import importlib
    import os
    import tempfile

    import numpy as np
    P = importlib.import_module(MOD)
    parts = case.split("/")
    rank, dt = int(parts[0][4]), parts[1]
    rng = np.random.default_rng(seed)
    tried = 0
    tmp = tempfile.mkdtemp(prefix="pyvc-c16-")
    try:
        for k in range(120):
            T = int(rng.integers(1, 4))
            N = int(rng.integers(1, 7)) if k % 5 else 1
            Nmax = int(rng.choice([0, 1, 2, 3, 30]))
            dims = [int(rng.integers(1, 4)) for _ in range(rank)]
            Ain = rng.normal(size=[T, N] + dims)
            if dt == "complex":
                Ain = Ain + 1j * rng.normal(size=Ain.shape)
            lists = []
            path = os.path.join(tmp, f"nl{k}.dat")
            with open(path, "w") as f:
                for n in range(T):
                    f.write("id     cn     neighborlist\n")
                    fr = []
                    for i in range(N):
                        cn = int(rng.integers(0, min(N, 5)))
                        nb = [int(x) for x in rng.choice([j for j in range(N) if j != i], size=cn, replace=False)] if cn else []
                        fr.append(nb)
                        f.write("%d %d %s\n" % (i + 1, cn, " ".join(str(j + 1) for j in nb)))
                    lists.append(fr)
            keep = Ain.copy()
            outp = os.path.join(tmp, f"out{k}.npy") if len(parts) > 2 else ""
            tried += 1
            inputs = {"T": T, "N": N, "Nmax": Nmax, "trailing": dims, "neighbours": lists[:2]}
            try:
                R = P.spatial_average(Ain, path, Nmax=Nmax, outputfile=outp)
            except Exception as e:
                return {"ran": True, "failed": True, "inputs": inputs, "detail": f"raises {type(e).__name__}: {e}", "searched": tried}
            bad = None
            if R.shape != keep.shape:
                bad = f"shape {R.shape} != {keep.shape}"
            elif not np.array_equal(keep, Ain):
                bad = "input_property was modified"
            else:
                for n in range(T):
                    for i in range(N):
                        nb = lists[n][i][:Nmax]
                        want = (keep[n, i] + sum((keep[n, j] for j in nb), 0 * keep[n, i])) / (1 + len(nb))
                        if not np.allclose(R[n, i], want, rtol=1e-9, atol=1e-12):
                            bad = f"out[{n},{i}] = {np.asarray(R[n, i]).tolist()}, mean over self and neighbours {nb} is {np.asarray(want).tolist()}"
                            break
                    if bad:
                        break
            if not bad and outp:
                if not os.path.exists(outp) or not np.array_equal(np.load(outp), R):
                    bad = "saved file differs from the returned array"
            if bad:
                return {"ran": True, "failed": True, "searched": tried, "inputs": inputs, "detail": bad}
    finally:
        import shutil
        shutil.rmtree(tmp, ignore_errors=True)
    return {"ran": True, "failed": False, "searched": tried, "detail": "real code satisfies every clause on the seeded inputs"}


# ------------------------------------------------------------------------------------------------
# grid_gaussian / gaussian_blurring

FU = "PyMatterSim.utils.funcs"
PBC = "PyMatterSim.utils.pbc.remove_pbc"


def gauss_spec(x, sigma, M=sv):
    """normalised Gaussian of the docs: exp(-x^2 / (2 sigma^2)) / sqrt(2 pi sigma^2)"""
    two_s2 = M.mul(2, M.mul(sigma, sigma))
    return M.div(M.exp(M.div(M.neg(M.mul(x, x)), two_s2)), M.sqrt(M.mul(two_s2, M.PI)))


class GridGaussian(Unit):
    module = FU
    qualname = "grid_gaussian"
    prop = "C16"

    def setup(self, ctx, case):
        m = ctx.int("m")
        ctx.assume(m >= 0)
        sigma = ctx.real("sigma")
        ctx.assume(sigma > 0)
        D = ctx.array("dist", (m,), "float", origin="argument distances")
        return [D, sigma], {}, dict(m=m, sigma=sigma, D=D, watch=[D.sid])

    def clause_names(self, case):
        return ["shape", "normalised-gaussian:exp(-x^2/2s^2)/sqrt(2 pi s^2)", "frame:input-not-written"]

    def ensures(self, ctx, case, inp, out):
        res = out.value
        ok = isinstance(res, A.Arr) and res.ndim == 1
        yield "shape", ok and sv.cmp("==", res.shape[0], inp["m"])
        if not ok:
            return
        t = ctx.int("t")
        yield ("normalised-gaussian:exp(-x^2/2s^2)/sqrt(2 pi s^2)",
               sv.implies(_inr((t, inp["m"])), sv.cmp("==", res.get((t,)), gauss_spec(inp["D"].get((t,)), inp["sigma"]))))
        yield "frame:input-not-written", len(_stores(out, inp["watch"])) == 0

    def replay(self, case, clause, model, seed):
        import importlib
        import math

        import numpy as np
        F = importlib.import_module(FU)
        rng = np.random.default_rng(seed)
        for k in range(200):
            sigma = _fr(model.get("sigma")) if k == 0 and _fr(model.get("sigma")) else float(rng.uniform(0.2, 5))
            x = rng.uniform(0, 8, size=int(rng.integers(0, 6)))
            got = F.grid_gaussian(x.copy(), sigma)
            want = np.array([math.exp(-v * v / (2 * sigma * sigma)) / math.sqrt(2 * math.pi * sigma * sigma) for v in x])
            if got.shape != want.shape or not np.allclose(got, want, rtol=1e-9, atol=1e-300):
                return {"ran": True, "failed": True, "searched": k + 1, "inputs": {"distances": x.tolist(), "sigma": sigma},
                        "detail": f"got {np.asarray(got).tolist()}, normalised Gaussian is {want.tolist()}"}
        return {"ran": True, "failed": False, "searched": 200, "detail": "real code equals the normalised Gaussian on the seeded inputs"}


def remove_pbc_contract(interp, args, kwargs):
    """callee contract of remove_pbc (proved by contracts/C02.py against the real body): requires det H != 0 and a 0/1 mask;
    row r -> sum_k (m_k - rint(m_k) ppp_k) H[k,:],  m = r H^-1"""
    from contracts import C02
    RIJ, H = args[0], args[1]
    ppp = kwargs.get("ppp", args[2] if len(args) > 2 else None)
    if ppp is None or not isinstance(RIJ, A.Arr) or RIJ.ndim != 2:
        raise sv.EngineError("remove_pbc contract: unexpected call shape")
    d = A.conc_dim(RIJ.shape[1])
    Hm = A.to_list(H)
    pl = A.to_list(ppp)
    if len(Hm) != d or len(pl) != d:
        cur().require(False, "call:remove_pbc:pre:shapes")
    det, G = C02._inv_spec(Hm, d)
    cur().require(sv.cmp("!=", det, 0), "call:remove_pbc:pre:cell-nonsingular")
    for pk in pl:
        cur().require(sv.or_(sv.cmp("==", pk, 0), sv.cmp("==", pk, 1)), "call:remove_pbc:pre:mask-is-0/1")
    rr = RIJ.reader()

    def elem(idx):
        row = [rr((idx[0], c)) for c in range(d)]
        out = C02.pbc_spec_row(row, Hm, G, pl, d)
        return A._pick(out, idx[1])
    return A.new_arr(RIJ.shape, elem, "float")


def _min_image_dist(gp_row, pos_row, Hm, pl, d):
    """|D| with D = minimum image (C02 contract) of grid point - particle position"""
    from contracts import C02
    det, G = C02._inv_spec(Hm, d)
    D = C02.pbc_spec_row([sv.sub(gp_row[c], pos_row[c]) for c in range(d)], Hm, G, pl, d)
    s = 0
    for c in range(d):
        s = sv.add(s, sv.mul(D[c], D[c]))
    return sv.sqrt(s)


def decode_row_major(p, ng):
    """index tuple of flat position p in row-major (first axis slowest) order over a grid of ng[0] x ng[1] (x ng[2]) points;
    integer division and remainder of non-negative numbers (z3 div/mod)"""
    pz = sv.znum(p)
    out = []
    for g in reversed(ng[1:]):
        gz = sv.znum(g)
        out.append(sv.wrap(pz % gz))
        pz = pz / gz
    out.append(sv.wrap(pz))
    return list(reversed(out))


def divmod_unique(a, b, q, r):
    """b > 0, 0 <= r < b, a = q b + r  ==>  a div b = q and a mod b = r   (uniqueness of Euclidean division; proved on fresh
    variables as lemma C16:euclidean-division-is-unique, used through instances)"""
    az, bz, qz, rz = sv.znum(a), sv.znum(b), sv.znum(q), sv.znum(r)
    return z3.Implies(z3.And(bz > 0, rz >= 0, rz < bz, az == qz * bz + rz), z3.And(az / bz == qz, az % bz == rz))


def divmod_hints(p, tup, ng):
    """instances of divmod_unique that peel the row-major flat index p of the index tuple `tup` axis by axis (last axis first)"""
    out = []
    pz = sv.znum(p)
    for c in range(len(ng) - 1, 0, -1):
        head = tup[0]
        for k in range(1, c):
            head = sv.add(sv.mul(head, ng[k]), tup[k])
        out.append(divmod_unique(sv.wrap(pz), ng[c], head, tup[c]))
        pz = pz / sv.znum(ng[c])
    return out


class GaussianBlurring(Unit):
    module = MOD
    qualname = "gaussian_blurring"
    prop = "C16"
    timeout = 8         # every obligation of the unchanged function is decided in milliseconds; broken variants must not hang
    summaries = {PBC: remove_pbc_contract}
    solver_opts = {"ext_all": True}

    def __init__(self):
        from pyvc.loops import scatter_nest_rule
        self.loop_hints = {(MOD + ".gaussian_blurring", "for", "*"): scatter_nest_rule}

    def cases(self):
        return [f"d={d}/rank{r}" for d in (2, 3) for r in (0, 1, 2)] + ["d=2/rank0/outputfile"]

    def setup(self, ctx, case):
        parts = case.split("/")
        d, rank = int(parts[0][2]), int(parts[1][4])
        T, N = ctx.int("T"), ctx.int("N")
        ctx.assume(T >= 1)
        ctx.assume(N >= 1)
        watch = []
        snaps, F = _snapshots(ctx, T, N, d=d, watch=watch)
        dims = [ctx.int(f"d{k}") for k in range(rank)]
        for dd in dims:
            ctx.assume(dd >= 1)
        C = ctx.array("A", tuple([T, N] + dims), "float", origin="argument condition")
        ng = [ctx.int(f"n{k}") for k in range(d)]
        for g in ng:
            ctx.assume(g >= 2)          # "equally spaced points spanning the box bounds": at least the two end points
        ngrids = A.from_nested(ng, "int")
        ctx.state.origin[ngrids.sid] = "argument ngrids"
        pl = [ctx.int(f"ppp{k}") for k in range(3)]
        for pk in pl:
            ctx.assume(sv.or_(sv.cmp("==", pk, 0), sv.cmp("==", pk, 1)))
        ppp = A.from_nested(pl, "int")
        ctx.state.origin[ppp.sid] = "argument ppp"
        sigma, cut = ctx.real("sigma"), ctx.real("cut")
        ctx.assume(sigma > 0)
        ctx.assume(cut > 0)
        outp = "gb" if len(parts) > 2 else ""
        watch += [C.sid, ngrids.sid, ppp.sid]
        # written ghost inverse of the flat grid index, from the statement ("each grid point exactly once, x slowest"): slot p of a
        # frame holds the grid point with the row-major index tuple decode(p) = (p div n1, p mod n1) / ((p div n2) div n1, (p div n2) mod n1, p mod n2)
        from pyvc.loops import make_scatter_nest_rule

        def inverse(name, idx, ranges, lvars, ng=ng, d=d):
            if name != "grid_positions" or len(idx) != 3 or len(ranges) != d:
                return None
            return decode_row_major(idx[1], ng), divmod_hints(idx[1], lvars, ng)
        ctx.interp.loop_hints = dict(ctx.interp.loop_hints)
        ctx.interp.loop_hints[(MOD + ".gaussian_blurring", "for", "*")] = make_scatter_nest_rule(inverse, clause=self.INV)
        inp = dict(d=d, rank=rank, T=T, N=N, dims=dims, C=C, ng=ng, pl=pl[:d], sigma=sigma, cut=cut, F=F, watch=watch, outputfile=outp)
        return [snaps, C, ngrids], {"sigma": sigma, "ppp": ppp, "gaussian_cut": cut, "outputfile": outp}, inp

    GRID = ["grid:loops-run-over-all-n0*n1(*n2)-index-tuples", "grid:flat-index-inside-[0,prod-n)", "grid:each-point-exactly-once(index-injective)",
            "grid:x-slowest-row-major-order", "grid:stored-point=(X_i,Y_j[,Z_k])-equally-spaced-over-box-bounds"]

    INV = "grid:every-slot-of-a-frame-is-written-by-exactly-the-iteration-with-its-row-major-index-tuple"
    RET = "grid:returned-array=full-cartesian-grid-each-point-exactly-once-x-slowest"

    def clause_names(self, case):
        return ["shape", "grid:construction-is-a-scatter-store-nest", self.INV, self.RET] + self.GRID + \
            ["value:sum-over-particles-within-cutoff-of-normalised-gaussian(min-image-distance)*property", "frame:inputs-not-written",
             "saved-files=returned"]

    def ensures(self, ctx, case, inp, out):
        d, T, N, dims, C, ng = inp["d"], inp["T"], inp["N"], inp["dims"], inp["C"], inp["ng"]
        res = out.value
        G = 1
        for g in ng:
            G = sv.mul(G, g)
        ok = isinstance(res, tuple) and len(res) == 2 and all(isinstance(x, A.Arr) for x in res) and res[0].ndim == 3 and res[1].ndim == 2 + len(dims)
        if not ok:
            yield "shape", False
            return
        GP, GV = res
        yield "shape", sv.and_(*([sv.cmp("==", a, b) for a, b in zip(GP.shape, [T, G, d])] + [sv.cmp("==", a, b) for a, b in zip(GV.shape, [T, G] + dims)]))
        # ---- grid construction: clauses on the probe of the real store  grid_positions[n, indice] = [X[i], Y[j](, Z[k])]
        probes = [p for p in getattr(ctx.interp, "probes", []) if p["depth"] == d and len(p["shape"]) == 3]
        yield "grid:construction-is-a-scatter-store-nest", len(probes) >= 1
        if probes:
            pr = probes[-1]
            asm = z3.And(*pr["assumptions"])
            eq = {k.get_id(): v for k, v in pr["equalities"]}
            i0, i1, i2 = pr["idx"]
            have = i0.t.get_id() in eq and i1.t.get_id() in eq
            if not have:
                for cn in self.GRID:
                    yield cn, False
            else:
                frame_t, flat = sv.wrap(eq[i0.t.get_id()]), sv.wrap(eq[i1.t.get_id()])
                lv = pr["loop_vars"]

                def under(goal):
                    return z3.Implies(asm, sv.zb(goal) if not isinstance(goal, bool) else z3.BoolVal(goal))
                yield self.GRID[0], under(sv.and_(*[sv.and_(sv.cmp("==", l, 0), sv.cmp("==", h, ng[k])) for k, (v, l, h) in enumerate(lv)]))
                TE = {"try_eval": True}     # a wrong index formula is refuted by an exact integer assignment before SMT is tried
                yield self.GRID[1], under(sv.and_(sv.cmp(">=", flat, 0), sv.cmp("<", flat, G))), TE
                # injective: a second index tuple in the same ranges with the same flat index is the same tuple
                primed = [ctx.int(f"v{k}'") for k in range(d)]
                flat2 = sv.wrap(z3.substitute(flat.t, *[(v.t, q.t) for (v, _, _), q in zip(lv, primed)]))
                rng2 = sv.and_(*[sv.and_(sv.cmp(">=", q, 0), sv.cmp("<", q, ng[k])) for k, q in enumerate(primed)])
                hints = divmod_hints(flat, [v for v, _, _ in lv], ng) + divmod_hints(flat, primed, ng)      # valid formulas (lemma instances)
                yield self.GRID[2], under(sv.implies(sv.and_(rng2, sv.cmp("==", flat, flat2)),
                                                     sv.and_(*[sv.cmp("==", v, q) for (v, _, _), q in zip(lv, primed)]))), dict(TE, assume=hints)
                rm = lv[0][0]
                for k in range(1, d):
                    rm = sv.add(sv.mul(rm, ng[k]), lv[k][0])
                yield self.GRID[3], under(sv.cmp("==", flat, rm)), TE
                BB = inp["F"]["BB"]
                pts = []
                for c in range(d):
                    lo_c = sv.SV(BB(frame_t.t, z3.IntVal(c), z3.IntVal(0)))
                    hi_c = sv.SV(BB(frame_t.t, z3.IntVal(c), z3.IntVal(1)))
                    want = sv.add(lo_c, sv.mul(lv[c][0], sv.div(sv.sub(hi_c, lo_c), sv.sub(ng[c], 1))))
                    got = sv.wrap(z3.substitute(sv.znum(pr["val"]), (i2.t, z3.IntVal(c))))
                    pts.append(sv.cmp("==", got, want))
                yield self.GRID[4], under(sv.and_(*pts))
        # ---- values at the returned grid points
        n, p = ctx.int("n"), ctx.int("p")
        tr = [ctx.int(f"a{k}") for k in range(len(dims))]
        rng = _inr((n, T), (p, G), *zip(tr, dims))
        F = inp["F"]
        # ---- the RETURNED array (after the whole nest and the frame loop): slot p of frame n is the grid point whose index tuple is the
        #      row-major decoding of p, i.e. every point of the n0 x n1 (x n2) grid appears exactly once, x slowest (decode is a bijection
        #      [0, prod n) -> prod [0, n_c): lemma row-major-decode-is-a-bijection)
        dec = decode_row_major(p, ng)
        BBf = F["BB"]
        pts = []
        for c in range(d):
            lo_c = sv.SV(BBf(n.t, z3.IntVal(c), z3.IntVal(0)))
            hi_c = sv.SV(BBf(n.t, z3.IntVal(c), z3.IntVal(1)))
            pts.append(sv.cmp("==", GP.get((n, p, c)), sv.add(lo_c, sv.mul(dec[c], sv.div(sv.sub(hi_c, lo_c), sv.sub(ng[c], 1))))))
        yield self.RET, sv.implies(_inr((n, T), (p, G)), sv.and_(*pts))
        Hm = [[sv.SV(F["HM"](n.t, z3.IntVal(a), z3.IntVal(b))) for b in range(d)] for a in range(d)]
        # the returned point, read under the index ranges of the clause (picks the branch of the engine's case split on the indices)
        gp_row = [_resolve_ite(GP.get((n, p, c)), out.state.all_assumptions() + [sv.zb(rng)]) for c in range(d)]
        cr = C.reader()
        sigma, cut = inp["sigma"], inp["cut"]

        def term(q):
            pos_row = [sv.SV(F["POS"](n.t, sv.znum(q), z3.IntVal(c))) for c in range(d)]
            r = _min_image_dist(gp_row, pos_row, Hm, inp["pl"], d)
            return sv.ite(sv.cmp("<", r, cut), lambda: sv.mul(gauss_spec(r, sigma), cr(tuple([n, q] + tr))), 0)
        want = Sum(0, N, term)
        # the grid point enters the value only as a parameter: the clause is proved for an ARBITRARY point in its place (universal
        # generalisation of the returned coordinates, which since the written inverse are closed forms with div/mod of the slot number)
        vgoal, _ = sv.generalize(sv.implies(rng, sv.cmp("==", GV.get(tuple([n, p] + tr)), want)), gp_row)
        yield ("value:sum-over-particles-within-cutoff-of-normalised-gaussian(min-image-distance)*property", vgoal, {"timeout": 4})
        yield "frame:inputs-not-written", len(_stores(out, inp["watch"])) == 0
        saves = [e for e in out.state.trace if e[0] == "np.save"]
        if inp["outputfile"]:
            good = len(saves) == 2 and saves[0][1] == inp["outputfile"] + "_positions.npy" and saves[1][1] == inp["outputfile"] + "_properties.npy"
            if good:
                c_ = ctx.int("c")
                good = sv.and_(sv.implies(sv.and_(rng, _inr((c_, d))), sv.cmp("==", saves[0][2].get((n, p, c_)), GP.get((n, p, c_)))),
                               sv.implies(rng, sv.cmp("==", saves[1][2].get(tuple([n, p] + tr)), GV.get(tuple([n, p] + tr)))))
            yield "saved-files=returned", good
        else:
            yield "saved-files=returned", len(saves) == 0

    def replay(self, case, clause, model, seed):
        return _replay_blur(case, clause, model, seed)


def _replay_blur(case, clause, model, seed):
    import importlib
    import itertools
    import math

    import numpy as np
    P = importlib.import_module(MOD)
    parts = case.split("/")
    d, rank = int(parts[0][2]), int(parts[1][4])
    rng = np.random.default_rng(seed)
    tried = 0
    cands = []
    mg = [model.get(f"n{k}") for k in range(d)]
    if all(isinstance(g, int) and 2 <= g <= 7 for g in mg):
        cands.append(tuple(mg))
    cands += [tuple(g) for g in itertools.product((2, 3), repeat=d)] + [(5, 2), (2, 5), (4, 3)][: 3 if d == 2 else 0] + [(3, 2, 4), (2, 4, 3)][: 2 if d == 3 else 0]
    cands = [g for g in cands if len(g) == d]
    cands.append("tie")
    for k, ng in enumerate(cands):
        T, N = int(rng.integers(1, 3)), int(rng.integers(1, 6))
        dims = [int(rng.integers(1, 3)) for _ in range(rank)]
        boxes = [(rng.uniform(-2, 2, size=d), rng.uniform(3, 6, size=d)) for _ in range(T)]
        tie = ng == "tie"
        if tie:
            # a particle at distance EXACTLY gaussian_cut (1.5, exact in floats) from the grid point at the lower box corner
            ng = tuple([2] * d)
            boxes = [(np.zeros(d), np.ones(d) * 8.0) for _ in range(T)]
        snaps = _mk_snapshots(np, T, N, d, rng, boxes=boxes)
        C = rng.normal(size=[T, N] + dims)
        sigma, cut = float(rng.uniform(0.5, 2.5)), float(rng.uniform(1.0, 4.0))
        ppp = np.array([int(x) for x in rng.integers(0, 2, size=3)])
        if tie:
            cut = 1.5
            for sn in snaps.snapshots:
                sn.positions[0] = np.array([1.5] + [0.0] * (d - 1))
                if N >= 2:
                    sn.positions[1] = np.zeros(d)       # a particle exactly ON a grid point (distance 0): it contributes the peak weight
        keepC = C.copy()
        tried += 1
        inputs = {"ngrids": list(ng), "T": T, "N": N, "trailing": dims, "exact-tie-at-cutoff": tie, "positions[0][0]": snaps.snapshots[0].positions[0].tolist(), "sigma": sigma, "gaussian_cut": cut, "ppp": ppp[:d].tolist(),
                  "boxbounds[0]": snaps.snapshots[0].boxbounds.tolist()}
        try:
            GP, GV = P.gaussian_blurring(snaps, C, np.array(ng), sigma=sigma, ppp=ppp, gaussian_cut=cut)
        except Exception as e:
            return {"ran": True, "failed": True, "from_model": bool(k == 0 and cands[0] == tuple(mg)), "inputs": inputs,
                    "detail": f"raises {type(e).__name__}: {e}", "searched": tried}
        G = int(np.prod(ng))
        bad = None
        if GP.shape != (T, G, d) or GV.shape != tuple([T, G] + dims):
            bad = f"shapes {GP.shape}, {GV.shape}"
        elif not np.array_equal(keepC, C):
            bad = "condition was modified"
        for n in range(T):
            if bad:
                break
            s = snaps.snapshots[n]
            axes = [[s.boxbounds[c, 0] + i * (s.boxbounds[c, 1] - s.boxbounds[c, 0]) / (ng[c] - 1) for i in range(ng[c])] for c in range(d)]
            want_pts = [[float(v) for v in t] for t in itertools.product(*axes)]          # full Cartesian grid, x slowest
            if not np.allclose(GP[n], np.array(want_pts), rtol=1e-9, atol=1e-12):
                first = next(q for q in range(G) if not np.allclose(GP[n, q], want_pts[q], rtol=1e-9, atol=1e-12))
                distinct = len({tuple(np.round(r, 9)) for r in GP[n]})
                bad = (f"grid_positions[{n}] is not the full {'x'.join(map(str, ng))} grid in x-slowest order: entry {first} is {GP[n, first].tolist()}, "
                       f"expected {want_pts[first]}; {distinct} distinct points of {G}")
                break
            L = np.diag(s.hmatrix)
            for q in range(G):
                acc = np.zeros(dims) if dims else 0.0
                for j in range(N):
                    D = GP[n, q] - s.positions[j]
                    D = D - np.rint(D / L) * L * ppp[:d]
                    r = math.sqrt(float(np.dot(D, D)))
                    if abs(r - cut) < 1e-9 and r != cut:
                        acc = None          # too close to the cutoff to decide in floats: this grid point is skipped
                        break
                    if r < cut:
                        acc = acc + math.exp(-r * r / (2 * sigma * sigma)) / math.sqrt(2 * math.pi * sigma * sigma) * keepC[n, j]
                if acc is None:
                    continue
                if not np.allclose(GV[n, q], acc, rtol=1e-8, atol=1e-12):
                    bad = f"grid_property[{n},{q}] = {np.asarray(GV[n, q]).tolist()}, Gaussian sum within the cutoff at the returned point is {np.asarray(acc).tolist()}"
                    break
        if bad:
            return {"ran": True, "failed": True, "from_model": k == 0 and cands[0] == tuple(mg), "searched": tried, "inputs": inputs, "detail": bad}
    return {"ran": True, "failed": False, "searched": tried, "detail": "real code satisfies every clause on the model grid sizes and the seeded inputs"}



def decode_lemmas():
    """row-major decoding is a bijection between the flat positions [0, prod n) and the index tuples prod [0, n_c) (fresh variables,
    symbolic grid numbers >= 1): together with the clause RET of gaussian_blurring (slot p holds the point with index tuple decode(p))
    this is 'every grid point exactly once, x slowest'"""
    out = []
    for d in (2, 3):
        ng = [sv.fresh_int(f"n{c}") for c in range(d)]
        pos = sv.and_(*[sv.cmp(">=", g, 1) for g in ng])
        G = 1
        for g in ng:
            G = sv.mul(G, g)
        p = sv.fresh_int("p")
        dec = decode_row_major(p, ng)
        out.append((f"row-major-decode[d={d}]:maps-[0,prod-n)-into-the-index-ranges",
                    sv.implies(sv.and_(pos, sv.cmp(">=", p, 0), sv.cmp("<", p, G)), sv.and_(*[sv.and_(sv.cmp(">=", x, 0), sv.cmp("<", x, g)) for x, g in zip(dec, ng)]))))
        tup = [sv.fresh_int(f"i{c}") for c in range(d)]
        flat = tup[0]
        for c in range(1, d):
            flat = sv.add(sv.mul(flat, ng[c]), tup[c])
        inr = sv.and_(pos, *[sv.and_(sv.cmp(">=", x, 0), sv.cmp("<", x, g)) for x, g in zip(tup, ng)])
        dec_flat = decode_row_major(flat, ng)
        out.append((f"row-major-decode[d={d}]:every-index-tuple-is-the-decoding-of-exactly-one-position(surjective+order)",
                    sv.implies(inr, sv.and_(sv.cmp(">=", flat, 0), sv.cmp("<", flat, G), *[sv.cmp("==", a, b) for a, b in zip(dec_flat, tup)]))))
        q = sv.fresh_int("q")
        dq = decode_row_major(q, ng)
        out.append((f"row-major-decode[d={d}]:injective",
                    sv.implies(sv.and_(pos, sv.cmp(">=", p, 0), sv.cmp("<", p, G), sv.cmp(">=", q, 0), sv.cmp("<", q, G), *[sv.cmp("==", a, b) for a, b in zip(dec, dq)]),
                               sv.cmp("==", p, q))))
        # x slowest: the lexicographic order of the index tuples is the order of the positions
        if d == 2:
            lex = sv.or_(sv.cmp("<", dec[0], dq[0]), sv.and_(sv.cmp("==", dec[0], dq[0]), sv.cmp("<", dec[1], dq[1])))
        else:
            lex = sv.or_(sv.cmp("<", dec[0], dq[0]), sv.and_(sv.cmp("==", dec[0], dq[0]), sv.cmp("<", dec[1], dq[1])),
                         sv.and_(sv.cmp("==", dec[0], dq[0]), sv.cmp("==", dec[1], dq[1]), sv.cmp("<", dec[2], dq[2])))
        out.append((f"row-major-decode[d={d}]:x-slowest(position-order=lexicographic-order-of-index-tuples)",
                    sv.implies(sv.and_(pos, sv.cmp(">=", p, 0), sv.cmp("<", q, G), sv.cmp("<", p, q)), lex)))
    return out


def extra_checks(tier, seed, repo):
    from pyvc.vc import prove_lemmas
    a, b, q, r = (sv.fresh_int(x) for x in "abqr")
    return {"obligations": prove_lemmas("C16", [("euclidean-division-is-unique", divmod_unique(a, b, q, r))] + decode_lemmas(), timeout=20)}


def replay_extra(rec):
    return {"ran": False, "failed": False, "error": "lemma obligations have no concrete replay"}


UNITS = [TimeAverage(), SpatialAverage(), GridGaussian(), GaussianBlurring()]
# callee contracts of other properties used at call sites: their units are re-verified with this check
from contracts.common import callee_units as _callee_units   # noqa: E402
UNITS = UNITS + _callee_units([('C02', None), ('C05', {'read_neighbors'})], UNITS)

MANIFEST = {
    "text": "time_average, spatial_average, gaussian_blurring (utils/coarse_graining.py) and grid_gaussian (utils/funcs.py), real ASTs re-read every run, symbolic frame number T, particle number N, trailing dimensions, grid sizes n0,n1(,n2) >= 2, window length, Nmax, sigma, cutoff, periodicity mask: (1) time_average returns T-w rows with w = floor(period/((ts1-ts0) dt)), row n = mean of frames n..n+w-1 (float and complex input), and reports the central frame of that window (n+(w-1)/2 for odd w, one of the two middle frames for even w); (2) spatial_average[n,i,..] = (A[n,i,..] + sum over the first min(cn,Nmax) listed neighbours j of A[n,j,..]) / (1 + min(cn,Nmax)) for ranks 0,1,2 (float, complex), with the n-th record of the neighbour file used for frame n (one handle, read_neighbors callee contract), input array not written, saved file = returned array; (3) gaussian_blurring: the store that fills the grid uses a flat index that lies in [0, prod n), is injective on the index tuples, equals the row-major index with x slowest, the loops run over all n0*n1(*n2) tuples, and the stored point is (X_i,Y_j[,Z_k]) with X,Y,Z equally spaced from the lower to the upper box bound of the same frame (2D and 3D, equal or unequal numbers per axis); every slot p of a frame is written by exactly the iteration whose index tuple is the row-major decoding of p (written ghost inverse; obligations on the real store condition), hence the RETURNED grid_positions[n, p] is the grid point with index tuple decode(p) for symbolic grid sizes, and decoding is an order-preserving bijection (lemmas): every grid point exactly once, x slowest; for every frame n, returned grid point p and trailing index, grid_property = sum over particles q with |D| < cutoff of exp(-|D|^2/(2 sigma^2))/sqrt(2 pi sigma^2) * property[n,q,..], D the minimum image (C02 contract) of grid point minus particle position (scalar, vector, tensor); inputs not written, saved files = returned arrays; (4) grid_gaussian(x, sigma) = exp(-x^2/(2 sigma^2))/sqrt(2 pi sigma^2) elementwise.",
    "note": "floats as reals (A1); callee contracts of read_neighbors (assumed here, C05) and remove_pbc (C02); well-formed neighbour file and non-singular cells assumed; the content of the RETURNED grid array for symbolic grid sizes is proved through a written ghost inverse of the flat index (row-major decoding; slot written by exactly the iteration decode(p): obligations on the real store) + the lemma that decoding is an order-preserving bijection; loop summaries are checked by init/step obligations; on the pinned tree before the two fix commits the clauses middle-index (time_average) and flat-index in range / injective / row-major (gaussian_blurring) are REFUTED with failing replays (design_notes/C16.md)",
}
