"""C16 — coarse graining: neighbour mean, Gaussian grid projection, window average.

Functions under contract (real ASTs, re-read every run):
  PyMatterSim.utils.coarse_graining.time_average / spatial_average / gaussian_blurring
  PyMatterSim.utils.funcs.grid_gaussian

The postconditions are the sentences of the property statement / docs/utils.md VII, not the code's formulas:
  time_average      w = floor(period / interval), interval = (timestep_1 - timestep_0) dt;
                    out[n, i] = (1/w) sum_{t<w} A[n+t, i];  reported index = central frame of {n, .., n+w-1}
  spatial_average   out[n, i, ..] = (A[n, i, ..] + sum_{t<c(n,i)} A[n, nb(n,i,t), ..]) / (1 + c(n,i)),
                    (c, nb) = the n-th record of the neighbour file (frame by frame)
  gaussian_blurring grid index: (i, j[, k]) -> flat index is row-major with x slowest, inside [0, prod n), injective;
                    stored point = (X_i, Y_j[, Z_k]), X = equally spaced points spanning the box bounds;
                    value[n, p, ..] = sum_q [ |D| < cut ] exp(-|D|^2 / (2 sigma^2)) / sqrt(2 pi sigma^2) A[n, q, ..],
                    D = minimum image of grid_p - r_q (C02 contract)
"""
import z3

from pyvc import arr as A
from pyvc import sv
from pyvc.sigma import Sum
from pyvc.state import Content, cur
from pyvc.vc import Unit

MOD = "PyMatterSim.utils.coarse_graining"
RU = "PyMatterSim.reader.reader_utils"

NOT_DECIDED = [
    "int(period / interval) when the floating-point quotient of an exact multiple lands just below the integer (A1: floats are reals)",
]
TRUSTED = []


# ------------------------------------------------------------------------------------------------
# symbolic trajectories


def _snapshots(ctx, T, N, d=None, watch=None):
    """Snapshots(nsnapshots=T, snapshots=[SingleSnapshot...]) with a symbolic number T of frames: frame f has
    timestep TS(f), nparticle N, positions POS(f,.,.), boxbounds BB(f,.,.), hmatrix HM(f,.,.) (uninterpreted)"""
    I = z3.IntSort()
    TS = z3.Function("TS", I, I)
    POS = z3.Function("POS", I, I, I, z3.RealSort())
    BB = z3.Function("BB", I, I, I, z3.RealSort())
    HM = z3.Function("HM", I, I, I, z3.RealSort())
    from pyvc.interp import Ref, load_module, new_obj
    cls = load_module(RU).get_class("SingleSnapshot")

    def frame(f):
        fz = sv.znum(f)
        attrs = {"timestep": sv.SV(TS(fz)), "nparticle": N}
        if d is not None:
            def mk(F, shape, what):
                a = A.new_arr(shape, lambda idx, F=F: sv.SV(F(fz, sv.znum(idx[0]), sv.znum(idx[1]))), "float")
                cur().origin[a.sid] = f"argument snapshots.snapshots[.].{what}"
                if watch is not None:
                    watch.append(a.sid)
                return a
            attrs["positions"] = mk(POS, (N, d), "positions")
            attrs["boxbounds"] = mk(BB, (d, 2), "boxbounds")
            attrs["hmatrix"] = mk(HM, (d, d), "hmatrix")
        return new_obj(cls, attrs, frozen=True)
    lst = Ref(cur().alloc(Content("list", A.SeqVal(T, frame))), "list")
    snaps = ctx.obj(RU, "Snapshots", {"nsnapshots": T, "snapshots": lst})
    return snaps, dict(TS=TS, POS=POS, BB=BB, HM=HM)


def _inr(*pairs):
    return sv.and_(*[sv.and_(sv.cmp(">=", x, 0), sv.cmp("<", x, n)) for x, n in pairs])


def _stores(out, sids):
    return [e for e in out.state.events if e[0] == "store" and e[1] in sids]


# ------------------------------------------------------------------------------------------------
# time_average


class TimeAverage(Unit):
    module = MOD
    qualname = "time_average"
    prop = "C16"
    timeout = 20

    def cases(self):
        return ["float", "complex"]

    def setup(self, ctx, case):
        T, N = ctx.int("T"), ctx.int("N")
        ctx.assume(T >= 2)
        ctx.assume(N >= 1)
        snaps, F = _snapshots(ctx, T, N)
        Aarr = ctx.array("A", (T, N), case, origin="argument input_property")
        period, dt = ctx.real("period"), ctx.real("dt")
        ts0, ts1 = sv.SV(F["TS"](z3.IntVal(0))), sv.SV(F["TS"](z3.IntVal(1)))
        ctx.assume(dt > 0)
        ctx.assume(sv.cmp(">", ts1, ts0))
        interval = sv.mul(sv.sub(ts1, ts0), dt)       # the frame interval in time units (statement: "period/interval")
        q = sv.div(period, interval)
        w = sv.floor(q)                               # spec: floor(period/interval)
        ctx.assume(sv.cmp(">=", w, 1))                # a window holds at least one frame
        ctx.assume(sv.cmp("<=", w, T))                # and fits into the trajectory
        inp = dict(T=T, N=N, A=Aarr, w=w, q=q, watch=[Aarr.sid])
        return [snaps, Aarr], {"time_period": period, "dt": dt}, inp

    def clause_names(self, case):
        return ["shape:T-w-windows", "window-mean", "middle-index:central-frame-of-window", "frame:input-not-written"]

    def ensures(self, ctx, case, inp, out):
        T, N, Aarr, w = inp["T"], inp["N"], inp["A"], inp["w"]
        res = out.value
        ok = isinstance(res, tuple) and len(res) == 2 and isinstance(res[0], A.Arr) and isinstance(res[1], A.Arr) \
            and res[0].ndim == 2 and res[1].ndim == 1
        if not ok:
            yield "shape:T-w-windows", False
            return
        R, M = res
        yield "shape:T-w-windows", sv.and_(sv.cmp("==", R.shape[0], sv.sub(T, w)), sv.cmp("==", R.shape[1], N),
                                           sv.cmp("==", M.shape[0], sv.sub(T, w)))
        n, i = ctx.int("n"), ctx.int("i")
        rng = _inr((n, sv.sub(T, w)), (i, N))
        ar = Aarr.reader()
        want = sv.div(Sum(0, w, lambda t: ar((sv.add(n, t), i))), w)
        yield "window-mean", sv.implies(rng, sv.cmp("==", R.get((n, i)), want))
        # central frame of the window {n, .., n+w-1}: |2 m - (2 n + w - 1)| <= 1  (unique for odd w; either middle frame for even w)
        if A.dim_conc(M.shape[0]) and M.shape[0] == 0:
            # zero windows on this path (T - w = 0 by the shape clause): nothing is reported
            yield "middle-index:central-frame-of-window", sv.cmp("<=", sv.sub(T, w), 0)
            yield "frame:input-not-written", len(_stores(out, inp["watch"])) == 0
            return
        m = M.get((n,))
        dev = sv.sub(sv.mul(2, m), sv.add(sv.mul(2, n), sv.sub(w, 1)))
        yield "middle-index:central-frame-of-window", sv.implies(rng, sv.and_(sv.cmp("<=", dev, 1), sv.cmp(">=", dev, -1)))
        yield "frame:input-not-written", len(_stores(out, inp["watch"])) == 0

    def replay(self, case, clause, model, seed):
        return _replay_time_average(case, clause, model, seed)


def _fr(x, default=None):
    if isinstance(x, bool):
        return float(x)
    if isinstance(x, (int, float)):
        return float(x)
    if isinstance(x, str):
        try:
            if "/" in x:
                a, b = x.split("/")
                return int(a) / int(b)
            return float(x)
        except ValueError:
            return default
    return default


def _mk_snapshots(np, T, N, d, rng, timesteps=None, boxes=None):
    import importlib
    RUm = importlib.import_module(RU)
    snaps = []
    for f in range(T):
        if boxes is not None:
            lo, L = boxes[f]
        else:
            lo, L = np.zeros(d), np.ones(d) * 5.0
        bb = np.column_stack([lo, lo + L])
        pos = lo + rng.random((N, d)) * L
        snaps.append(RUm.SingleSnapshot(timestep=int(timesteps[f]) if timesteps is not None else 100 * f, nparticle=N,
                                        particle_type=np.ones(N, dtype=int), positions=pos, boxlength=L.copy(), boxbounds=bb,
                                        realbounds=bb.copy(), hmatrix=np.diag(L)))
    return RUm.Snapshots(nsnapshots=T, snapshots=snaps)


def _replay_time_average(case, clause, model, seed):
    import importlib
    import math

    import numpy as np
    P = importlib.import_module(MOD)
    rng = np.random.default_rng(seed)
    tried = 0
    cands = []
    Tm, Nm = model.get("T"), model.get("N")
    # model first
    if isinstance(Tm, int) and 2 <= Tm <= 60:
        cands.append(("model", Tm, Nm if isinstance(Nm, int) and 1 <= Nm <= 6 else 2, None))
    for w in (1, 2, 3, 4, 5):
        for T in (w, w + 1, w + 3, w + 6):
            if T >= 2:
                cands.append(("edge", T, 2, w))
    for _ in range(60):
        T = int(rng.integers(2, 14))
        cands.append(("rand", T, int(rng.integers(1, 4)), int(rng.integers(1, T + 1))))
    def ts_model(f):
        ent = model.get("TS")
        if isinstance(ent, dict):
            for e in ent.get("__func__") or []:
                if e[0] == f and isinstance(e[1], int):
                    return e[1]
            if isinstance(ent.get("else"), int):
                return ent["else"]
        return None
    for kind, T, N, w in cands:
        step = int(rng.integers(1, 50)) * 10
        ts = [1000 + step * f for f in range(T)]
        if kind == "model" and ts_model(0) is not None and ts_model(1) is not None and ts_model(1) > ts_model(0):
            step = ts_model(1) - ts_model(0)
            ts = [ts_model(0) + step * f for f in range(T)]
        dt = float(rng.choice([0.002, 0.005, 0.25, 1.0]))
        interval = step * dt
        if w is None:
            period = _fr(model.get("period"))
            dtm = _fr(model.get("dt"))
            if period is None or dtm is None or dtm <= 0:
                continue
            dt = dtm
            interval = step * dt
            w = math.floor(period / interval)
            if not (1 <= w <= T):
                continue
        else:
            period = (w + float(rng.choice([0.25, 0.5, 0.75]))) * interval    # away from exact multiples (A1)
        snaps = _mk_snapshots(np, T, N, 2, rng, timesteps=ts)
        Ain = rng.normal(size=(T, N))
        if case == "complex":
            Ain = Ain + 1j * rng.normal(size=(T, N))
        keep = Ain.copy()
        tried += 1
        inputs = {"T": T, "N": N, "timesteps": ts[:3], "dt": dt, "time_period": period, "window": w}
        try:
            R, M = P.time_average(snaps, Ain, time_period=period, dt=dt)
        except Exception as e:
            return {"ran": True, "failed": True, "inputs": inputs, "detail": f"raises {type(e).__name__}: {e}", "searched": tried}
        bad = None
        if R.shape != (T - w, N) or np.asarray(M).shape != (T - w,):
            bad = f"shapes {R.shape}, {np.asarray(M).shape}; expected ({T - w},{N}) and ({T - w},)"
        elif not np.array_equal(keep, Ain):
            bad = "input_property was modified"
        else:
            for n in range(T - w):
                want = sum(keep[n + t] for t in range(w)) / w
                if not np.allclose(R[n], want, rtol=1e-9, atol=1e-12):
                    bad = f"window mean at n={n}: got {R[n].tolist()}, mean of frames {n}..{n + w - 1} is {want.tolist()}"
                    break
                if abs(2 * M[n] - (2 * n + w - 1)) > 1:
                    bad = (f"reported middle index at n={n} is {M[n]}; window frames {n}..{n + w - 1}, central frame "
                           f"{n + (w - 1) // 2}" + (f" or {n + w // 2}" if w % 2 == 0 else "") + f" (all reported: {np.asarray(M).tolist()[:8]})")
                    break
        if bad:
            return {"ran": True, "failed": True, "from_model": kind == "model", "searched": tried, "inputs": inputs, "detail": bad}
    return {"ran": True, "failed": False, "searched": tried, "detail": "real code satisfies every clause on the model inputs and the seeded inputs"}


# ------------------------------------------------------------------------------------------------
# spatial_average

RN = "PyMatterSim.neighbors.read_neighbors.read_neighbors"
_I = z3.IntSort()
CNF = z3.Function("CNF", _I, _I, _I)            # file record p, particle i: number of neighbours listed in the file
NBF = z3.Function("NBF", _I, _I, _I, _I)        # file record p, particle i, position t: listed neighbour id - 1
MAXC = z3.Function("MAXC", _I, _I)              # file record p: largest (truncated) coordination number of the record
NPF = z3.Int("NPF")                             # particles per record of the file
TF = z3.Int("TF")                               # number of records (frames) in the file


def nb_count(p, i, Nmax):
    """coordination number read_neighbors reports: min(listed, Nmax)"""
    return sv.minv(sv.SV(CNF(sv.znum(p), sv.znum(i))), Nmax)


def _file_fact(f):
    """instance of a universally quantified well-formedness fact about the neighbour file (precondition)"""
    facts = cur().facts
    t = sv.zb(f)
    if not any(t.eq(x) for x in facts[-40:]):
        facts.append(t)


def read_neighbors_contract(interp, args, kwargs):
    """callee contract of read_neighbors(f, nparticle, Nmax) on a neighbour-LIST file (header word 'neighborlist', C05):
    requires the handle at a record boundary `pos` < TF of a file whose records have `nparticle` rows;
    returns the int array (nparticle, 1 + maxc): row i = [c, id_1 - 1, .., id_c - 1, 0, ..], c = min(listed, Nmax),
    maxc = max_i c; the handle is advanced by one record (consecutive calls read consecutive frames)."""
    f = args[0]
    nparticle = kwargs.get("nparticle", args[1] if len(args) > 1 else None)
    Nmax = kwargs.get("Nmax", args[2] if len(args) > 2 else 200)
    st = cur()
    cell = st.heap[f.sid]
    if cell.kind != "file":
        raise sv.EngineError("read_neighbors on a non-file value")
    pos = cell.data["pos"]
    st.require(sv.cmp("==", nparticle, sv.SV(NPF)), "call:read_neighbors:pre:nparticle-is-the-file's-particle-number")
    st.require(sv.and_(sv.cmp(">=", pos, 0), sv.cmp("<", pos, sv.SV(TF))), "call:read_neighbors:pre:a-record-is-left-in-the-file")
    st.heap[f.sid] = Content("file", dict(cell.data, pos=A.simp(sv.add(pos, 1))), cell.meta)
    st.events.append(("store", f.sid, st.where, list(st.pc)))
    pz = sv.znum(pos)
    maxc = sv.SV(MAXC(pz))
    _file_fact(sv.and_(sv.cmp(">=", maxc, 0), sv.cmp("<=", maxc, sv.maxv(Nmax, 0))))

    def elem(idx):
        i, col = idx
        c = nb_count(pos, i, Nmax)
        _file_fact(sv.and_(sv.cmp(">=", sv.SV(CNF(pz, sv.znum(i))), 0), sv.cmp("<=", c, maxc)))
        if sv.is_conc(col) and col == 0:
            return c
        t = A.simp(sv.sub(col, 1))
        v = sv.SV(NBF(pz, sv.znum(i), sv.znum(t)))
        # listed ids are particle ids of the same trajectory: 1..nparticle in the file, 0..nparticle-1 after the shift
        _file_fact(sv.implies(sv.and_(sv.cmp(">=", t, 0), sv.cmp("<", t, c)), sv.and_(sv.cmp(">=", v, 0), sv.cmp("<", v, sv.SV(NPF)))))
        return sv.ite(sv.cmp("==", col, 0), c, sv.ite(sv.cmp("<", t, c), v, 0))
    return A.new_arr((nparticle, A.simp(sv.add(maxc, 1))), elem, "int")


class SpatialAverage(Unit):
    module = MOD
    qualname = "spatial_average"
    prop = "C16"
    timeout = 20
    summaries = {RN: read_neighbors_contract}
    solver_opts = {"ext_all": True}     # Σ extensionality also between sums whose bounds are equal only under the path condition

    def cases(self):
        return ["rank0/float", "rank1/float", "rank2/float", "rank1/complex", "rank0/float/outputfile"]

    def setup(self, ctx, case):
        parts = case.split("/")
        rank, dt = int(parts[0][4]), parts[1]
        T, N, Nmax = ctx.int("T"), ctx.int("N"), ctx.int("Nmax")
        ctx.assume(T >= 1)
        ctx.assume(N >= 1)
        ctx.assume(Nmax >= 0)
        ctx.assume(sv.cmp("==", sv.SV(NPF), N))       # the neighbour file belongs to this trajectory
        ctx.assume(sv.cmp(">=", sv.SV(TF), T))
        dims = [ctx.int(f"d{k}") for k in range(rank)]
        for dd in dims:
            ctx.assume(dd >= 1)
        Aarr = ctx.array("A", tuple([T, N] + dims), dt, origin="argument input_property")
        out = "cg.npy" if len(parts) > 2 else ""
        inp = dict(T=T, N=N, Nmax=Nmax, A=Aarr, dims=dims, rank=rank, watch=[Aarr.sid], outputfile=out)
        return [Aarr, "neighborlist.dat"], {"Nmax": Nmax, "outputfile": out}, inp

    def clause_names(self, case):
        return ["shape", "neighbour-mean:self+listed-neighbours/(1+cn)-frame-by-frame", "frame:input-not-written", "saved-file=returned"]

    def ensures(self, ctx, case, inp, out):
        T, N, Nmax, Aarr, dims = inp["T"], inp["N"], inp["Nmax"], inp["A"], inp["dims"]
        res = out.value
        ok = isinstance(res, A.Arr) and res.ndim == 2 + len(dims)
        if not ok:
            yield "shape", False
            return
        yield "shape", sv.and_(*[sv.cmp("==", a, b) for a, b in zip(res.shape, [T, N] + dims)])
        n, i = ctx.int("n"), ctx.int("i")
        tr = [ctx.int(f"a{k}") for k in range(len(dims))]
        rng = _inr((n, T), (i, N), *zip(tr, dims))
        ar = Aarr.reader()
        c = nb_count(n, i, Nmax)                       # record n of the file is used for frame n
        want = sv.div(sv.add(ar(tuple([n, i] + tr)),
                             Sum(0, c, lambda t: ar(tuple([n, sv.SV(NBF(n.t, i.t, sv.znum(t)))] + tr)))), sv.add(1, c))
        yield "neighbour-mean:self+listed-neighbours/(1+cn)-frame-by-frame", sv.implies(rng, sv.cmp("==", res.get(tuple([n, i] + tr)), want))
        yield "frame:input-not-written", len(_stores(out, inp["watch"])) == 0
        saves = [e for e in out.state.trace if e[0] == "np.save"]
        if inp["outputfile"]:
            good = len(saves) == 1 and saves[0][1] == inp["outputfile"]
            if good:
                sa = saves[0][2]
                good = sa.ndim == res.ndim and sv.implies(rng, sv.cmp("==", sa.get(tuple([n, i] + tr)), res.get(tuple([n, i] + tr))))
            yield "saved-file=returned", good
        else:
            yield "saved-file=returned", len(saves) == 0

    def replay(self, case, clause, model, seed):
        return _replay_spatial(case, clause, model, seed)


def _replay_spatial(case, clause, model, seed):
    import importlib
    import os
    import tempfile

    import numpy as np
    P = importlib.import_module(MOD)
    parts = case.split("/")
    rank, dt = int(parts[0][4]), parts[1]
    rng = np.random.default_rng(seed)
    tried = 0
    tmp = tempfile.mkdtemp(prefix="pyvc-c16-")
    try:
        for k in range(120):
            T = int(rng.integers(1, 4))
            N = int(rng.integers(1, 7)) if k % 5 else 1
            Nmax = int(rng.choice([0, 1, 2, 3, 30]))
            dims = [int(rng.integers(1, 4)) for _ in range(rank)]
            Ain = rng.normal(size=[T, N] + dims)
            if dt == "complex":
                Ain = Ain + 1j * rng.normal(size=Ain.shape)
            lists = []
            path = os.path.join(tmp, f"nl{k}.dat")
            with open(path, "w") as f:
                for n in range(T):
                    f.write("id     cn     neighborlist\n")
                    fr = []
                    for i in range(N):
                        cn = int(rng.integers(0, min(N, 5)))
                        nb = [int(x) for x in rng.choice([j for j in range(N) if j != i], size=cn, replace=False)] if cn else []
                        fr.append(nb)
                        f.write("%d %d %s\n" % (i + 1, cn, " ".join(str(j + 1) for j in nb)))
                    lists.append(fr)
            keep = Ain.copy()
            outp = os.path.join(tmp, f"out{k}.npy") if len(parts) > 2 else ""
            tried += 1
            inputs = {"T": T, "N": N, "Nmax": Nmax, "trailing": dims, "neighbours": lists[:2]}
            try:
                R = P.spatial_average(Ain, path, Nmax=Nmax, outputfile=outp)
            except Exception as e:
                return {"ran": True, "failed": True, "inputs": inputs, "detail": f"raises {type(e).__name__}: {e}", "searched": tried}
            bad = None
            if R.shape != keep.shape:
                bad = f"shape {R.shape} != {keep.shape}"
            elif not np.array_equal(keep, Ain):
                bad = "input_property was modified"
            else:
                for n in range(T):
                    for i in range(N):
                        nb = lists[n][i][:Nmax]
                        want = (keep[n, i] + sum((keep[n, j] for j in nb), 0 * keep[n, i])) / (1 + len(nb))
                        if not np.allclose(R[n, i], want, rtol=1e-9, atol=1e-12):
                            bad = f"out[{n},{i}] = {np.asarray(R[n, i]).tolist()}, mean over self and neighbours {nb} is {np.asarray(want).tolist()}"
                            break
                    if bad:
                        break
            if not bad and outp:
                if not os.path.exists(outp) or not np.array_equal(np.load(outp), R):
                    bad = "saved file differs from the returned array"
            if bad:
                return {"ran": True, "failed": True, "searched": tried, "inputs": inputs, "detail": bad}
    finally:
        import shutil
        shutil.rmtree(tmp, ignore_errors=True)
    return {"ran": True, "failed": False, "searched": tried, "detail": "real code satisfies every clause on the seeded inputs"}


UNITS = [TimeAverage(), SpatialAverage()]

MANIFEST = {
    "text": "tbd",
    "note": "tbd",
}
