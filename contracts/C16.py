"""C16 — coarse graining: neighbour mean, Gaussian grid projection, window average.

Functions under contract (real ASTs, re-read every run):
  PyMatterSim.utils.coarse_graining.time_average / spatial_average / gaussian_blurring
  PyMatterSim.utils.funcs.grid_gaussian

The postconditions are the sentences of the property statement / docs/utils.md VII, not the code's formulas:
  time_average      w = floor(period / interval), interval = (timestep_1 - timestep_0) dt;
                    out[n, i] = (1/w) sum_{t<w} A[n+t, i];  reported index = central frame of {n, .., n+w-1}
  spatial_average   out[n, i, ..] = (A[n, i, ..] + sum_{t<c(n,i)} A[n, nb(n,i,t), ..]) / (1 + c(n,i)),
                    (c, nb) = the n-th record of the neighbour file (frame by frame)
  gaussian_blurring grid index: (i, j[, k]) -> flat index is row-major with x slowest, inside [0, prod n), injective;
                    stored point = (X_i, Y_j[, Z_k]), X = equally spaced points spanning the box bounds;
                    value[n, p, ..] = sum_q [ |D| < cut ] exp(-|D|^2 / (2 sigma^2)) / sqrt(2 pi sigma^2) A[n, q, ..],
                    D = minimum image of grid_p - r_q (C02 contract)
"""
import z3

from pyvc import arr as A
from pyvc import sv
from pyvc.sigma import Sum
from pyvc.state import Content, cur
from pyvc.vc import Unit

MOD = "PyMatterSim.utils.coarse_graining"
RU = "PyMatterSim.reader.reader_utils"

NOT_DECIDED = [
    "int(period / interval) when the floating-point quotient of an exact multiple lands just below the integer (A1: floats are reals)",
]
TRUSTED = []


# ------------------------------------------------------------------------------------------------
# symbolic trajectories


def _snapshots(ctx, T, N, d=None, watch=None):
    """Snapshots(nsnapshots=T, snapshots=[SingleSnapshot...]) with a symbolic number T of frames: frame f has
    timestep TS(f), nparticle N, positions POS(f,.,.), boxbounds BB(f,.,.), hmatrix HM(f,.,.) (uninterpreted)"""
    I = z3.IntSort()
    TS = z3.Function("TS", I, I)
    POS = z3.Function("POS", I, I, I, z3.RealSort())
    BB = z3.Function("BB", I, I, I, z3.RealSort())
    HM = z3.Function("HM", I, I, I, z3.RealSort())
    from pyvc.interp import Ref, load_module, new_obj
    cls = load_module(RU).get_class("SingleSnapshot")

    def frame(f):
        fz = sv.znum(f)
        attrs = {"timestep": sv.SV(TS(fz)), "nparticle": N}
        if d is not None:
            def mk(F, shape, what):
                a = A.new_arr(shape, lambda idx, F=F: sv.SV(F(fz, sv.znum(idx[0]), sv.znum(idx[1]))), "float")
                cur().origin[a.sid] = f"argument snapshots.snapshots[.].{what}"
                if watch is not None:
                    watch.append(a.sid)
                return a
            attrs["positions"] = mk(POS, (N, d), "positions")
            attrs["boxbounds"] = mk(BB, (d, 2), "boxbounds")
            attrs["hmatrix"] = mk(HM, (d, d), "hmatrix")
        return new_obj(cls, attrs, frozen=True)
    lst = Ref(cur().alloc(Content("list", A.SeqVal(T, frame))), "list")
    snaps = ctx.obj(RU, "Snapshots", {"nsnapshots": T, "snapshots": lst})
    return snaps, dict(TS=TS, POS=POS, BB=BB, HM=HM)


def _inr(*pairs):
    return sv.and_(*[sv.and_(sv.cmp(">=", x, 0), sv.cmp("<", x, n)) for x, n in pairs])


def _stores(out, sids):
    return [e for e in out.state.events if e[0] == "store" and e[1] in sids]


# ------------------------------------------------------------------------------------------------
# time_average


class TimeAverage(Unit):
    module = MOD
    qualname = "time_average"
    prop = "C16"
    timeout = 20

    def cases(self):
        return ["float", "complex"]

    def setup(self, ctx, case):
        T, N = ctx.int("T"), ctx.int("N")
        ctx.assume(T >= 2)
        ctx.assume(N >= 1)
        snaps, F = _snapshots(ctx, T, N)
        Aarr = ctx.array("A", (T, N), case, origin="argument input_property")
        period, dt = ctx.real("period"), ctx.real("dt")
        ts0, ts1 = sv.SV(F["TS"](z3.IntVal(0))), sv.SV(F["TS"](z3.IntVal(1)))
        ctx.assume(dt > 0)
        ctx.assume(sv.cmp(">", ts1, ts0))
        interval = sv.mul(sv.sub(ts1, ts0), dt)       # the frame interval in time units (statement: "period/interval")
        q = sv.div(period, interval)
        w = sv.floor(q)                               # spec: floor(period/interval)
        ctx.assume(sv.cmp(">=", w, 1))                # a window holds at least one frame
        ctx.assume(sv.cmp("<=", w, T))                # and fits into the trajectory
        inp = dict(T=T, N=N, A=Aarr, w=w, q=q, watch=[Aarr.sid])
        return [snaps, Aarr], {"time_period": period, "dt": dt}, inp

    def clause_names(self, case):
        return ["shape:T-w-windows", "window-mean", "middle-index:central-frame-of-window", "frame:input-not-written"]

    def ensures(self, ctx, case, inp, out):
        T, N, Aarr, w = inp["T"], inp["N"], inp["A"], inp["w"]
        res = out.value
        ok = isinstance(res, tuple) and len(res) == 2 and isinstance(res[0], A.Arr) and isinstance(res[1], A.Arr) \
            and res[0].ndim == 2 and res[1].ndim == 1
        if not ok:
            yield "shape:T-w-windows", False
            return
        R, M = res
        yield "shape:T-w-windows", sv.and_(sv.cmp("==", R.shape[0], sv.sub(T, w)), sv.cmp("==", R.shape[1], N),
                                           sv.cmp("==", M.shape[0], sv.sub(T, w)))
        n, i = ctx.int("n"), ctx.int("i")
        rng = _inr((n, sv.sub(T, w)), (i, N))
        ar = Aarr.reader()
        want = sv.div(Sum(0, w, lambda t: ar((sv.add(n, t), i))), w)
        yield "window-mean", sv.implies(rng, sv.cmp("==", R.get((n, i)), want))
        # central frame of the window {n, .., n+w-1}: |2 m - (2 n + w - 1)| <= 1  (unique for odd w; either middle frame for even w)
        if A.dim_conc(M.shape[0]) and M.shape[0] == 0:
            # zero windows on this path (T - w = 0 by the shape clause): nothing is reported
            yield "middle-index:central-frame-of-window", sv.cmp("<=", sv.sub(T, w), 0)
            yield "frame:input-not-written", len(_stores(out, inp["watch"])) == 0
            return
        m = M.get((n,))
        dev = sv.sub(sv.mul(2, m), sv.add(sv.mul(2, n), sv.sub(w, 1)))
        yield "middle-index:central-frame-of-window", sv.implies(rng, sv.and_(sv.cmp("<=", dev, 1), sv.cmp(">=", dev, -1)))
        yield "frame:input-not-written", len(_stores(out, inp["watch"])) == 0

    def replay(self, case, clause, model, seed):
        return _replay_time_average(case, clause, model, seed)


def _fr(x, default=None):
    if isinstance(x, bool):
        return float(x)
    if isinstance(x, (int, float)):
        return float(x)
    if isinstance(x, str):
        try:
            if "/" in x:
                a, b = x.split("/")
                return int(a) / int(b)
            return float(x)
        except ValueError:
            return default
    return default


def _mk_snapshots(np, T, N, d, rng, timesteps=None, boxes=None):
    import importlib
    RUm = importlib.import_module(RU)
    snaps = []
    for f in range(T):
        if boxes is not None:
            lo, L = boxes[f]
        else:
            lo, L = np.zeros(d), np.ones(d) * 5.0
        bb = np.column_stack([lo, lo + L])
        pos = lo + rng.random((N, d)) * L
        snaps.append(RUm.SingleSnapshot(timestep=int(timesteps[f]) if timesteps is not None else 100 * f, nparticle=N,
                                        particle_type=np.ones(N, dtype=int), positions=pos, boxlength=L.copy(), boxbounds=bb,
                                        realbounds=bb.copy(), hmatrix=np.diag(L)))
    return RUm.Snapshots(nsnapshots=T, snapshots=snaps)


def _replay_time_average(case, clause, model, seed):
    import importlib
    import math

    import numpy as np
    P = importlib.import_module(MOD)
    rng = np.random.default_rng(seed)
    tried = 0
    cands = []
    Tm, Nm = model.get("T"), model.get("N")
    # model first
    if isinstance(Tm, int) and 2 <= Tm <= 60:
        cands.append(("model", Tm, Nm if isinstance(Nm, int) and 1 <= Nm <= 6 else 2, None))
    for w in (1, 2, 3, 4, 5):
        for T in (w, w + 1, w + 3, w + 6):
            if T >= 2:
                cands.append(("edge", T, 2, w))
    for _ in range(60):
        T = int(rng.integers(2, 14))
        cands.append(("rand", T, int(rng.integers(1, 4)), int(rng.integers(1, T + 1))))
    def ts_model(f):
        ent = model.get("TS")
        if isinstance(ent, dict):
            for e in ent.get("__func__") or []:
                if e[0] == f and isinstance(e[1], int):
                    return e[1]
            if isinstance(ent.get("else"), int):
                return ent["else"]
        return None
    for kind, T, N, w in cands:
        step = int(rng.integers(1, 50)) * 10
        ts = [1000 + step * f for f in range(T)]
        if kind == "model" and ts_model(0) is not None and ts_model(1) is not None and ts_model(1) > ts_model(0):
            step = ts_model(1) - ts_model(0)
            ts = [ts_model(0) + step * f for f in range(T)]
        dt = float(rng.choice([0.002, 0.005, 0.25, 1.0]))
        interval = step * dt
        if w is None:
            period = _fr(model.get("period"))
            dtm = _fr(model.get("dt"))
            if period is None or dtm is None or dtm <= 0:
                continue
            dt = dtm
            interval = step * dt
            w = math.floor(period / interval)
            if not (1 <= w <= T):
                continue
        else:
            period = (w + float(rng.choice([0.25, 0.5, 0.75]))) * interval    # away from exact multiples (A1)
        snaps = _mk_snapshots(np, T, N, 2, rng, timesteps=ts)
        Ain = rng.normal(size=(T, N))
        if case == "complex":
            Ain = Ain + 1j * rng.normal(size=(T, N))
        keep = Ain.copy()
        tried += 1
        inputs = {"T": T, "N": N, "timesteps": ts[:3], "dt": dt, "time_period": period, "window": w}
        try:
            R, M = P.time_average(snaps, Ain, time_period=period, dt=dt)
        except Exception as e:
            return {"ran": True, "failed": True, "inputs": inputs, "detail": f"raises {type(e).__name__}: {e}", "searched": tried}
        bad = None
        if R.shape != (T - w, N) or np.asarray(M).shape != (T - w,):
            bad = f"shapes {R.shape}, {np.asarray(M).shape}; expected ({T - w},{N}) and ({T - w},)"
        elif not np.array_equal(keep, Ain):
            bad = "input_property was modified"
        else:
            for n in range(T - w):
                want = sum(keep[n + t] for t in range(w)) / w
                if not np.allclose(R[n], want, rtol=1e-9, atol=1e-12):
                    bad = f"window mean at n={n}: got {R[n].tolist()}, mean of frames {n}..{n + w - 1} is {want.tolist()}"
                    break
                if abs(2 * M[n] - (2 * n + w - 1)) > 1:
                    bad = (f"reported middle index at n={n} is {M[n]}; window frames {n}..{n + w - 1}, central frame "
                           f"{n + (w - 1) // 2}" + (f" or {n + w // 2}" if w % 2 == 0 else "") + f" (all reported: {np.asarray(M).tolist()[:8]})")
                    break
        if bad:
            return {"ran": True, "failed": True, "from_model": kind == "model", "searched": tried, "inputs": inputs, "detail": bad}
    return {"ran": True, "failed": False, "searched": tried, "detail": "real code satisfies every clause on the model inputs and the seeded inputs"}


UNITS = [TimeAverage()]

MANIFEST = {
    "text": "tbd",
    "note": "tbd",
}
