"""C09 — 3-D bond-orientational order equals Steinhardt's definitions (class boo_3d of PyMatterSim/static/boo.py).

Functions under contract: boo_3d.qlm_Qlm, ql_Ql, sij_ql_Ql, w_W_cap, spatial_corr, time_corr, utils.funcs.Wignerindex.
Callee contracts used (not bodies): read_neighbors (C05), remove_pbc (C02), sph_harm_l (C08), conditional_gr (C13),
time_correlation (C14).

Spec (docs/boo_3d.md eq. 1-9 and the property statement).  Frame n, particle i, cn = NB(n,i,0) >= 1 neighbours
nb_j = NB(n,i,1+j) (j < cn), bond b = D_n(i, nb_j) (minimum image, C02), theta = arccos(b_z/|b|), phi = atan2(b_y, b_x):
  q_lm(n,i)  = sum_{j<cn} omega_j Y_lm(theta_j, phi_j),  omega_j = 1/cn   or   w_j / sum_{j'<cn} w_j'        (eq. 1, 2)
  Q_lm(n,i)  = (q_lm(n,i) + sum_{j<cn} q_lm(n, nb_j)) / (1 + cn)                                            (eq. 3)
  q_l        = sqrt(4 pi/(2l+1) sum_m |q_lm|^2)                                                               (eq. 4)
  s(i,j)     = Re(sum_m q_lm(i) conj q_lm(j)) / (|q(i)| |q(j)|);   count_i = #{j < cn : s(i,nb_j) > c}         (eq. 5)
  w_l        = sum_{m1+m2+m3=0} W3j(l,m1,m2,m3) Re(q_lm1 q_lm2 q_lm3),   w^_l = w_l (sum_m |q_lm|^2)^(-3/2)   (eq. 6, 7)
  G_l, C_l   = the callee contracts of conditional_gr / time_correlation applied to the vector field q_lm (eq. 8, 9)
The m axis is index m + l of an axis of length 2l+1.  Y_lm is the definition of C08 (abstract function of l, m, polar,
azimuth: this property needs only that sph_harm_l returns that table, plus the addition theorem for the bounds).
"""
import z3

from contracts.common import PBC, Traj, min_image
from pyvc import arr as A
from pyvc import sigma, sv
from pyvc.sigma import Sum
from pyvc.vc import Unit

MOD = "PyMatterSim.static.boo"
CLS = "boo_3d"

NOT_DECIDED = []
TRUSTED = []


def _sum(xs):
    acc = 0
    for x in xs:
        acc = sv.add(acc, x)
    return acc


def _abs2(c):
    c = sv.as_cx(c)
    return sv.add(sv.mul(c.re, c.re), sv.mul(c.im, c.im))


# ---- self object ----------------------------------------------------------------------------------------

def _qfield(ctx, name, T, N, M):
    """symbolic complex field name(n, i, k): the object invariant established by __init__ (smallqlm / largeQlm)"""
    return ctx.array(name, (T, N, M), "complex", origin=f"self.{name}")


def _boo_self(ctx, l, T, N, extra=None):
    M = A.simp(sv.add(sv.mul(2, l), 1))
    small = _qfield(ctx, "smallqlm", T, N, M)
    large = _qfield(ctx, "largeQlm", T, N, M)
    attrs = dict(l=l, smallqlm=small, largeQlm=large, nparticle=N)
    attrs.update(extra or {})
    return ctx.obj(MOD, CLS, attrs), small, large, M


def _sym_l(ctx):
    l = ctx.int("l")
    ctx.assume(l >= 1)
    return l


# ---- ql_Ql ----------------------------------------------------------------------------------------------

def ql_spec(q, l, M, n, i):
    """sqrt(4 pi/(2l+1) sum_m |q_lm|^2)"""
    s = Sum(0, M, lambda k: _abs2(q.get((n, i, k))))
    return sv.sqrt(sv.mul(sv.div(sv.mul(4, sv.PI), sv.add(sv.mul(2, l), 1)), s))


class QlQl(Unit):
    """boo_3d.ql_Ql(coarse_graining, outputfile)[n, i] = sqrt(4 pi/(2l+1) sum_m |q_lm(n,i)|^2) of the selected field"""
    module = MOD
    qualname = f"{CLS}.ql_Ql"
    prop = "C09"
    timeout = 20

    def cases(self):
        return [f"{cg}/{of}" for cg in ("local", "coarse") for of in ("nofile", "npy", "dat", "txt")]

    def setup(self, ctx, case):
        cg, of = case.split("/")
        l = _sym_l(ctx)
        T, N = ctx.int("T"), ctx.int("N")
        ctx.assume(T >= 1)
        ctx.assume(N >= 1)
        o, small, large, M = _boo_self(ctx, l, T, N)
        outputfile = {"nofile": None, "npy": "ql.npy", "dat": "ql.dat", "txt": "ql.txt"}[of]
        inp = dict(l=l, T=T, N=N, M=M, q=large if cg == "coarse" else small, other=small if cg == "coarse" else large,
                   outputfile=outputfile, n=ctx.int("n"), i=ctx.int("i"))
        return [o], dict(coarse_graining=(cg == "coarse"), outputfile=outputfile), inp

    def clause_names(self, case):
        return ["shape=(T,N)", "q_l=sqrt(4pi/(2l+1)*sum_m|q_lm|^2)", "q_l>=0", "file=returned"]

    def ensures(self, ctx, case, inp, out):
        res = out.value
        T, N, n, i = inp["T"], inp["N"], inp["n"], inp["i"]
        ok = isinstance(res, A.Arr) and res.ndim == 2 and A.dim_eq_syntactic(res.shape[0], T) and A.dim_eq_syntactic(res.shape[1], N)
        yield "shape=(T,N)", bool(ok)
        if not ok:
            return
        inr = sv.and_(sv.cmp(">=", n, 0), sv.cmp("<", n, T), sv.cmp(">=", i, 0), sv.cmp("<", i, N))
        got = res.get((n, i))
        want = ql_spec(inp["q"], inp["l"], inp["M"], n, i)
        yield "q_l=sqrt(4pi/(2l+1)*sum_m|q_lm|^2)", sv.implies(inr, sv.cmp("==", got, want))
        yield "q_l>=0", sv.implies(inr, sv.cmp(">=", got, 0))
        yield "file=returned", _file_clause(out, inp["outputfile"], res, (n, i), inr)

    def replay(self, case, clause, model, seed):
        return _replay_boo("ql_Ql", case, clause, model, seed)


def _file_clause(out, outputfile, res, idx, inr, kinds=("np.save", "np.savetxt")):
    """np.save always when a file name is given, np.savetxt in addition for .dat/.txt; the saved array is the returned one"""
    writes = [e for e in out.state.trace if e[0] in kinds]
    if outputfile is None:
        return len(writes) == 0
    want = ["np.save"] + (["np.savetxt"] if outputfile.endswith((".dat", ".txt")) else [])
    if [e[0] for e in writes] != want or any(e[1] != outputfile for e in writes):
        return False
    eqs = []
    for e in writes:
        a = e[2]
        if not (isinstance(a, A.Arr) and a.ndim == res.ndim and all(A.dim_eq_syntactic(x, y) for x, y in zip(a.shape, res.shape))):
            return False
        eqs.append(sv.cmp("==", a.get(idx), res.get(idx)))
    return sv.implies(inr, sv.and_(*eqs))


def _replay_boo(what, case, clause, model, seed):
    return {"ran": False, "failed": False, "error": "replay harness not written yet"}



# ---- the neighbour / weight files: callee contract of read_neighbors (verified under C05) ----------------------------

NEIGHBORFILE, WEIGHTSFILE = "neighbor.dat", "weights.dat"
I_, R_ = z3.IntSort(), z3.RealSort()
NB = z3.Function("NB", I_, I_, I_, I_)        # NB(frame, i, 0) = cn_i ;  NB(frame, i, 1+j) = zero-based index of the j-th neighbour
WT = z3.Function("WT", I_, I_, I_, R_)        # WT(frame, i, 1+j) = weight of the j-th neighbour (0 beyond cn_i) ; WT(frame,i,0) = cn_i
MAXCN = z3.Function("MAXCN", I_, I_)          # largest coordination number of the frame = number of neighbour columns returned


def nb(s, i, k):
    return sv.SV(NB(sv.znum(s), sv.znum(i), sv.znum(k)))


def wt(s, i, k):
    return sv.SV(WT(sv.znum(s), sv.znum(i), sv.znum(k)))


def neighbour_file_facts(ctx, N, Nmax, weights=False):
    """documented layout of the array returned by read_neighbors (docstring of read_neighbors, docs/neighbors.md):
    column 0 = coordination number, 1 <= cn_i <= MAXCN(frame) <= Nmax; columns 1..cn_i zero-based particle indices in [0, N);
    the unoccupied positions are padded with 0.  The property's quantifier: every particle has >= 1 neighbour."""
    Nz, Mz = sv.znum(N), sv.znum(Nmax)
    ctx.array_fact("NB", lambda s, i, k: z3.And(
        NB(s, i, 0) >= 1, NB(s, i, 0) <= MAXCN(s), MAXCN(s) <= Mz,
        z3.Implies(z3.And(k >= 1, k <= NB(s, i, 0)), z3.And(NB(s, i, k) >= 0, NB(s, i, k) < Nz)),
        z3.Implies(k > NB(s, i, 0), NB(s, i, k) == 0)))
    ctx.array_fact("MAXCN", lambda s: z3.And(MAXCN(s) >= 1, MAXCN(s) <= Mz))
    if weights:
        # "this file should be consistent with neighborfile": same coordination numbers; weights (e.g. Voronoi face areas) positive
        ctx.array_fact("WT", lambda s, i, k: z3.And(
            z3.Implies(z3.And(k >= 1, k <= NB(s, i, 0)), WT(s, i, k) > 0),
            z3.Implies(k > NB(s, i, 0), WT(s, i, k) == 0),
            WT(s, i, 0) == z3.ToReal(NB(s, i, 0))))


def read_neighbors_summary(T):
    """callee contract: read_neighbors(f, nparticle, Nmax) consumes the next frame of the file behind the handle f and returns
    the (nparticle, 1 + MAXCN(frame)) array of that frame (int32 for a neighbour list, float for any other property file);
    requires that the file still has a frame (frame < T) — consecutive calls deliver consecutive frames"""
    def summ(interp, args, kwargs):
        from pyvc.state import cur
        f, npart = args[0], args[1]
        path = interp.getattr(f, "path")
        frame = interp.getattr(f, "frames_read")
        cur().require(sv.and_(sv.cmp(">=", frame, 0), sv.cmp("<", frame, T)), "call:read_neighbors:pre:file-has-another-frame")
        interp.setattr(f, "frames_read", A.simp(sv.add(frame, 1)))
        cols = A.simp(sv.add(sv.SV(MAXCN(sv.znum(frame))), 1))
        if path == NEIGHBORFILE:
            return A.new_arr((npart, cols), A._memo(lambda idx: nb(frame, idx[0], idx[1])), "int")
        if path == WEIGHTSFILE:
            return A.new_arr((npart, cols), A._memo(lambda idx: wt(frame, idx[0], idx[1])), "float")
        raise sv.EngineError(f"read_neighbors summary: unknown file {path!r}")
    return summ


def sph_harm_l_summary(interp, args, kwargs):
    """callee contract (C08 Dispatch): sph_harm_l(l, theta, phi)[k] = Y_{l,k-l}(polar = theta, azimuth = phi), length 2l+1, l >= 1"""
    from contracts.C08 import Y_abstract
    from pyvc.state import cur
    l, theta, phi = args
    cur().require(sv.cmp(">=", l, 1), "call:sph_harm_l:pre:l>=1")
    n = A.simp(sv.add(sv.mul(2, l), 1))
    return A.new_arr((n,), A._memo(lambda idx: Y_abstract(l, A.simp(sv.sub(idx[0], l)), theta, phi)), "complex")


def bond_angles(tr, n, i, j, p):
    """(theta, phi) of the minimum-image bond from particle i to particle j in frame n"""
    D = min_image(tr, n, i, j, p)
    r = sv.sqrt(_sum([sv.mul(x, x) for x in D]))
    return sv.arccos(sv.div(D[2], r)), sv.atan2(D[1], D[0])


def Y_bond(inp, n, i, slot, k):
    """Y_{l,k-l} of the bond from i to its neighbour in column `slot` (1-based column of the neighbour array)"""
    from contracts.C08 import Y_abstract
    th, ph = bond_angles(inp["tr"], n, i, nb(n, i, slot), inp["p"])
    return Y_abstract(inp["l"], A.simp(sv.sub(k, inp["l"])), th, ph)


def q_spec(inp, n, i, k):
    """eq. (1): q_lm(n,i) = (1/cn) sum_{j<cn} Y_lm(bond j);   eq. (2): q_lm(n,i) = sum_{j<cn} (w_j / sum_j' w_j') Y_lm(bond j)"""
    cn = nb(n, i, 0)
    if not inp["weighted"]:
        return sv.div(Sum(0, cn, lambda j: Y_bond(inp, n, i, A.simp(sv.add(1, j)), k)), cn)
    tot = Sum(0, cn, lambda jj: wt(n, i, A.simp(sv.add(1, jj))))
    return Sum(0, cn, lambda j: sv.mul(Y_bond(inp, n, i, A.simp(sv.add(1, j)), k), sv.div(wt(n, i, A.simp(sv.add(1, j))), tot)))


def Q_spec(inp, qfn, n, i, k):
    """eq. (3): Q_lm(n,i) = (q_lm(n,i) + sum_{j<cn} q_lm(n, nb_j)) / (1 + cn)"""
    cn = nb(n, i, 0)
    tot = sv.add(qfn(n, i, k), Sum(0, cn, lambda j: qfn(n, nb(n, i, A.simp(sv.add(1, j))), k)))
    return sv.div(tot, sv.add(1, cn))


class QlmQlm(Unit):
    """boo_3d.qlm_Qlm(): returns (q, Q), both of shape (T, N, 2l+1), q[n,i,m+l] = eq. (1)/(2), Q[n,i,m+l] = eq. (3)"""
    module = MOD
    qualname = f"{CLS}.qlm_Qlm"
    prop = "C09"
    timeout = 30
    solver_opts = {"rounds": 4}

    def cases(self):
        return ["unweighted", "weighted"]

    @property
    def summaries(self):
        return self._summ

    def __init__(self):
        self._summ = {}

    def setup(self, ctx, case):
        from pyvc.libext.C09 import install_open
        from contracts.C02 import _inv_spec
        install_open()
        weighted = case == "weighted"
        tr = Traj(ctx, 3, same_cell=False)
        T, N = tr.T, tr.N
        l = _sym_l(ctx)
        Nmax = ctx.int("Nmax")
        ctx.assume(Nmax >= 1)
        p = [ctx.int(f"ppp_{k}") for k in range(3)]
        for k in range(3):
            ctx.assume(sv.or_(sv.cmp("==", p[k], 0), sv.cmp("==", p[k], 1)))
        ppp = A.from_nested(p, "int")
        ctx.array_fact("HM", lambda s, a, b: sv.zb(sv.cmp("!=", _inv_spec(tr.Hm(sv.SV(s)), 3)[0], 0)))
        neighbour_file_facts(ctx, N, Nmax, weights=weighted)
        self._summ.clear()
        self._summ.update(PBC)
        self._summ["PyMatterSim.neighbors.read_neighbors.read_neighbors"] = read_neighbors_summary(T)
        self._summ["PyMatterSim.utils.spherical_harmonics.sph_harm_l"] = sph_harm_l_summary
        ctx.interp.summaries = dict(self._summ)
        o = ctx.obj(MOD, CLS, dict(snapshots=tr.snapshots(), l=l, neighborfile=NEIGHBORFILE, weightsfile=WEIGHTSFILE if weighted else None,
                                   ppp=ppp, Nmax=Nmax, nparticle=N))
        inp = dict(tr=tr, T=T, N=N, l=l, p=p, weighted=weighted, M=A.simp(sv.add(sv.mul(2, l), 1)),
                   n=ctx.int("n"), i=ctx.int("i"), k=ctx.int("k"))
        return [o], {}, inp

    def clause_names(self, case):
        return ["returns-(q,Q)-of-shape-(T,N,2l+1)", "q_lm=weighted-mean-of-Y_lm-over-bonds", "Q_lm=(q_i+sum_j-q_j)/(1+cn)"]

    def ensures(self, ctx, case, inp, out):
        res = out.value
        T, N, M, n, i, k = inp["T"], inp["N"], inp["M"], inp["n"], inp["i"], inp["k"]
        ok = isinstance(res, tuple) and len(res) == 2 and all(
            isinstance(a, A.Arr) and a.ndim == 3 and a.dtype == "complex" and A.dim_eq_syntactic(a.shape[0], T)
            and A.dim_eq_syntactic(a.shape[1], N) and A.dim_eq_syntactic(a.shape[2], M) for a in res)
        yield "returns-(q,Q)-of-shape-(T,N,2l+1)", bool(ok)
        if not ok:
            return
        small, large = res
        inr = sv.and_(sv.cmp(">=", n, 0), sv.cmp("<", n, T), sv.cmp(">=", i, 0), sv.cmp("<", i, N), sv.cmp(">=", k, 0), sv.cmp("<", k, M))
        got = sv.as_cx(small.get((n, i, k)))
        want = sv.as_cx(q_spec(inp, n, i, k))
        # weighted: the code sums the whole zero-padded row of the weight array; the definition sums the cn_i weights (zero-tail rule)
        qopts = {"solver_opts": {"rounds": 4, "ext_tail": True}} if inp["weighted"] else {}
        yield "q_lm=weighted-mean-of-Y_lm-over-bonds", sv.implies(inr, sv.and_(sv.cmp("==", got.re, want.re), sv.cmp("==", got.im, want.im))), qopts
        # eq. (3) relates the two returned arrays: Q is the mean of the returned q over the particle and its neighbours
        gotQ = sv.as_cx(large.get((n, i, k)))
        wantQ = sv.as_cx(Q_spec(inp, lambda a, b, c: small.get((a, b, c)), n, i, k))
        yield "Q_lm=(q_i+sum_j-q_j)/(1+cn)", sv.implies(inr, sv.and_(sv.cmp("==", gotQ.re, wantQ.re), sv.cmp("==", gotQ.im, wantQ.im)))

    def replay(self, case, clause, model, seed):
        return _replay_boo("qlm_Qlm", case, clause, model, seed)


UNITS = [QlQl(), QlmQlm()]

MANIFEST = {"text": "", "note": ""}
