"""C09 — 3-D bond-orientational order equals Steinhardt's definitions (class boo_3d of PyMatterSim/static/boo.py).

Functions under contract: boo_3d.__init__, qlm_Qlm, ql_Ql, sij_ql_Ql, w_W_cap, spatial_corr, time_corr, utils.funcs.Wignerindex.
Callee contracts used (not bodies): read_neighbors (C05), remove_pbc (C02), sph_harm_l (C08), conditional_gr (C13),
time_correlation (C14).

Spec (docs/boo_3d.md eq. 1-9 and the property statement).  Frame n, particle i, cn = NB(n,i,0) >= 1 neighbours
nb_j = NB(n,i,1+j) (j < cn), bond b = D_n(i, nb_j) (minimum image, C02), theta = arccos(b_z/|b|), phi = atan2(b_y, b_x):
  q_lm(n,i)  = sum_{j<cn} omega_j Y_lm(theta_j, phi_j),  omega_j = 1/cn   or   w_j / sum_{j'<cn} w_j'        (eq. 1, 2)
  Q_lm(n,i)  = (q_lm(n,i) + sum_{j<cn} q_lm(n, nb_j)) / (1 + cn)                                            (eq. 3)
  q_l        = sqrt(4 pi/(2l+1) sum_m |q_lm|^2)                                                               (eq. 4)
  s(i,j)     = Re(sum_m q_lm(i) conj q_lm(j)) / (|q(i)| |q(j)|);   count_i = #{j < cn : s(i,nb_j) > c}         (eq. 5)
  w_l        = sum_{m1+m2+m3=0} W3j(l,m1,m2,m3) Re(q_lm1 q_lm2 q_lm3),   w^_l = w_l (sum_m |q_lm|^2)^(-3/2)   (eq. 6, 7)
  spatial_corr = frame mean of conditional_gr(frame n, q_lm[n], 'vector', ppp, rdelta): columns r, gr, gA;  G_l(r) = 4 pi/(2l+1) gA/gr (eq. 8)
  time_corr    = time_correlation(trajectory, q_lm, dt) rescaled by 4 pi/(2l+1) and divided by its row 0:  C(k)/C(0)      (eq. 9, = 1 at t = 0)
The m axis is index m + l of an axis of length 2l+1.  Y_lm is the definition of C08 (abstract function of l, m, polar,
azimuth: this property needs only that sph_harm_l returns that table, plus the addition theorem for the bounds).
"""
import z3

from contracts.common import PBC, Traj, min_image
from pyvc import arr as A
from pyvc import sigma, sv
from pyvc.sigma import Sum
from pyvc.vc import Unit

MOD = "PyMatterSim.static.boo"
CLS = "boo_3d"

NOT_DECIDED = [
    "eq. (8), (9) of docs/boo_3d.md as printed against the returned frames (documentation looseness, not judged a code defect; details in "
    "design_notes/C09.md): spatial_corr returns the library's usual ingredients r, gr, gA (docs/gr.md: 'the spatial correlation function "
    "is g_A(r)/g(r)', the golden test divides gA by gr itself) — no returned column is G_l(r), and the prefactor 4 pi/(2l+1) of eq. (8) is "
    "never applied: G_l(r_b) = 4 pi/(2l+1) gA(b)/gr(b) (lemma eq(8): the quotient of the two returned frame means is the pair average "
    "pooled over the frames); time_corr is normalised to exactly 1 at t = 0 (as its golden test and C14 say), whereas eq. (9) as printed "
    "puts 4 pi/(2l+1) in front of an already normalised ratio (it would give C_l(0) = 4 pi/(2l+1)): the factor cancels in the code (lemma eq(9))",
    "the values of conditional_gr and time_correlation themselves for a complex vector field of 2l+1 components: they enter through the "
    "callee contracts; C13 proves conditional_gr's contract for complex vector fields with 2 or 3 components (the component loop is the same "
    "numpy reduction for every width), C14 proves time_correlation's for a symbolic number of components; both callee units are re-verified "
    "with this check",
    "0 <= q_l <= 1 and |s_ij| <= 1 as statements about the returned arrays for every neighbour count: proved as lemmas on the spec "
    "(Lagrange identity for l = 1..12; convexity identity, induction step and base for q_l); the induction over the number of bonds, "
    "the linearity of the m-sum and the addition theorem for l > 10 are not mechanised (no Lean lemma library in this build)",
    "reference values of perfect fcc/bcc/hcp/sc/icosahedral environments (instances, not a for-all statement); rotation invariance (C07)",
    "values of the Wigner 3-j symbols (sympy); w_l for degrees other than l = 2, 3, 4, 6 (w_W_cap is proved for these concrete degrees: the "
    "loop over the (2l+1)^3 index triples of Wignerindex is executed, not summarised; for l = 8, 10, 12 the loop-step goals over the "
    "resulting polynomials (hundreds of cubic terms) exceed the quick-tier solver budget; the replay runs l = 2, 4); the characters "
    "np.savetxt produces for the outputsij file (proved: the written array is the returned one, header 'id CN sij', comments '', format = "
    "'%d %d ' + maxcn times '%.6f ', one format per column; the rendering of a number by a format is numpy's)",
    "float32 storage of s_ij (A1: floats are reals; the replay compares s_ij with tolerance 2e-6); NaN for particles without neighbour "
    "or with zero weight sum (excluded by the property's quantifier: every particle has >= 1 neighbour, positive weights); bin membership "
    "of pair distances within one ulp of a bin edge (C13); a time correlation whose lag-zero value is exactly 0 (precondition, as in C14)",
]
TRUSTED = [
    "callee contract of read_neighbors (C05): frame k of the file on the k-th call; (N, 1+MAXCN) array, column 0 = cn_i in [1, MAXCN] with "
    "MAXCN <= Nmax, columns 1..cn_i zero-based indices in [0, N) (int) resp. positive weights (float), zero padding beyond cn_i; the weight "
    "file has the coordination numbers of the neighbour file",
    "callee contract of sph_harm_l (C08 Dispatch): entry k of the returned table of length 2l+1 is Y_{l,k-l}(polar, azimuth); of remove_pbc (C02)",
    "callee contract of conditional_gr (C13, complex vector field, conditiontype 'vector'): requires N >= 2, rdelta > 0, every box length >= "
    "2 rdelta, invertible cell, ppp in {0,1}^3; returns a fresh frame with columns r, gr, gA and int(Lmin/2/rdelta) rows, r[b] = (b+1) rdelta "
    "- rdelta/2, gr[b] / gA[b] = CGR(frame, b, column): the value conditional_gr returns for exactly the arguments checked at the call "
    "(relational table; its closed form 2 V cnt/(N^2 shell_b) is C13's)",
    "callee contract of time_correlation (C14, rank-3 series): frame (t, time_corr) with T rows, t[k] = (ts_k - ts_0) dt, time_corr[k] = "
    "C(k)/C(0) with C the origin-averaged (evenly spaced frames, T >= 2) or first-origin autocorrelation Re sum_i sum_m A[n0+k,i,m] "
    "conj A[n0,i,m], time_corr[0] = 1; requires C(0) != 0; writes its table when given an output file; which of the two spacings applies "
    "is an unconstrained boolean here (both are covered)",
    "object invariant of boo_3d (unit Init: attributes = arguments, smallqlm / largeQlm = the pair returned by qlm_Qlm; the two asserts of "
    "__init__: every frame has the particle number and the box lengths of frame 0 — a failing assert is a raising path outside the "
    "statement's inputs): in the units of the other methods the fields are arbitrary complex (T, N, 2l+1) arrays and BL(s, c) = BL(0, c)",
    "open() returns a handle whose only state is the number of frames consumed (pyvc/libext/C09.py); close() has no effect on the results",
    "np.arctan2, np.arccos element-wise (uninterpreted with axioms), np.linalg.norm, np.concatenate(axis=0) of equally shaped items, "
    "np.column_stack, np.ravel/reshape row-major, np.prod over a concrete axis, pandas DataFrame(2-D array, columns) / to_csv = write event, "
    "DataFrame arithmetic (0 + frame, frame + frame of equal columns and length, frame / scalar: element-wise per column), column `*=` / "
    "`/=` in place, .loc[row, column] = the scalar stored there, sympy wigner_3j(...).evalf() = uninterpreted real function W3J of its six arguments",
    "Sigma rules of pyvc/axioms.py: unfold, extensionality, zero tail (same lower bound, summand 0 beyond the shorter range), zero body "
    "(counting sums); loop summaries (accumulation, guarded accumulation with hoisted guard / Kronecker-delta collapse, scatter store, "
    "append of a fresh array, object attribute advanced per iteration) are validated by loop:init / loop:step obligations; the written "
    "invariant of the spatial_corr frame loop by init / step obligations generated from executions of the real body",
    "solver accelerator used for w_W_cap: nonlinear products as uninterpreted functions (pyvc/solve.py _try_uf_abstraction; an unsat of the "
    "abstraction is an unsat of the original)",
    "pyvc/libext/C09.py: str * n for a symbolic integer n and concatenation of such strings (RepStr: literal pieces with repetition counts); "
    "np.savetxt(path, X, fmt=<multi-format string>) requires one % format per column (side obligation) and is a write event; int(x) of a real "
    "that is syntactically a float copy of an integer is that integer; np.concatenate(axis=0) of a symbolic list of (n, c) items: row r is row "
    "r - q n of item q, q the Euclidean quotient of r by n (uninterpreted EUCLID_QUOT with the axiom 0 <= r - q n < n, n > 0); ndarray.max over "
    "a symbolic axis: attained at a witness index, upper bound of every element (instantiated at row n*N+i in the clause maxcn:bounds)",
    "sum_{j<cn} a = cn a and linearity of finite sums in the lemmas (equal weights, q_l bound); induction over the frames in lemma eq(8)",
]


def _sum(xs):
    acc = 0
    for x in xs:
        acc = sv.add(acc, x)
    return acc


def _abs2(c):
    c = sv.as_cx(c)
    return sv.add(sv.mul(c.re, c.re), sv.mul(c.im, c.im))


# ---- self object ----------------------------------------------------------------------------------------

def _qfield(ctx, name, T, N, M):
    """symbolic complex field name(n, i, k): the object invariant established by __init__ (smallqlm / largeQlm)"""
    return ctx.array(name, (T, N, M), "complex", origin=f"self.{name}")


def _boo_self(ctx, l, T, N, extra=None):
    M = A.simp(sv.add(sv.mul(2, l), 1))
    small = _qfield(ctx, "smallqlm", T, N, M)
    large = _qfield(ctx, "largeQlm", T, N, M)
    attrs = dict(l=l, smallqlm=small, largeQlm=large, nparticle=N)
    attrs.update(extra or {})
    ctx._boo_qsids = (small.sid, large.sid)
    return ctx.obj(MOD, CLS, attrs), small, large, M


FRAME_Q = "frame:the-q_lm/Q_lm-arrays-held-by-the-object-are-not-written"


def _with_object_frame(cls):
    """every query method of boo_3d leaves the vectors computed at construction untouched: later calls on the same object (q_l, w_l,
    correlations) read them — a method that rescales them in place changes what the object means (multi-step sequences)"""
    cn, en = cls.clause_names, cls.ensures

    def clause_names(self, case):
        return list(cn(self, case)) + [FRAME_Q]

    def ensures(self, ctx, case, inp, out):
        yield from en(self, ctx, case, inp, out)
        sids = getattr(ctx, "_boo_qsids", None)
        if not sids:
            yield FRAME_Q, False
            return
        ev = [e for e in out.state.events if e[0] == "store" and e[1] in sids]
        if not ev:
            yield FRAME_Q, True
        for e in ev:
            yield FRAME_Q, (z3.Not(z3.And(*e[3])) if e[3] else False)
    cls.clause_names, cls.ensures = clause_names, ensures
    return cls


def _sym_l(ctx):
    l = ctx.int("l")
    ctx.assume(l >= 1)
    return l


# ---- ql_Ql ----------------------------------------------------------------------------------------------

def ql_spec(q, l, M, n, i):
    """sqrt(4 pi/(2l+1) sum_m |q_lm|^2)"""
    s = Sum(0, M, lambda k: _abs2(q.get((n, i, k))))
    return sv.sqrt(sv.mul(sv.div(sv.mul(4, sv.PI), sv.add(sv.mul(2, l), 1)), s))


class QlQl(Unit):
    loop_opts = {"cond_acc": "guarded-first"}      # guarded accumulations: guard hoisted out of the sum / Kronecker collapse
    """boo_3d.ql_Ql(coarse_graining, outputfile)[n, i] = sqrt(4 pi/(2l+1) sum_m |q_lm(n,i)|^2) of the selected field"""
    module = MOD
    qualname = f"{CLS}.ql_Ql"
    prop = "C09"
    timeout = 20

    def cases(self):
        return [f"{cg}/{of}" for cg in ("local", "coarse") for of in ("nofile", "npy", "dat", "txt")]

    def setup(self, ctx, case):
        cg, of = case.split("/")
        l = _sym_l(ctx)
        T, N = ctx.int("T"), ctx.int("N")
        ctx.assume(T >= 1)
        ctx.assume(N >= 1)
        o, small, large, M = _boo_self(ctx, l, T, N)
        outputfile = {"nofile": None, "npy": "ql.npy", "dat": "ql.dat", "txt": "ql.txt"}[of]
        inp = dict(l=l, T=T, N=N, M=M, q=large if cg == "coarse" else small, other=small if cg == "coarse" else large,
                   outputfile=outputfile, n=ctx.int("n"), i=ctx.int("i"))
        return [o], dict(coarse_graining=(cg == "coarse"), outputfile=outputfile), inp

    def clause_names(self, case):
        return ["shape=(T,N)", "q_l=sqrt(4pi/(2l+1)*sum_m|q_lm|^2)", "q_l>=0", "file=returned"]

    def ensures(self, ctx, case, inp, out):
        res = out.value
        T, N, n, i = inp["T"], inp["N"], inp["n"], inp["i"]
        ok = isinstance(res, A.Arr) and res.ndim == 2 and A.dim_eq_syntactic(res.shape[0], T) and A.dim_eq_syntactic(res.shape[1], N)
        yield "shape=(T,N)", bool(ok)
        if not ok:
            return
        inr = sv.and_(sv.cmp(">=", n, 0), sv.cmp("<", n, T), sv.cmp(">=", i, 0), sv.cmp("<", i, N))
        got = res.get((n, i))
        want = ql_spec(inp["q"], inp["l"], inp["M"], n, i)
        yield "q_l=sqrt(4pi/(2l+1)*sum_m|q_lm|^2)", sv.implies(inr, sv.cmp("==", got, want))
        yield "q_l>=0", sv.implies(inr, sv.cmp(">=", got, 0))
        yield "file=returned", _file_clause(out, inp["outputfile"], res, (n, i), inr)

    def replay(self, case, clause, model, seed):
        return _replay_boo("ql_Ql", case, clause, model, seed)


def _file_clause(out, outputfile, res, idx, inr, kinds=("np.save", "np.savetxt")):
    """np.save always when a file name is given, np.savetxt in addition for .dat/.txt; the saved array is the returned one"""
    writes = [e for e in out.state.trace if e[0] in kinds]
    if outputfile is None:
        return len(writes) == 0
    want = ["np.save"] + (["np.savetxt"] if outputfile.endswith((".dat", ".txt")) else [])
    if [e[0] for e in writes] != want or any(e[1] != outputfile for e in writes):
        return False
    eqs = []
    for e in writes:
        a = e[2]
        if not (isinstance(a, A.Arr) and a.ndim == res.ndim and all(A.dim_eq_syntactic(x, y) for x, y in zip(a.shape, res.shape))):
            return False
        eqs.append(sv.cmp("==", a.get(idx), res.get(idx)))
    return sv.implies(inr, sv.and_(*eqs))


# ---- replay: the real class on seeded configurations against a straightforward numpy implementation of eq. (1)-(9) ----

def _Y_table(l, theta, phi):
    """independent Y_lm table (m = -l..l): C08's generated closed forms for l <= 10, scipy beyond"""
    import numpy as np
    if l <= 10:
        from contracts.C08 import spec_table
        from pyvc import conc
        return np.array([complex(a, b) for a, b in spec_table(l, theta, phi, M=conc)])
    import scipy.special as sp
    if hasattr(sp, "sph_harm_y"):
        return np.array([sp.sph_harm_y(l, m, theta, phi) for m in range(-l, l + 1)])
    return np.array([sp.sph_harm(m, l, phi % (2 * np.pi), theta) for m in range(-l, l + 1)])


def _make_system(rng, trial, tmpdir, weighted, l, frames=None, steps=None):
    """seeded trajectory + neighbour file (+ weight file) in the format of the neighbors module; frames: number of frames (default
    seeded 1..3); steps(T) -> list of the T integer timesteps (default 0, 10, 20, ...)"""
    import importlib
    import os
    import numpy as np
    RUm = importlib.import_module("PyMatterSim.reader.reader_utils")
    N = int(rng.integers(3, 9))
    T = int(rng.integers(1, 4))
    if frames is not None:
        T = int(frames)
    tsteps = [int(x) for x in steps(T)] if steps is not None else [10 * s for s in range(T)]
    L = rng.uniform(3.0, 6.0, size=3)
    H = np.diag(L)
    if trial % 2 == 1:
        H[1, 0] = rng.uniform(-0.4, 0.4) * L[0]
        H[2, 0] = rng.uniform(-0.3, 0.3) * L[0]
        H[2, 1] = rng.uniform(-0.3, 0.3) * L[1]
        if frames is None and T == 1 and trial % 4 == 1:
            T = 2
            tsteps = [int(x) for x in steps(T)] if steps is not None else [10 * s for s in range(T)]
    ppp = np.array([int(rng.integers(0, 2)) for _ in range(3)]) if trial % 3 == 2 else np.ones(3, dtype=int)
    Nmax = int(rng.choice([30, 30, 4]))
    # the cell of every frame: __init__ asserts equal box LENGTHS only, so in the triclinic trials the tilt factors change from frame
    # to frame (sheared sample at constant lx, ly, lz); the neighbours are drawn among all particles, so most bonds cross a periodic face
    Hs = [H]
    for s in range(1, T):
        Hf = np.diag(L)
        if trial % 2 == 1:
            Hf[1, 0] = rng.uniform(-0.4, 0.4) * L[0]
            Hf[2, 0] = rng.uniform(-0.3, 0.3) * L[0]
            Hf[2, 1] = rng.uniform(-0.3, 0.3) * L[1]
        Hs.append(Hf)
    snaps, nbs, wts = [], [], []
    for s in range(T):
        H = Hs[s]
        pos = rng.uniform(0, 1, size=(N, 3)) @ H
        snaps.append(RUm.SingleSnapshot(timestep=tsteps[s], nparticle=N, particle_type=np.ones(N, dtype=int), positions=pos, boxlength=L.copy(),
                                        boxbounds=np.column_stack([np.zeros(3), L]), realbounds=np.column_stack([np.zeros(3), L]), hmatrix=H.copy()))
        fn, fw = [], []
        for i in range(N):
            cn = int(rng.integers(1, min(N - 1, 5) + 1))
            others = [j for j in range(N) if j != i]
            fn.append([int(x) for x in rng.choice(others, size=cn, replace=False)])
            fw.append([float(x) for x in (rng.uniform(0.2, 3.0, size=cn) if trial % 4 != 3 else np.full(cn, 1.7))])
        nbs.append(fn)
        wts.append(fw)
    nfile, wfile = os.path.join(tmpdir, "n.neighbor.dat"), os.path.join(tmpdir, "n.weights.dat")
    with open(nfile, "w") as f:
        for s in range(T):
            f.write("id     cn     neighborlist\n")
            order = list(range(N))
            for i in order:
                f.write(f"{i+1} {len(nbs[s][i])} " + " ".join(str(j + 1) for j in nbs[s][i]) + "\n")
    with open(wfile, "w") as f:
        for s in range(T):
            f.write("id     cn     weights\n")
            for i in range(N):
                f.write(f"{i+1} {len(wts[s][i])} " + " ".join(repr(w) for w in wts[s][i]) + "\n")
    S = RUm.Snapshots(nsnapshots=T, snapshots=snaps)
    return dict(N=N, T=T, H=Hs[0], Hs=Hs, L=L, ppp=ppp, Nmax=Nmax, snaps=snaps, S=S, nbs=nbs, wts=wts, nfile=nfile, wfile=wfile if weighted else None, l=l,
                timesteps=tsteps)


def _ref_fields(sy):
    """q and Q by eq. (1)-(3), plain loops"""
    import numpy as np
    N, T, ppp, l, Nmax = sy["N"], sy["T"], sy["ppp"], sy["l"], sy["Nmax"]
    q = np.zeros((T, N, 2 * l + 1), dtype=complex)
    Q = np.zeros_like(q)
    for s in range(T):
        H = sy["Hs"][s]          # the cell of this frame
        Hinv = np.linalg.inv(H)
        pos = sy["snaps"][s].positions
        for i in range(N):
            nb_ = sy["nbs"][s][i][:Nmax]
            w = np.array(sy["wts"][s][i][:Nmax]) if sy["wfile"] else np.ones(len(nb_))
            w = w / w.sum()
            for j, wj in zip(nb_, w):
                m = (pos[j] - pos[i]) @ Hinv
                m = m - np.rint(m) * ppp
                b = m @ H
                r = np.sqrt((b * b).sum())
                q[s, i] += wj * _Y_table(l, np.arccos(b[2] / r), np.arctan2(b[1], b[0]))
        for i in range(N):
            nb_ = sy["nbs"][s][i][:Nmax]
            Q[s, i] = (q[s, i] + sum(q[s, j] for j in nb_)) / (1 + len(nb_))
    return q, Q


def _close(a, b, rel=1e-9, abs_=1e-11):
    import numpy as np
    a, b = np.asarray(a), np.asarray(b)
    return a.shape == b.shape and bool(np.all(np.abs(a - b) <= abs_ + rel * np.abs(b)))


def _replay_boo(what, case, clause, model, seed):
    import importlib
    import os
    import shutil
    import tempfile
    import numpy as np
    try:
        B = importlib.import_module(MOD)
    except Exception as e:
        return {"ran": True, "failed": True, "detail": f"module cannot be imported: {type(e).__name__}: {e}"}
    rng = np.random.default_rng(seed + 101)
    tmpdir = tempfile.mkdtemp(prefix="pyvc-c09-")
    tried = 0
    try:
        for trial in range(10):
            weighted = ("weighted" in case and "unweighted" not in case) if what in ("qlm_Qlm", "init") else (trial % 2 == 0)
            l = int(rng.choice([2, 4, 6, 3, 11])) if what != "w_W_cap" else int(rng.choice([2, 4]))
            if case.startswith("l="):
                l = int(case.split("/")[0][2:])
            kw = {}
            if what == "spatial_corr":
                kw = dict(frames=[1, 2, 3, 2][trial % 4])
            elif what == "time_corr":
                # one frame; two frames (always "evenly spaced"); evenly spaced with a non-zero first timestep; unevenly spaced (first origin only)
                kw = [dict(frames=1), dict(frames=2, steps=lambda T: [7, 19]), dict(frames=4, steps=lambda T: [5 + 20 * s for s in range(T)]),
                      dict(frames=4, steps=lambda T: [0, 10, 30, 70][:T]), dict(frames=3, steps=lambda T: [3, 4, 9][:T])][trial % 5]
            sy = _make_system(rng, trial, tmpdir, weighted, l, **kw)
            info = {k: sy[k] for k in ("N", "T", "l", "Nmax", "timesteps")}
            info.update(hmatrix_per_frame=[h.tolist() for h in sy["Hs"]], ppp=sy["ppp"].tolist(), weighted=bool(weighted), neighbours=sy["nbs"],
                        weights=sy["wts"] if weighted else None, positions=[sn.positions.tolist() for sn in sy["snaps"]])
            try:
                obj = B.boo_3d(sy["S"], l=l, neighborfile=sy["nfile"], weightsfile=sy["wfile"], ppp=sy["ppp"], Nmax=sy["Nmax"])
            except Exception as e:
                return {"ran": True, "failed": True, "inputs": info, "detail": f"boo_3d(...) raises {type(e).__name__}: {e}", "searched": tried}
            q, Q = _ref_fields(sy)
            tried += 1
            held = None if what == "init" else (np.array(obj.smallqlm).tobytes(), np.array(obj.largeQlm).tobytes())
            try:
                bad = _check_method(B, obj, what, case, sy, q, Q, tmpdir, rng)
                if not bad and held is not None and held != (np.array(obj.smallqlm).tobytes(), np.array(obj.largeQlm).tobytes()):
                    # a query method must leave the vectors held by the object untouched (later q_l / w_l / correlation calls read them)
                    dq = float(np.max(np.abs(np.array(obj.smallqlm) - q))) if np.array(obj.smallqlm).shape == np.array(q).shape else float("nan")
                    bad = (f"{what} modified the q_lm / Q_lm arrays held by the object in place: after the call max |smallqlm - bond average of Y_lm| = {dq:.3e} "
                           f"(before: identical to the definition)")
            except Exception as e:      # the methods under contract have no specified raising path
                import traceback
                where = traceback.extract_tb(e.__traceback__)[-1]
                bad = f"{what} raises {type(e).__name__}: {e} (at {os.path.basename(where.filename)}:{where.lineno})"
            if bad:
                return {"ran": True, "failed": True, "inputs": info, "detail": bad, "searched": tried, "from_model": False}
        return {"ran": True, "failed": False, "searched": tried}
    finally:
        shutil.rmtree(tmpdir, ignore_errors=True)


def _check_method(B, obj, what, case, sy, q, Q, tmpdir, rng):
    """-> None or a description of the first violated clause"""
    import os
    import numpy as np
    l, T, N, Nmax = sy["l"], sy["T"], sy["N"], sy["Nmax"]
    if what == "init":
        # the constructor's fields are the definitions (it calls qlm_Qlm), its bookkeeping attributes those of frame 0
        if not (_close(obj.smallqlm, q) and _close(obj.largeQlm, Q)):
            return "boo_3d(...).smallqlm / largeQlm differ from eq. (1)-(3)"
        if obj.nparticle != N or not _close(obj.boxlength, sy["L"]) or obj.l != l or obj.Nmax != Nmax:
            return f"attributes nparticle/boxlength/l/Nmax = {obj.nparticle}, {obj.boxlength}, {obj.l}, {obj.Nmax}"
        return None
    if what == "qlm_Qlm":
        got_q, got_Q = obj.qlm_Qlm()
        if np.shape(got_q) != (T, N, 2 * l + 1) or np.shape(got_Q) != (T, N, 2 * l + 1):
            return f"shapes {np.shape(got_q)}, {np.shape(got_Q)}; expected {(T, N, 2*l+1)}"
        if not _close(got_q, q):
            k = np.unravel_index(np.argmax(np.abs(got_q - q)), q.shape)
            return f"q_lm{k}: got {got_q[k]!r}, eq. (1)/(2) gives {q[k]!r}"
        if not _close(got_Q, Q):
            k = np.unravel_index(np.argmax(np.abs(got_Q - Q)), Q.shape)
            return f"Q_lm{k}: got {got_Q[k]!r}, eq. (3) gives {Q[k]!r}"
        if not (_close(obj.smallqlm, q) and _close(obj.largeQlm, Q)):
            return "attributes smallqlm/largeQlm differ from the definitions"
        return None
    cg = "coarse" in case
    if not (_close(obj.smallqlm, q) and _close(obj.largeQlm, Q)):
        return None     # a defect of qlm_Qlm is reported by its own unit; the other methods are judged on correct fields only
    f = Q if cg else q
    n2 = (np.abs(f) ** 2).sum(axis=2)
    if what == "ql_Ql":
        ext = case.split("/")[1]
        of = None if ext == "nofile" else os.path.join(tmpdir, "ql." + ext)
        got = obj.ql_Ql(coarse_graining=cg, outputfile=of)
        want = np.sqrt(4 * np.pi / (2 * l + 1) * n2)
        if not _close(got, want):
            return f"q_l differs from sqrt(4 pi/(2l+1) sum_m |q_lm|^2): max error {np.max(np.abs(np.asarray(got) - want))}"
        if np.any(np.asarray(got) < 0) or np.any(np.asarray(got) > 1 + 1e-9):
            return f"q_l outside [0, 1]: {np.min(got)} .. {np.max(got)}"
        if of is not None:
            npy = of if of.endswith(".npy") else of + ".npy"
            if ext == "npy":
                if not os.path.exists(npy) or not _close(np.load(npy), got):
                    return "saved npy file differs from the returned array"
            else:
                if not os.path.exists(of) or not _close(np.loadtxt(of).reshape(np.shape(got)), got, rel=1e-5, abs_=1e-6):
                    return "saved text file differs from the returned array"
        return None
    if what == "sij_ql_Ql":
        kind = case.split("/")[1]
        csv = os.path.join(tmpdir, "sum_sij.csv") if "csv" in kind else None
        sijfile = os.path.join(tmpdir, "sij_ql.dat") if "sij" in kind else None
        maxcn = max(len(sy["nbs"][s_][i][:Nmax]) for s_ in range(T) for i in range(N))
        first = obj.sij_ql_Ql(coarse_graining=cg, c=0.7, outputqlQl=None, outputsij=None)
        tie = float(np.asarray(first[0])[0, 2]) if isinstance(first, list) and len(first) and np.asarray(first[0]).shape[1] > 2 else 0.3
        # thresholds: the default, a positive and a negative one, and one equal to a stored s_ij (a tie: '>' must not count it)
        for c in (0.7, float(rng.uniform(0.0, 0.9)), float(rng.uniform(-0.9, -0.05)), tie):
            got = obj.sij_ql_Ql(coarse_graining=cg, c=c, outputqlQl=csv, outputsij=sijfile)
            width = Nmax
            if sijfile:
                # with outputsij the frames are stacked and cut to 2 + (largest coordination number) columns; that table is returned and written
                stacked = np.asarray(got)
                if stacked.ndim != 2 or stacked.shape != (T * N, 2 + maxcn):
                    return f"with outputsij: returned array of shape {stacked.shape}, expected (T*N, 2 + max cn) = {(T * N, 2 + maxcn)}"
                width = maxcn
                if not os.path.exists(sijfile):
                    return "outputsij given but no file written"
                with open(sijfile) as fh:
                    lines = fh.read().splitlines()
                if lines[0] != "id CN sij" or len(lines) != 1 + T * N:
                    return f"outputsij file: first line {lines[0]!r}, {len(lines)} lines; expected the header 'id CN sij' and {T * N} rows"
                for r_, line in enumerate(lines[1:]):
                    tok = line.split()
                    ok_ = len(tok) == 2 + maxcn and tok[0].lstrip("-").isdigit() and tok[1].isdigit() and all("." in x and len(x.split(".")[1]) == 6 for x in tok[2:])
                    if not ok_ or int(tok[0]) != int(stacked[r_, 0]) or int(tok[1]) != int(stacked[r_, 1]) \
                            or np.any(np.abs(np.array([float(x) for x in tok[2:]]) - stacked[r_, 2:]) > 1e-6):
                        return f"outputsij file, row {r_}: {line!r} is not 'id cn' as integers followed by the {maxcn} returned s_ij with six decimals ({stacked[r_].tolist()})"
                got = [stacked[s_ * N:(s_ + 1) * N] for s_ in range(T)]
            if not isinstance(got, list) or len(got) != T:
                return f"returned {type(got).__name__} of length {len(got) if hasattr(got, '__len__') else '?'}; expected a list with one array per frame ({T})"
            counts = np.zeros((T, N), dtype=int)
            near = np.zeros((T, N), dtype=bool)
            for s_ in range(T):
                a = np.asarray(got[s_])
                if a.shape != (N, 2 + width):
                    return f"frame {s_}: array of shape {a.shape}, expected {(N, 2 + width)}"
                for i in range(N):
                    nb_ = sy["nbs"][s_][i][:Nmax]
                    if a[i, 0] != i + 1 or a[i, 1] != len(nb_):
                        return f"frame {s_}, particle {i}: id/cn columns {a[i, :2]}, expected {(i + 1, len(nb_))}"
                    for jj, j in enumerate(nb_):
                        want = (f[s_, i] * np.conj(f[s_, j])).sum().real / np.sqrt(n2[s_, i] * n2[s_, j])
                        if abs(a[i, 2 + jj] - want) > 2e-6:      # the real code stores s_ij in float32
                            return f"frame {s_}: s({i},{j}) = {a[i, 2 + jj]!r}, eq. (5) gives {want!r}"
                        if abs(want) > 1 + 1e-9:
                            return f"|s_ij| > 1: {want}"
                        # the count is taken over the returned (float32) s_ij, compared as numpy compares them with a Python float
                        counts[s_, i] += int(np.float32(a[i, 2 + jj]) > np.float32(c))
                    if np.any(a[i, 2 + len(nb_):] != 0):
                        return f"frame {s_}, particle {i}: padding beyond cn is not 0"
            if csv:
                import pandas as pd
                df = pd.read_csv(csv)
                if list(df.columns) != ["id", "sum_sij", "num_neighbors"] or len(df) != T * N:
                    return f"csv columns {list(df.columns)}, {len(df)} rows; expected id,sum_sij,num_neighbors and {T * N} rows"
                for s_ in range(T):
                    for i in range(N):
                        row = df.iloc[s_ * N + i]
                        if int(row["id"]) != i + 1 or int(row["num_neighbors"]) != len(sy["nbs"][s_][i][:Nmax]):
                            return f"csv row {s_ * N + i}: id/num_neighbors {int(row['id'])}/{int(row['num_neighbors'])}"
                        if not near[s_, i] and int(row["sum_sij"]) != counts[s_, i]:
                            return (f"c = {c!r}, frame {s_}, particle {i} (cn = {len(sy['nbs'][s_][i][:Nmax])}, Nmax = {Nmax}): csv count of s_ij > c is "
                                    f"{int(row['sum_sij'])}, the number of bonds with s_ij > c is {counts[s_, i]}")
        return None
    if what == "w_W_cap":
        from sympy.physics.wigner import wigner_3j
        files = (os.path.join(tmpdir, "w.dat"), os.path.join(tmpdir, "wcap.npy")) if case.endswith("files") else \
            ((os.path.join(tmpdir, "w.npy"), os.path.join(tmpdir, "wcap.txt")) if case.endswith("files2") else (None, None))
        got_w, got_c = obj.w_W_cap(coarse_graining=cg, outputw=files[0], outputwcap=files[1])
        want = np.zeros((T, N))
        for m1 in range(-l, l + 1):
            for m2 in range(-l, l + 1):
                m3 = -m1 - m2
                if -l <= m3 <= l:
                    want += float(wigner_3j(l, l, l, m1, m2, m3)) * (f[:, :, m1 + l] * f[:, :, m2 + l] * f[:, :, m3 + l]).real
        if not _close(got_w, want, rel=1e-8, abs_=1e-12):
            return f"w_l differs from eq. (6): max error {np.max(np.abs(np.asarray(got_w) - want))}"
        if not _close(got_c, want * n2 ** (-1.5), rel=1e-8, abs_=1e-12):
            return f"w^_l differs from w_l (sum_m |q_lm|^2)^(-3/2): max error {np.max(np.abs(np.asarray(got_c) - want * n2 ** (-1.5)))}"
        if files[0]:
            # every file requested for w holds w, every file requested for w^ holds w^ (binary <name>[.npy]; text twin for .dat / .txt names, 6 decimals)
            for fn, arr, nm in ((files[0], got_w, "w"), (files[1], got_c, "w^")):
                binf = fn if fn.endswith(".npy") else fn + ".npy"
                if not os.path.exists(binf) or not _close(np.load(binf), arr):
                    return f"binary file requested for {nm} ({os.path.basename(binf)}) differs from the returned array"
                if fn.endswith((".dat", ".txt")):
                    txt = np.loadtxt(fn).reshape(T, N)
                    if np.max(np.abs(txt - np.asarray(arr))) > 0.5e-6 * (1 + 1e-6):
                        return (f"text file requested for {nm} ({os.path.basename(fn)}) differs from the returned array: max |file - returned| = "
                                f"{np.max(np.abs(txt - np.asarray(arr)))} (written precision 6 decimals)")
        return None
    if what == "spatial_corr":
        # eq. (8) through the conditional_gr contract (C13): per frame, every unordered pair once, weight Re sum_m q_lm(i) conj q_lm(j),
        # B = int(Lmin/2/rdelta) bins of width rdelta, gA = 2 V cnt_w/(N^2 shell), gr = 2 V cnt_1/(N^2 shell); then the frame average
        import pandas as pd
        of = os.path.join(tmpdir, "gl.csv") if case.endswith("/file") else ""
        rdelta = float(rng.choice([0.25, 0.4, 0.5]))
        L, ppp = sy["L"], sy["ppp"]
        try:
            got = obj.spatial_corr(coarse_graining=cg, rdelta=rdelta, outputfile=of)
        except Exception as e:
            return f"spatial_corr(coarse_graining={cg}, rdelta={rdelta}) raises {type(e).__name__}: {e}"
        B = int(L.min() / 2.0 / rdelta)
        V = float(np.prod(L))
        edges = np.arange(B + 1) * rdelta
        shell = 4.0 / 3.0 * np.pi * (edges[1:] ** 3 - edges[:-1] ** 3)
        want = np.zeros((B, 3))
        for s_ in range(T):
            pos = sy["snaps"][s_].positions
            H = sy["Hs"][s_]
            Hinv = np.linalg.inv(H)
            c1, cw = np.zeros(B), np.zeros(B)
            for i in range(N - 1):
                for j in range(i + 1, N):
                    m = (pos[j] - pos[i]) @ Hinv
                    m = m - np.rint(m) * ppp
                    b = m @ H
                    d = float(np.sqrt((b * b).sum()))
                    if d > B * rdelta:
                        continue
                    kbin = min(int(d / rdelta), B - 1)
                    c1[kbin] += 1.0
                    cw[kbin] += float((f[s_, i] * np.conj(f[s_, j])).sum().real)
            want[:, 0] += edges[1:] - 0.5 * rdelta
            want[:, 1] += 2.0 * V * c1 / (N * N * shell)
            want[:, 2] += 2.0 * V * cw / (N * N * shell)
        want /= T
        if not hasattr(got, "columns") or list(got.columns) != GCOLS:
            return f"spatial_corr returns columns {list(getattr(got, 'columns', []))}, expected {GCOLS}"
        g = np.asarray(got.values, dtype=float)
        if g.shape != want.shape:
            return f"spatial_corr(rdelta={rdelta}) returns {g.shape[0]} rows, int(Lmin/2/rdelta) = {B}"
        if not _close(g, want, rel=1e-8, abs_=1e-10):
            kk = np.unravel_index(np.argmax(np.abs(g - want)), want.shape)
            return (f"spatial_corr(coarse_graining={cg}, rdelta={rdelta}): column {GCOLS[kk[1]]}, bin {kk[0]}: got {g[kk]!r}, the frame average of "
                    f"conditional g(r) of the {'Q' if cg else 'q'}_lm field (T = {T}) is {want[kk]!r}")
        if of:
            if not os.path.exists(of):
                return "spatial_corr: no csv file written"
            df = pd.read_csv(of)
            if list(df.columns) != GCOLS or not _close(df.values, np.round(g, 8), rel=1e-9, abs_=2e-8):
                return "spatial_corr: csv file differs from the returned frame (columns r,gr,gA, 8 decimals)"
        elif os.path.exists(os.path.join(tmpdir, "gl.csv")) and not case.endswith("/file"):
            return "spatial_corr wrote a file although outputfile is empty"
        return None
    if what == "time_corr":
        # eq. (9) normalised to 1 at t = 0 (C14): all time origins for evenly spaced frames (T >= 2), the first frame only otherwise
        import pandas as pd
        of = os.path.join(tmpdir, "gl_time.csv") if case.endswith("/file") else ""
        dt = float(rng.choice([0.002, 0.01, 0.5]))
        try:
            got = obj.time_corr(coarse_graining=cg, dt=dt, outputfile=of)
        except Exception as e:
            return f"time_corr(coarse_graining={cg}, dt={dt}) raises {type(e).__name__}: {e}"
        ts = np.array(sy["timesteps"], dtype=int)
        even = T >= 2 and len(set(np.diff(ts).tolist())) == 1

        def P(a, b_):
            return float((f[a] * np.conj(f[b_])).sum().real)
        C = np.array([np.mean([P(n0 + k, n0) for n0 in range(T - k)]) if even else P(k, 0) for k in range(T)])
        want = C / C[0]
        if not hasattr(got, "columns") or list(got.columns) != ["t", "time_corr"] or len(got) != T:
            return f"time_corr returns columns {list(getattr(got, 'columns', []))} and {len(got)} rows; expected t, time_corr and {T} rows"
        tc_ = np.asarray(got["time_corr"].values, dtype=float)
        if tc_[0] != 1.0:
            return f"time_corr[0] = {tc_[0]!r}, the normalised correlation is exactly 1 at t = 0 (l = {l}, 4 pi/(2l+1) = {4 * np.pi / (2 * l + 1)!r})"
        if not _close(tc_, want, rel=1e-9, abs_=1e-12):
            kk = int(np.argmax(np.abs(tc_ - want)))
            return (f"time_corr(coarse_graining={cg}, dt={dt})[{kk}] = {tc_[kk]!r}; C({kk})/C(0) of the {'Q' if cg else 'q'}_lm field "
                    f"({'all origins' if even else 'first origin'}, timesteps {ts.tolist()}) = {want[kk]!r}")
        if not _close(np.asarray(got["t"].values, dtype=float), (ts - ts[0]) * dt, rel=1e-12, abs_=1e-15):
            return f"time axis {np.asarray(got['t'].values).tolist()}, expected (ts - ts_0) dt = {((ts - ts[0]) * dt).tolist()}"
        if of:
            if not os.path.exists(of):
                return "time_corr: no csv file written"
            df = pd.read_csv(of)
            if list(df.columns) != ["t", "time_corr"] or not _close(df.values, np.round(np.asarray(got.values, dtype=float), 8), rel=1e-9, abs_=2e-8):
                return "time_corr: csv file differs from the returned frame (columns t,time_corr, 8 decimals)"
        return None
    return "no replay for " + what


# ---- the neighbour / weight files: callee contract of read_neighbors (verified under C05) ----------------------------

NEIGHBORFILE, WEIGHTSFILE = "neighbor.dat", "weights.dat"
I_, R_ = z3.IntSort(), z3.RealSort()
NB = z3.Function("NB", I_, I_, I_, I_)        # NB(frame, i, 0) = cn_i ;  NB(frame, i, 1+j) = zero-based index of the j-th neighbour
WT = z3.Function("WT", I_, I_, I_, R_)        # WT(frame, i, 1+j) = weight of the j-th neighbour (0 beyond cn_i) ; WT(frame,i,0) = cn_i
MAXCN = z3.Function("MAXCN", I_, I_)          # largest coordination number of the frame = number of neighbour columns returned


def nb(s, i, k):
    return sv.SV(NB(sv.znum(s), sv.znum(i), sv.znum(k)))


def wt(s, i, k):
    return sv.SV(WT(sv.znum(s), sv.znum(i), sv.znum(k)))


def neighbour_file_facts(ctx, N, Nmax, weights=False):
    """documented layout of the array returned by read_neighbors (docstring of read_neighbors, docs/neighbors.md):
    column 0 = coordination number, 1 <= cn_i <= MAXCN(frame) <= Nmax; columns 1..cn_i zero-based particle indices in [0, N);
    the unoccupied positions are padded with 0.  The property's quantifier: every particle has >= 1 neighbour."""
    Nz, Mz = sv.znum(N), sv.znum(Nmax)
    ctx.array_fact("NB", lambda s, i, k: z3.And(
        NB(s, i, 0) >= 1, NB(s, i, 0) <= MAXCN(s), MAXCN(s) <= Mz,
        z3.Implies(z3.And(k >= 1, k <= NB(s, i, 0)), z3.And(NB(s, i, k) >= 0, NB(s, i, k) < Nz)),
        z3.Implies(k > NB(s, i, 0), NB(s, i, k) == 0)))
    ctx.array_fact("MAXCN", lambda s: z3.And(MAXCN(s) >= 1, MAXCN(s) <= Mz))
    if weights:
        # "this file should be consistent with neighborfile": same coordination numbers; weights (e.g. Voronoi face areas) positive
        ctx.array_fact("WT", lambda s, i, k: z3.And(
            z3.Implies(z3.And(k >= 1, k <= NB(s, i, 0)), WT(s, i, k) > 0),
            z3.Implies(k > NB(s, i, 0), WT(s, i, k) == 0),
            WT(s, i, 0) == z3.ToReal(NB(s, i, 0))))


def read_neighbors_summary(T):
    """callee contract: read_neighbors(f, nparticle, Nmax) consumes the next frame of the file behind the handle f and returns
    the (nparticle, 1 + MAXCN(frame)) array of that frame (int32 for a neighbour list, float for any other property file);
    requires that the file still has a frame (frame < T) — consecutive calls deliver consecutive frames"""
    def summ(interp, args, kwargs):
        from pyvc.state import cur
        f, npart = args[0], args[1]
        path = interp.getattr(f, "path")
        frame = interp.getattr(f, "frames_read")
        cur().require(sv.and_(sv.cmp(">=", frame, 0), sv.cmp("<", frame, T)), "call:read_neighbors:pre:file-has-another-frame")
        interp.setattr(f, "frames_read", A.simp(sv.add(frame, 1)))
        cols = A.simp(sv.add(sv.SV(MAXCN(sv.znum(frame))), 1))
        if path == NEIGHBORFILE:
            return A.new_arr((npart, cols), A._memo(lambda idx: nb(frame, idx[0], idx[1])), "int")
        if path == WEIGHTSFILE:
            return A.new_arr((npart, cols), A._memo(lambda idx: wt(frame, idx[0], idx[1])), "float")
        raise sv.EngineError(f"read_neighbors summary: unknown file {path!r}")
    return summ


def sph_harm_l_summary(interp, args, kwargs):
    """callee contract (C08 Dispatch): sph_harm_l(l, theta, phi)[k] = Y_{l,k-l}(polar = theta, azimuth = phi), length 2l+1, l >= 1"""
    from contracts.C08 import Y_abstract
    from pyvc.state import cur
    l, theta, phi = args
    cur().require(sv.cmp(">=", l, 1), "call:sph_harm_l:pre:l>=1")
    n = A.simp(sv.add(sv.mul(2, l), 1))
    return A.new_arr((n,), A._memo(lambda idx: Y_abstract(l, A.simp(sv.sub(idx[0], l)), theta, phi)), "complex")


def bond_angles(tr, n, i, j, p):
    """(theta, phi) of the minimum-image bond from particle i to particle j in frame n"""
    D = min_image(tr, n, i, j, p)
    r = sv.sqrt(_sum([sv.mul(x, x) for x in D]))
    return sv.arccos(sv.div(D[2], r)), sv.atan2(D[1], D[0])


def Y_bond(inp, n, i, slot, k):
    """Y_{l,k-l} of the bond from i to its neighbour in column `slot` (1-based column of the neighbour array)"""
    from contracts.C08 import Y_abstract
    th, ph = bond_angles(inp["tr"], n, i, nb(n, i, slot), inp["p"])
    return Y_abstract(inp["l"], A.simp(sv.sub(k, inp["l"])), th, ph)


def q_spec(inp, n, i, k):
    """eq. (1): q_lm(n,i) = (1/cn) sum_{j<cn} Y_lm(bond j);   eq. (2): q_lm(n,i) = sum_{j<cn} (w_j / sum_j' w_j') Y_lm(bond j)"""
    cn = nb(n, i, 0)
    if not inp["weighted"]:
        return sv.div(Sum(0, cn, lambda j: Y_bond(inp, n, i, A.simp(sv.add(1, j)), k)), cn)
    tot = Sum(0, cn, lambda jj: wt(n, i, A.simp(sv.add(1, jj))))
    return Sum(0, cn, lambda j: sv.mul(Y_bond(inp, n, i, A.simp(sv.add(1, j)), k), sv.div(wt(n, i, A.simp(sv.add(1, j))), tot)))


def Q_spec(inp, qfn, n, i, k):
    """eq. (3): Q_lm(n,i) = (q_lm(n,i) + sum_{j<cn} q_lm(n, nb_j)) / (1 + cn)"""
    cn = nb(n, i, 0)
    tot = sv.add(qfn(n, i, k), Sum(0, cn, lambda j: qfn(n, nb(n, i, A.simp(sv.add(1, j))), k)))
    return sv.div(tot, sv.add(1, cn))


class QlmQlm(Unit):
    loop_opts = {"cond_acc": "guarded-first"}      # guarded accumulations: guard hoisted out of the sum / Kronecker collapse
    """boo_3d.qlm_Qlm(): returns (q, Q), both of shape (T, N, 2l+1), q[n,i,m+l] = eq. (1)/(2), Q[n,i,m+l] = eq. (3)"""
    module = MOD
    qualname = f"{CLS}.qlm_Qlm"
    prop = "C09"
    timeout = 10
    solver_opts = {"rounds": 4}

    def cases(self):
        return ["unweighted", "weighted"]

    @property
    def summaries(self):
        return self._summ

    def __init__(self):
        self._summ = {}

    def setup(self, ctx, case):
        from pyvc.libext.C09 import install_open
        from contracts.C02 import _inv_spec
        install_open()
        weighted = case == "weighted"
        tr = Traj(ctx, 3, same_cell=False)
        T, N = tr.T, tr.N
        l = _sym_l(ctx)
        Nmax = ctx.int("Nmax")
        ctx.assume(Nmax >= 1)
        p = [ctx.int(f"ppp_{k}") for k in range(3)]
        for k in range(3):
            ctx.assume(sv.or_(sv.cmp("==", p[k], 0), sv.cmp("==", p[k], 1)))
        ppp = A.from_nested(p, "int")
        ctx.array_fact("HM", lambda s, a, b: sv.zb(sv.cmp("!=", _inv_spec(tr.Hm(sv.SV(s)), 3)[0], 0)))
        neighbour_file_facts(ctx, N, Nmax, weights=weighted)
        self._summ.clear()
        self._summ.update(PBC)
        self._summ["PyMatterSim.neighbors.read_neighbors.read_neighbors"] = read_neighbors_summary(T)
        self._summ["PyMatterSim.utils.spherical_harmonics.sph_harm_l"] = sph_harm_l_summary
        ctx.interp.summaries = dict(self._summ)
        o = ctx.obj(MOD, CLS, dict(snapshots=tr.snapshots(), l=l, neighborfile=NEIGHBORFILE, weightsfile=WEIGHTSFILE if weighted else None,
                                   ppp=ppp, Nmax=Nmax, nparticle=N))
        inp = dict(tr=tr, T=T, N=N, l=l, p=p, weighted=weighted, M=A.simp(sv.add(sv.mul(2, l), 1)),
                   n=ctx.int("n"), i=ctx.int("i"), k=ctx.int("k"))
        return [o], {}, inp

    def clause_names(self, case):
        return ["returns-(q,Q)-of-shape-(T,N,2l+1)", "q_lm=weighted-mean-of-Y_lm-over-bonds", "Q_lm=(q_i+sum_j-q_j)/(1+cn)"]

    def ensures(self, ctx, case, inp, out):
        res = out.value
        T, N, M, n, i, k = inp["T"], inp["N"], inp["M"], inp["n"], inp["i"], inp["k"]
        ok = isinstance(res, tuple) and len(res) == 2 and all(
            isinstance(a, A.Arr) and a.ndim == 3 and a.dtype == "complex" and A.dim_eq_syntactic(a.shape[0], T)
            and A.dim_eq_syntactic(a.shape[1], N) and A.dim_eq_syntactic(a.shape[2], M) for a in res)
        yield "returns-(q,Q)-of-shape-(T,N,2l+1)", bool(ok)
        if not ok:
            return
        small, large = res
        inr = sv.and_(sv.cmp(">=", n, 0), sv.cmp("<", n, T), sv.cmp(">=", i, 0), sv.cmp("<", i, N), sv.cmp(">=", k, 0), sv.cmp("<", k, M))
        got = sv.as_cx(small.get((n, i, k)))
        want = sv.as_cx(q_spec(inp, n, i, k))
        # weighted: the code sums the whole zero-padded row of the weight array; the definition sums the cn_i weights (zero-tail rule)
        qopts = {"solver_opts": {"rounds": 4, "ext_tail": True}} if inp["weighted"] else {}
        yield "q_lm=weighted-mean-of-Y_lm-over-bonds", sv.implies(inr, sv.and_(sv.cmp("==", got.re, want.re), sv.cmp("==", got.im, want.im))), qopts
        # eq. (3) relates the two returned arrays: Q is the mean of the returned q over the particle and its neighbours
        gotQ = sv.as_cx(large.get((n, i, k)))
        wantQ = sv.as_cx(Q_spec(inp, lambda a, b, c: small.get((a, b, c)), n, i, k))
        yield "Q_lm=(q_i+sum_j-q_j)/(1+cn)", sv.implies(inr, sv.and_(sv.cmp("==", gotQ.re, wantQ.re), sv.cmp("==", gotQ.im, wantQ.im)))

    def replay(self, case, clause, model, seed):
        return _replay_boo("qlm_Qlm", case, clause, model, seed)


# ---- sij_ql_Ql -------------------------------------------------------------------------------------------

def sij_spec(q, M, n, i, j):
    """eq. (5) as the statement reads it: Re(q(i) . conj q(j)) / (|q(i)| |q(j)|)"""
    up = Sum(0, M, lambda m: sv.mul(sv.as_cx(q.get((n, i, m))), sv.conj(sv.as_cx(q.get((n, j, m))))))
    ni = sv.sqrt(Sum(0, M, lambda m: _abs2(q.get((n, i, m)))))
    nj = sv.sqrt(Sum(0, M, lambda m: _abs2(q.get((n, j, m)))))
    return sv.div(sv.re(up), sv.mul(ni, nj))


class Sij(Unit):
    loop_opts = {"cond_acc": "guarded-first"}      # guarded accumulations: guard hoisted out of the sum / Kronecker collapse
    """boo_3d.sij_ql_Ql(coarse_graining, c, outputqlQl, outputsij): per frame the array [id, cn, s_i0, .., s_i,Nmax-1] with
    s_ij = eq. (5) for the cn_i neighbours and 0 beyond; the csv frame holds id, #{j < cn_i : s_ij > c}, cn_i for every frame.
    With outputsij the frames are stacked (row n*N + i), cut to 2 + maxcn columns (maxcn = the largest coordination number of the
    trajectory) and written by np.savetxt with header 'id CN sij' and one format per column ('%d %d ' + maxcn * '%.6f '); that array is returned."""
    module = MOD
    qualname = f"{CLS}.sij_ql_Ql"
    prop = "C09"
    timeout = 10
    solver_opts = {"rounds": 3, "zero_body": True}

    def __init__(self):
        self._summ = {}

    @property
    def summaries(self):
        return self._summ

    def cases(self):
        return [f"{cg}/{of}" for cg in ("local", "coarse") for of in ("nofile", "csv")] + ["local/sij", "coarse/csv+sij"]

    def setup(self, ctx, case):
        from pyvc.libext.C09 import install_open
        install_open()
        cg, of = case.split("/")
        tr = Traj(ctx, 3)
        T, N = tr.T, tr.N
        l = _sym_l(ctx)
        Nmax = ctx.int("Nmax")
        ctx.assume(Nmax >= 1)
        neighbour_file_facts(ctx, N, Nmax)
        self._summ.clear()
        self._summ["PyMatterSim.neighbors.read_neighbors.read_neighbors"] = read_neighbors_summary(T)
        ctx.interp.summaries = dict(self._summ)
        c = ctx.real("c")
        o, small, large, M = _boo_self(ctx, l, T, N, dict(snapshots=tr.snapshots(), neighborfile=NEIGHBORFILE, Nmax=Nmax))
        csv = "sum_sij.csv" if "csv" in of else None
        sijfile = "sij_ql.dat" if "sij" in of else None
        inp = dict(T=T, N=N, l=l, M=M, Nmax=Nmax, c=c, q=large if cg == "coarse" else small, csv=csv, sijfile=sijfile,
                   n=ctx.int("n"), i=ctx.int("i"), j=ctx.int("j"))
        return [o], dict(coarse_graining=(cg == "coarse"), c=c, outputqlQl=csv, outputsij=sijfile), inp

    def clause_names(self, case):
        of = case.split("/")[1]
        if "sij" in of:
            names = ["returns-the-stacked-(T*N,2+maxcn)-array", "stacked-table:row(n*N+i)=row-i-of-frame-n", "maxcn:attained-at-a-row-of-the-returned-array", "maxcn:bounds-every-coordination-number", "maxcn<=Nmax"]
        else:
            names = ["returns-one-(N,2+Nmax)-array-per-frame"]
        names += ["column0=id", "column1=cn", "s_ij=Re(q_i.conj(q_j))/(|q_i||q_j|)", "padding=0"]
        if "csv" in of:
            names += ["csv:columns-and-length", "csv:id", "csv:count=#{j<cn:s_ij>c}", "csv:num_neighbors=cn"]
        if "sij" in of:
            names += ["sijfile:np.savetxt(returned-array,header='id CN sij',one-format-per-column)"]
        if of == "nofile":
            names += ["no-file-written"]
        return names

    def ensures(self, ctx, case, inp, out):
        from pyvc.interp import Ref
        from pyvc.libext.C09 import RepStr
        res = out.value
        T, N, M, Nmax, n, i, j, q, c = (inp[x] for x in ("T", "N", "M", "Nmax", "n", "i", "j", "q", "c"))
        inr = sv.and_(sv.cmp(">=", n, 0), sv.cmp("<", n, T), sv.cmp(">=", i, 0), sv.cmp("<", i, N))
        cn = nb(n, i, 0)
        row = A.simp(sv.add(sv.mul(n, N), i))          # row of (frame n, particle i) in a table stacked over the frames
        extra = []
        if inp["sijfile"] is None:
            ok = isinstance(res, Ref) and res.kind == "list" and isinstance(res.content, A.SeqVal) and A.dim_eq_syntactic(res.content.length, T)
            item = res.content.fn(n) if ok else None
            ok = ok and isinstance(item, A.Arr) and item.ndim == 2 and A.dim_eq_syntactic(item.shape[0], N) \
                and A.dim_eq_syntactic(item.shape[1], A.simp(sv.add(2, Nmax)))
            yield "returns-one-(N,2+Nmax)-array-per-frame", bool(ok)
            if not ok:
                return
            width = Nmax

            def cell(col):
                return item.get((i, col))
        else:
            ok = isinstance(res, A.Arr) and res.ndim == 2 and A.dim_eq_syntactic(res.shape[0], A.simp(sv.mul(T, N)))
            mxq = [f for f in out.state.qfacts if f[0] == "max"]
            ok = ok and len(mxq) == 1
            yield "returns-the-stacked-(T*N,2+maxcn)-array", bool(ok)
            if not ok:
                return
            _, nrows, colreader, Mx, w = mxq[0][:5]
            width = A.simp(sv.sub(res.shape[1], 2))       # maxcn: number of s_ij columns kept
            # assumed contract of ndarray.max (attained at a row w, upper bound of every element): the bound instantiated at row n*N+i
            bound = sv.implies(inr, sv.cmp("<=", colreader((row,)), Mx))
            extra = [bound]
            # (linear arithmetic + congruence: the products N*T, N*quotient are kept as uninterpreted terms)
            yield "maxcn:attained-at-a-row-of-the-returned-array", sv.and_(sv.cmp(">=", w, 0), sv.cmp("<", w, sv.mul(T, N)), sv.cmp("==", res.get((w, 1)), width)), \
                {"solver_opts": dict(self.solver_opts, uf_abstraction=True)}
            yield "maxcn:bounds-every-coordination-number", sv.implies(inr, sv.cmp("<=", cn, width)), {"assume": extra}
            yield "maxcn<=Nmax", sv.cmp("<=", width, Nmax)

            # row n*N + i of the stacked table is row i of frame n's table when 0 <= i < N (the model of np.concatenate reads any other row
            # through the Euclidean quotient of the row index: that alternative is cut off here — under `inr` its guard is true — and the
            # cut is its own obligation, stated at an arbitrary column)
            okz = sv.zb(sv.and_(sv.cmp(">=", i, 0), sv.cmp("<", i, N)))

            def cut(v):
                v = sv.norm(v)
                if isinstance(v, sv.Cx):
                    return sv.Cx(cut(v.re), cut(v.im))
                return sv.wrap(z3.simplify(z3.substitute(v.t, (okz, z3.BoolVal(True))))) if isinstance(v, sv.SV) else v

            def cell(col):
                return cut(res.get((row, col)))
            colv = sv.fresh_int("anycol")
            yield ("stacked-table:row(n*N+i)=row-i-of-frame-n", sv.implies(sv.and_(inr, sv.cmp(">=", colv, 0), sv.cmp("<", colv, res.shape[1])),
                                                                         sv.cmp("==", res.get((row, colv)), cell(colv))), {"solver_opts": {"unfold": False, "ext": False, "rounds": 1}})
        yield "column0=id", sv.implies(inr, sv.cmp("==", cell(0), sv.add(i, 1))), {"assume": extra}
        yield "column1=cn", sv.implies(inr, sv.cmp("==", cell(1), cn)), {"assume": extra}
        got = cell(A.simp(sv.add(2, j)))
        want = sij_spec(q, M, n, i, nb(n, i, A.simp(sv.add(1, j))), )
        yield "s_ij=Re(q_i.conj(q_j))/(|q_i||q_j|)", sv.implies(sv.and_(inr, sv.cmp(">=", j, 0), sv.cmp("<", j, cn)), sv.cmp("==", got, want)), {"assume": extra}
        yield "padding=0", sv.implies(sv.and_(inr, sv.cmp(">=", j, cn), sv.cmp("<", j, width)), sv.cmp("==", got, 0)), {"assume": extra}
        csvw = [e for e in out.state.trace if e[0] == "to_csv"]
        txtw = [e for e in out.state.trace if e[0] in ("np.savetxt", "np.save")]
        if inp["csv"] is None and inp["sijfile"] is None:
            yield "no-file-written", len(csvw) + len(txtw) == 0
        if inp["csv"] is not None:
            good = len(csvw) == 1 and csvw[0][1] == inp["csv"] and csvw[0][3] == ["id", "sum_sij", "num_neighbors"]
            yield "csv:columns-and-length", bool(good)
            if good:
                cols = csvw[0][2]
                # row r of the file = frame r div N, particle r mod N: stated at row n*N + i
                nrows_ok = A.dim_eq_syntactic(A.simp(cols["id"].shape[0]), A.simp(sv.mul(T, N)))
                yield "csv:id", sv.and_(nrows_ok, sv.implies(inr, sv.cmp("==", cols["id"].get((row,)), sv.add(i, 1))))
                # the count is taken over the returned s_ij of the cn_i bonds (whose values are fixed by the clause above)
                cnt = Sum(0, cn, lambda jj: sv.ite(sv.cmp(">", cell(A.simp(sv.add(2, jj))), c), 1, 0))
                yield "csv:count=#{j<cn:s_ij>c}", sv.implies(inr, sv.cmp("==", cols["sum_sij"].get((row,)), cnt)), \
                    {"solver_opts": {"rounds": 3, "ext_tail": True}, "assume": extra}
                yield "csv:num_neighbors=cn", sv.implies(inr, sv.cmp("==", cols["num_neighbors"].get((row,)), cn))
        elif csvw:
            yield "no-file-written", False
        if inp["sijfile"] is not None:
            name = "sijfile:np.savetxt(returned-array,header='id CN sij',one-format-per-column)"
            good = len(txtw) == 1 and txtw[0][0] == "np.savetxt" and txtw[0][1] == inp["sijfile"]
            kw = txtw[0][3] if good else {}
            fmt = kw.get("fmt")
            # layout: the header line, then one line per row: two integers (id, cn) and maxcn numbers with six decimals
            good = good and kw.get("header") == "id CN sij" and kw.get("comments") == "" and isinstance(fmt, RepStr) \
                and len(fmt.parts) == 2 and fmt.parts[0] == ("%d %d ", 1) and fmt.parts[1][0] == "%.6f "
            arr = txtw[0][2] if good else None
            good = good and isinstance(arr, A.Arr) and arr.ndim == 2 and A.dim_eq_syntactic(arr.shape[0], res.shape[0]) and A.dim_eq_syntactic(arr.shape[1], res.shape[1])
            if not good:
                yield name, False
            else:
                col = sv.fresh_int("col")
                yield name, sv.and_(sv.cmp("==", fmt.parts[1][1], width),
                                    sv.implies(sv.and_(inr, sv.cmp(">=", col, 0), sv.cmp("<", col, res.shape[1])),
                                               sv.cmp("==", arr.get((row, col)), res.get((row, col))))), {"assume": extra}

    def raises(self, ctx, case, inp, out):
        return None      # cn_i <= Nmax is guaranteed by read_neighbors: the ValueError branch must be unreachable

    def replay(self, case, clause, model, seed):
        return _replay_boo("sij_ql_Ql", case, clause, model, seed)


# ---- w_W_cap (and utils.funcs.Wignerindex, executed from its real body) -----------------------------------------------

def w_spec(q, l, n, i):
    """eq. (6): sum over m1+m2+m3 = 0 of W3j(l,l,l,m1,m2,m3) Re(q_lm1 q_lm2 q_lm3)  (index m + l)"""
    from pyvc.libext.C09 import w3j
    acc = 0
    for m1 in range(-l, l + 1):
        for m2 in range(-l, l + 1):
            m3 = -m1 - m2
            if -l <= m3 <= l:
                pr = sv.mul(sv.mul(sv.as_cx(q.get((n, i, m1 + l))), sv.as_cx(q.get((n, i, m2 + l)))), sv.as_cx(q.get((n, i, m3 + l))))
                acc = sv.add(acc, sv.mul(sv.re(pr), w3j(l, l, l, m1, m2, m3)))
    return acc


class WCap(Unit):
    loop_opts = {"cond_acc": "guarded-first"}      # guarded accumulations: guard hoisted out of the sum / Kronecker collapse
    """boo_3d.w_W_cap(coarse_graining, outputw, outputwcap) -> (w, w^): eq. (6) and (7) at every (frame, particle); concrete degree l"""
    module = MOD
    qualname = f"{CLS}.w_W_cap"
    prop = "C09"
    timeout = 30        # l = 6: the loop-step goals take ~5 s on an idle core; the budget leaves room for a fully loaded machine
    # the two loop-step goals are "the stored polynomial at (n, i) is the closed form at (n, i)": equal up to substitution of equal
    # indices — decided with the products as uninterpreted functions (sound for unsat) by congruence, for every degree; without it the
    # nonlinear solvers need seconds for l = 2 and give up for l = 6
    solver_opts = {"uf_abstraction": True, "uf_abstraction_timeout": 40}

    def cases(self):
        # concrete degrees: the loop over the (2l+1)^3 index triples of Wignerindex is executed, the particle / frame loops are summarised
        # `files`: outputw ends in .dat (binary file + text twin), outputwcap in .npy; `files2`: the other way round (text twin of w^)
        return ["l=2/local/files", "l=2/coarse/files2", "l=2/coarse/nofile", "l=3/coarse/nofile", "l=4/local/nofile", "l=4/coarse/files", "l=6/coarse/nofile", "l=6/local/files"]

    def thorough_cases(self):
        return ["l=4/local/files2", "l=5/coarse/nofile", "l=6/coarse/files2"]

    def setup(self, ctx, case):
        ls, cg, of = case.split("/")
        l = int(ls[2:])
        T, N = ctx.int("T"), ctx.int("N")
        ctx.assume(T >= 1)
        ctx.assume(N >= 1)
        o, small, large, M = _boo_self(ctx, l, T, N)
        files = (None, None) if of == "nofile" else (("w.dat", "wcap.npy") if of == "files" else ("w.npy", "wcap.txt"))
        inp = dict(l=l, T=T, N=N, q=large if cg == "coarse" else small, files=files, n=ctx.int("n"), i=ctx.int("i"))
        return [o], dict(coarse_graining=(cg == "coarse"), outputw=files[0], outputwcap=files[1]), inp

    def clause_names(self, case):
        return ["returns-(w,w^)-of-shape-(T,N)", "w_l=sum_{m1+m2+m3=0}W3j*Re(q_m1*q_m2*q_m3)", "w^_l=w_l*(sum_m|q_lm|^2)^(-3/2)", "files=returned"]

    def ensures(self, ctx, case, inp, out):
        res = out.value
        T, N, n, i, l, q = inp["T"], inp["N"], inp["n"], inp["i"], inp["l"], inp["q"]
        ok = isinstance(res, tuple) and len(res) == 2 and all(isinstance(a, A.Arr) and a.ndim == 2 and A.dim_eq_syntactic(a.shape[0], T)
                                                               and A.dim_eq_syntactic(a.shape[1], N) for a in res)
        yield "returns-(w,w^)-of-shape-(T,N)", bool(ok)
        if not ok:
            return
        w, wcap = res
        inr = sv.and_(sv.cmp(">=", n, 0), sv.cmp("<", n, T), sv.cmp(">=", i, 0), sv.cmp("<", i, N))
        want = w_spec(q, l, n, i)
        yield "w_l=sum_{m1+m2+m3=0}W3j*Re(q_m1*q_m2*q_m3)", sv.implies(inr, sv.cmp("==", w.get((n, i)), want)), {"ring_only": True}
        n2 = _sum([_abs2(q.get((n, i, k))) for k in range(2 * l + 1)])
        # relative to the returned w (whose value is fixed by the clause above)
        g, _ = sv.generalize(sv.implies(inr, sv.cmp("==", wcap.get((n, i)), sv.mul(sv.power(n2, sv.to_frac(-1.5)), w.get((n, i))))), [w.get((n, i))], "w")
        yield "w^_l=w_l*(sum_m|q_lm|^2)^(-3/2)", g
        fw, fc = inp["files"]
        writes = [e for e in out.state.trace if e[0] in ("np.save", "np.savetxt")]
        if fw is None:
            yield "files=returned", len(writes) == 0
        else:
            # every file requested for w holds w, every file requested for w^ holds w^ (the text twin exactly for names ending in .dat / .txt)
            want_w = [("np.save", fw, w)] + ([("np.savetxt", fw, w)] if fw.endswith((".dat", ".txt")) else []) + \
                     [("np.save", fc, wcap)] + ([("np.savetxt", fc, wcap)] if fc.endswith((".dat", ".txt")) else [])
            good = len(writes) == len(want_w) and all(e[0] == k and e[1] == f for e, (k, f, _) in zip(writes, want_w))
            if not good:
                yield "files=returned", False
            else:
                yield "files=returned", sv.implies(inr, sv.and_(*[sv.cmp("==", e[2].get((n, i)), a.get((n, i))) for e, (_, _, a) in zip(writes, want_w)])), {"ring_only": True}

    def replay(self, case, clause, model, seed):
        return _replay_boo("w_W_cap", case, clause, model, seed)


# ---- spatial_corr / time_corr: the callee contracts of conditional_gr (C13) and time_correlation (C14) on the q_lm field -----------

CGR = "PyMatterSim.static.gr.conditional_gr"
TCORR = "PyMatterSim.dynamic.time_corr.time_correlation"
GCOLS = ["r", "gr", "gA"]
CALL_CGR = "call:conditional_gr(frame-n,q_lm[n],'vector',self.ppp,rdelta):arguments-and-preconditions"
LOOP_INV = "frame-loop:invariant:glresults(k)=sum_{t<k}conditional_gr(frame-t)"
CALL_TC = "call:time_correlation(trajectory,q_lm,dt):arguments-and-preconditions"


def _named(goal, clause):
    goal.clause = clause
    return goal


def _require(cond, kind, clause):
    """side obligation of a call site / written loop summary that is reported under the named clause `clause` of the contract
    (proved under the path condition at this point, then assumed — the same protocol as State.require)"""
    from pyvc.loops import _SideGoal
    from pyvc.state import cur
    st = cur()
    if sv.is_conc(cond):
        if cond:
            return
        t = z3.BoolVal(False)
    else:
        t = sv.zb(cond)
    g = _SideGoal(kind, t, st.all_assumptions(), st.where)
    g.opts = None
    g.clause = clause
    st.side.append(g)
    st.pc.append(t)


def _same_array(a, b, what, clause):
    """call-site obligation: array argument `a` has the shape and, at an arbitrary index, the elements of `b`"""
    if not isinstance(a, A.Arr) or a.ndim != b.ndim:
        _require(False, what + ":rank", clause)
        return False
    idx, conds = [], []
    for k in range(b.ndim):
        if not A.dim_eq_syntactic(a.shape[k], b.shape[k]):
            _require(sv.cmp("==", a.shape[k], b.shape[k]), what + ":shape", clause)
        t = sv.fresh_int("ai")
        idx.append(t)
        conds.append(sv.and_(sv.cmp(">=", t, 0), sv.cmp("<", t, b.shape[k])))
    x, y = sv.as_cx(a.get(tuple(idx))), sv.as_cx(b.get(tuple(idx)))
    _require(sv.implies(sv.and_(*conds), sv.and_(sv.cmp("==", x.re, y.re), sv.cmp("==", x.im, y.im))), what + ":elements", clause)
    return True


def _first_for_lineno(qual):
    import ast
    from pyvc.interp import load_module
    node = load_module(MOD).get_class(qual.split(".")[0]).methods[qual.split(".")[1]]
    for n in ast.walk(node):
        if isinstance(n, ast.For):
            return n.lineno
    return None


def _setup_corr(ctx, coarse):
    """a boo_3d object after __init__ (object invariant): smallqlm / largeQlm arbitrary complex (T, N, 2l+1) fields, the trajectory,
    the mask; every frame has the box lengths of frame 0 (asserted by __init__)"""
    from contracts.C02 import _inv_spec
    tr = Traj(ctx, 3)
    T, N = tr.T, tr.N
    l = _sym_l(ctx)
    p = [ctx.int(f"ppp_{k}") for k in range(3)]
    for k in range(3):
        ctx.assume(sv.or_(sv.cmp("==", p[k], 0), sv.cmp("==", p[k], 1)))
    ppp = A.from_nested(p, "int")
    ctx.state.origin[ppp.sid] = "self.ppp"
    snaps = tr.snapshots()
    Nmax = ctx.int("Nmax")
    o, small, large, M = _boo_self(ctx, l, T, N, dict(snapshots=snaps, ppp=ppp, neighborfile=NEIGHBORFILE, weightsfile=None, Nmax=Nmax))
    BL = tr.BL
    ctx.array_fact("BL", lambda s, c: BL(s, c) == BL(0, c))
    ctx.array_fact("HM", lambda s, a, b: sv.zb(sv.cmp("!=", _inv_spec(tr.Hm(sv.SV(s)), 3)[0], 0)))
    return o, dict(tr=tr, T=T, N=N, l=l, M=M, p=p, ppp=ppp, snaps=snaps, q=large if coarse else small, other=small if coarse else large)


def rows_spec(tr, s, rd):
    """C13 clause rows=int(Lmin/2/rdelta) for frame s"""
    Ls = [tr.bl(s, c) for c in range(3)]
    minL = Ls[0]
    for L in Ls[1:]:
        minL = sv.minv(minL, L)
    return sv.trunc(sv.div(sv.div(minL, 2), rd))


def bin_centre(b, rd):
    """C13 clause r=bin-centre: right edge (b+1) rdelta minus half a bin"""
    return sv.sub(sv.mul(sv.add(b, 1), rd), sv.mul(sv.to_frac(0.5), rd))


class SpatialCorr(Unit):
    """boo_3d.spatial_corr(coarse_graining, rdelta, outputfile): the frame average of conditional_gr(frame n, condition = q_lm[n] resp.
    Q_lm[n], conditiontype "vector", the object's ppp, rdelta) — C13 callee contract: a frame with columns r, gr, gA and
    int(Lmin/2/rdelta) rows, r_b the bin centre, gr / gA the table CGR_n(b, column) that conditional_gr returns for exactly these
    arguments (every argument is a side obligation of the call).  Column c, bin b of the returned frame = (1/T) sum_n CGR_n(b, c).
    The frame loop accumulates a DataFrame (0 + frame + frame ...): written invariant glresults(k) = sum_{t<k} CGR_t, with init / step
    obligations generated from executions of the real body (init from the real pre-state glresults = 0)."""
    module = MOD
    qualname = f"{CLS}.spatial_corr"
    prop = "C09"
    timeout = 10

    def cases(self):
        return [f"{cg}/{of}" for cg in ("local", "coarse") for of in ("nofile", "file")]

    def setup(self, ctx, case):
        from contracts.C02 import _inv_spec
        from pyvc.interp import Frame
        from pyvc.loops import _SideGoal
        from pyvc.pandas_model import df_content, new_df
        from pyvc.state import cur, use_state
        cg, of = case.split("/")
        o, inp = _setup_corr(ctx, cg == "coarse")
        tr, T, N, M, q = inp["tr"], inp["T"], inp["N"], inp["M"], inp["q"]
        rd = ctx.real("rdelta")
        # preconditions of conditional_gr (C13): at least two particles, positive bin width, at least one bin in every frame
        ctx.assume(rd > 0)
        ctx.assume(N >= 2)
        BL = tr.BL
        ctx.array_fact("BL", lambda s, c: z3.Implies(z3.And(c >= 0, c < 3), BL(s, c) >= 2 * sv.zr(rd)))
        I = z3.IntSort()
        CG = z3.Function("CGR", I, I, I, z3.RealSort())      # CGR(frame, bin, column): value returned by conditional_gr for that frame

        def cg_val(s, b, ci):
            return bin_centre(b, rd) if ci == 0 else sv.SV(CG(sv.znum(s), sv.znum(b), z3.IntVal(ci)))

        def frame_table(nrows, fn):
            return new_df({c: A.new_arr((nrows,), (lambda idx, ci=ci: fn(idx[0], ci)), "float") for ci, c in enumerate(GCOLS)}, GCOLS, nrows)

        def cgr(interp, args, kwargs):
            """callee contract of conditional_gr(snapshot, condition, conditiontype, ppp, rdelta) for a complex vector field (C13, kind
            cvector).  requires: snapshot a frame with N >= 2 particles, invertible cell, box lengths >= 2 rdelta; condition a complex
            (N, m) array; conditiontype 'vector'; ppp in {0,1}^3; rdelta > 0.  ensures: a fresh frame with columns r, gr, gA and
            int(Lmin/2/rdelta) rows; r[b] = (b+1) rdelta - rdelta/2; gr[b], gA[b] functions of (snapshot, condition, ppp, rdelta, b)."""
            snapshot, cond, ctype, ppp_a, rdel = args[:5]
            ts = snapshot.content.get("timestep") if getattr(snapshot, "kind", None) == "obj" else None
            if not isinstance(ts, sv.SV) or not z3.is_app(ts.t) or ts.t.decl().name() != tr.TS.name():
                _require(False, "call:conditional_gr:pre:snapshot-is-a-frame-of-the-trajectory", CALL_CGR)
                raise sv.EngineError("conditional_gr summary: snapshot argument is not a frame of the trajectory")
            sfr = sv.wrap(ts.t.arg(0))
            row = A.new_arr((N, M), lambda idx: q.get((sfr, idx[0], idx[1])), "complex")
            if not _same_array(cond, row, "call:conditional_gr:pre:condition=q_lm-rows-of-the-same-frame", CALL_CGR):
                raise sv.EngineError("conditional_gr summary: condition is not an array of rank 2")
            _require(cond.dtype == "complex", "call:conditional_gr:pre:complex-condition", CALL_CGR)
            _require(isinstance(ctype, str) and ctype == "vector", "call:conditional_gr:pre:conditiontype=vector", CALL_CGR)
            if not _same_array(ppp_a, inp["ppp"], "call:conditional_gr:pre:ppp=self.ppp", CALL_CGR):
                raise sv.EngineError("conditional_gr summary: ppp is not an array of rank 1")
            for k in range(3):
                _require(sv.or_(sv.cmp("==", ppp_a.get((k,)), 0), sv.cmp("==", ppp_a.get((k,)), 1)), "call:conditional_gr:pre:ppp-in-{0,1}", CALL_CGR)
            _require(sv.cmp("==", rdel, rd), "call:conditional_gr:pre:rdelta=the-argument", CALL_CGR)
            _require(sv.cmp(">", rdel, 0), "call:conditional_gr:pre:rdelta>0", CALL_CGR)
            _require(sv.cmp(">=", snapshot.content.get("nparticle"), 2), "call:conditional_gr:pre:N>=2", CALL_CGR)
            _require(sv.cmp("!=", _inv_spec(tr.Hm(sfr), 3)[0], 0), "call:conditional_gr:pre:cell-invertible", CALL_CGR)
            for c in range(3):
                _require(sv.cmp(">=", tr.bl(sfr, c), sv.mul(2, rdel)), "call:conditional_gr:pre:at-least-one-bin", CALL_CGR)
            return frame_table(rows_spec(tr, sfr, rdel), lambda b, ci: cg_val(sfr, b, ci))
        ctx.interp.summaries[CGR] = cgr

        def hint(interp, s, frame, st, lo, hi, item_fn):
            import ast
            where = f"{frame.fname}:{s.lineno}"
            # the accumulator: the local the loop body updates with an augmented assignment (glresults in the current source)
            accs = [n.target.id for n in ast.walk(ast.Module(body=s.body, type_ignores=[])) if isinstance(n, ast.AugAssign) and isinstance(n.target, ast.Name)]
            var = accs[0] if len(accs) == 1 else "glresults"
            B0 = rows_spec(tr, lo, rd)

            def inv(k):
                def val(b, ci):
                    if ci == 0:     # the bin centres do not depend on the frame: k - lo equal addends
                        return sv.mul(sv.to_real(sv.sub(k, lo)), bin_centre(b, rd))
                    return Sum(lo, k, lambda t: cg_val(t, b, ci))
                return frame_table(B0, val)

            def run(kv, val, extra):
                fr = Frame(frame.module, dict(frame.env), frame.fname)
                fr.env[var] = val
                st2 = st.fork()
                st2.pc = list(st.pc) + [sv.zb(sv.cmp(">=", kv, lo)), sv.zb(sv.cmp("<", kv, hi))] + extra
                with use_state(st2):
                    interp.assign(s.target, item_fn(kv), fr)
                    outs = interp.exec_block_paths(s.body, fr, st2)
                normal = [(f2, s2) for f2, s2, out in outs if out[0] == "normal"]
                if len(outs) != 1 or len(normal) != 1:
                    raise sv.EngineError("spatial_corr frame loop: body does not have a single normal path")
                return normal[0]

            def eq_goals(s2, got, want_df, kind):
                b = sv.fresh_int("b")
                with use_state(s2):
                    if not (getattr(got, "kind", None) == "df" and df_content(got)["order"] == GCOLS and A.dim_eq_syntactic(df_content(got)["n"], B0)):
                        st.side.append(_named(_SideGoal(kind + ":accumulator-is-a-frame(r,gr,gA)-with-the-rows-of-frame-0", z3.BoolVal(False), s2.all_assumptions(), where), LOOP_INV))
                        return
                    for c in GCOLS:
                        g = sv.cmp("==", df_content(got)["cols"][c].get((b,)), df_content(want_df)["cols"][c].get((b,)))
                        goal = sv.zb(sv.implies(sv.and_(sv.cmp(">=", b, 0), sv.cmp("<", b, B0)), g))
                        st.side.append(_named(_SideGoal(f"{kind}:column-{c}", goal, s2.all_assumptions(), where), LOOP_INV))
            if var not in frame.env:
                raise sv.EngineError("spatial_corr frame loop: no accumulator glresults before the loop")
            # init: the first iteration, from the real pre-state, establishes inv(lo + 1)
            lo1 = A.simp(sv.add(lo, 1))
            want1 = inv(lo1)
            f2, s2 = run(lo, frame.env[var], [])
            eq_goals(s2, f2.env.get(var), want1, "loop-init")
            # step: from inv(k), lo + 1 <= k < hi, the body establishes inv(k + 1)
            k = sv.fresh_int("k")
            cur_df, nxt_df = inv(k), inv(A.simp(sv.add(k, 1)))
            f3, s3 = run(k, cur_df, [sv.zb(sv.cmp(">=", k, lo1))])
            eq_goals(s3, f3.env.get(var), nxt_df, "loop-step")
            # post-state (the loop runs at least once: T >= 1)
            frame.env[var] = inv(hi)
            interp.assign(s.target, item_fn(A.simp(sv.sub(hi, 1))), frame)
        ln = _first_for_lineno(self.qualname)
        ctx.interp.loop_hints[(f"{MOD}.{self.qualname}", "for", ln)] = hint
        outputfile = "gl.csv" if of == "file" else ""
        inp.update(rd=rd, CG=CG, of=outputfile, b=ctx.int("b"), cg_val=cg_val)
        return [o], dict(coarse_graining=(cg == "coarse"), rdelta=rd, outputfile=outputfile), inp

    def clause_names(self, case):
        return [CALL_CGR, LOOP_INV, "columns=(r,gr,gA)", "rows=int(Lmin/2/rdelta)", "r=bin-centre", "gr,gA=frame-average-of-conditional_gr", "file=returned"]

    def ensures(self, ctx, case, inp, out):
        from pyvc.pandas_model import df_content
        res = out.value
        ok = getattr(res, "kind", None) == "df" and df_content(res)["order"] == GCOLS
        yield "columns=(r,gr,gA)", bool(ok)
        if not ok:
            return
        tr, T, rd, b = inp["tr"], inp["T"], inp["rd"], inp["b"]
        n = df_content(res)["n"]
        cols = df_content(res)["cols"]
        B = rows_spec(tr, 0, rd)
        yield "rows=int(Lmin/2/rdelta)", sv.and_(sv.cmp("==", n, B), *[sv.cmp("==", cols[c].shape[0], n) for c in GCOLS])
        inr = sv.and_(sv.cmp(">=", b, 0), sv.cmp("<", b, B))
        yield "r=bin-centre", sv.implies(inr, sv.cmp("==", cols["r"].get((b,)), bin_centre(b, rd)))
        eqs = []
        for ci, c in enumerate(GCOLS):
            if ci:
                want = sv.div(Sum(0, T, lambda t: inp["cg_val"](t, b, ci)), T)
                eqs.append(sv.cmp("==", cols[c].get((b,)), want))
        yield "gr,gA=frame-average-of-conditional_gr", sv.implies(inr, sv.and_(*eqs))
        writes = [e for e in out.state.trace if e[0] in ("to_csv", "np.save", "np.savetxt")]
        if not inp["of"]:
            yield "file=returned", len(writes) == 0
        elif len(writes) == 1 and writes[0][0] == "to_csv" and writes[0][1] == inp["of"] and writes[0][3] == GCOLS and writes[0][4] == "%.8f":
            yield "file=returned", sv.implies(inr, sv.and_(sv.cmp("==", writes[0][5], n),
                                                           *[sv.cmp("==", writes[0][2][c].get((b,)), cols[c].get((b,))) for c in GCOLS]))
        else:
            yield "file=returned", False

    def replay(self, case, clause, model, seed):
        return _replay_boo("spatial_corr", case, clause, model, seed)


class TimeCorr(Unit):
    """boo_3d.time_corr(coarse_graining, dt, outputfile): time_correlation(trajectory, q_lm resp. Q_lm, dt) (C14 callee contract: frame
    (t, time_corr) with T rows, t[k] = (ts_k - ts_0) dt, time_corr[k] = C(k)/C(0) where C is the origin-averaged autocorrelation
    Re sum_i sum_m q_lm(i, n0+k) conj q_lm(i, n0) for evenly spaced frames and the first-origin one otherwise; requires C(0) != 0), whose
    column time_corr is multiplied by 4 pi/(2l+1) and divided by its own (rescaled) row 0.  Postcondition (eq. (9) normalised as the code's
    comment and the library's C14 convention say): row 0 is exactly 1, time_corr[k] = C(k)/C(0) — the factor 4 pi/(2l+1) cancels —, t is
    the callee's time axis, the CSV holds the returned columns."""
    module = MOD
    qualname = f"{CLS}.time_corr"
    prop = "C09"
    timeout = 10

    def cases(self):
        return [f"{cg}/{of}" for cg in ("local", "coarse") for of in ("nofile", "file")]

    def setup(self, ctx, case):
        from contracts.C14 import Spec
        from pyvc.pandas_model import df_method, new_df
        from pyvc.state import cur
        cg, of = case.split("/")
        o, inp = _setup_corr(ctx, cg == "coarse")
        tr, T, N, M, q = inp["tr"], inp["T"], inp["N"], inp["M"], inp["q"]
        dt = ctx.real("dt")
        # C14's case split: evenly spaced frames (needs T >= 2) use every time origin, any other series the first frame only
        even = ctx.bool("frames_evenly_spaced")
        ctx.assume(sv.implies(even, sv.cmp(">=", T, 2)))
        spec = Spec(q, 3, M, T, N)

        def C(k):
            return sv.ite(even, sv.SV(spec.C(k, "linear")), sv.SV(spec.C(k, "log")))
        C0 = C(0)
        ctx.assume(sv.cmp("!=", C0, 0))      # precondition of time_correlation (C14): the lag-zero value it divides by is non-zero

        def ts(k):
            return sv.SV(tr.TS(sv.znum(k)))
        calls = []

        def tc(interp, args, kwargs):
            """callee contract of time_correlation(snapshots, condition, dt, outputfile) for a rank-3 (vector) series (C14)"""
            snapshots, cond, dt_a, outfile = args[:4]
            _require(getattr(snapshots, "sid", None) == inp["snaps"].sid, "call:time_correlation:pre:snapshots-is-the-trajectory", CALL_TC)
            if not _same_array(cond, q, "call:time_correlation:pre:condition=the-selected-q_lm-field", CALL_TC):
                raise sv.EngineError("time_correlation summary: condition is not an array of rank 3")
            _require(sv.cmp("==", dt_a, dt), "call:time_correlation:pre:dt=the-argument", CALL_TC)
            _require(sv.cmp("!=", C0, 0), "call:time_correlation:pre:C(0)!=0", CALL_TC)
            calls.append(1)
            cols = {"t": A.new_arr((T,), lambda idx: sv.mul(sv.to_real(sv.sub(ts(idx[0]), ts(0))), dt_a), "float"),
                    "time_corr": A.new_arr((T,), lambda idx: sv.div(C(idx[0]), C0), "float")}
            df = new_df(cols, ["t", "time_corr"], T)
            cur().assume(sv.cmp("==", sv.div(C0, C0), 1))     # ensures clause time_corr[0] = 1 of the callee
            if outfile:        # the callee writes its own (un-rescaled) table when it is given a file name
                df_method(interp, df, "to_csv", [outfile], {"float_format": "%.8f", "index": False})
            return df
        ctx.interp.summaries[TCORR] = tc
        outputfile = "gl_time.csv" if of == "file" else ""
        inp.update(dt=dt, C=C, C0=C0, ts=ts, of=outputfile, k=ctx.int("k"), calls=calls)
        return [o], dict(coarse_graining=(cg == "coarse"), dt=dt, outputfile=outputfile), inp

    def clause_names(self, case):
        return [CALL_TC, "returns-frame(t,time_corr)-with-T-rows", "t[k]=(ts_k-ts_0)*dt", "time_corr[k]=C(k)/C(0)", "time_corr[0]=1",
                "div0:rescaled-row-0-is-nonzero", "file=returned"]

    def ensures(self, ctx, case, inp, out):
        from pyvc.pandas_model import df_content
        res = out.value
        T, k, l = inp["T"], inp["k"], inp["l"]
        ok = getattr(res, "kind", None) == "df" and df_content(res)["order"] == ["t", "time_corr"] and A.dim_eq_syntactic(df_content(res)["n"], T) \
            and all(A.dim_eq_syntactic(df_content(res)["cols"][c].shape[0], T) for c in ("t", "time_corr")) and len(inp["calls"]) == 1
        yield "returns-frame(t,time_corr)-with-T-rows", bool(ok)
        if not ok:
            return
        cols = df_content(res)["cols"]
        inr = sv.and_(sv.cmp(">=", k, 0), sv.cmp("<", k, T))
        yield "t[k]=(ts_k-ts_0)*dt", sv.implies(inr, sv.cmp("==", cols["t"].get((k,)), sv.mul(sv.to_real(sv.sub(inp["ts"](k), inp["ts"](0))), inp["dt"])))
        # the value at lag k: C(k)/C(0) (the factor 4 pi/(2l+1) cancels: identity of rational functions, the divisor is the div0 clause)
        yield "time_corr[k]=C(k)/C(0)", sv.implies(inr, sv.cmp("==", cols["time_corr"].get((k,)), sv.div(inp["C"](k), inp["C0"]))), {"ring_only": True}
        yield "time_corr[0]=1", sv.cmp("==", cols["time_corr"].get((0,)), 1)
        # the divisor the code introduces: row 0 of the rescaled column, 4 pi/(2l+1) * C(0)/C(0)
        yield "div0:rescaled-row-0-is-nonzero", sv.and_(sv.cmp("!=", sv.add(sv.mul(2, l), 1), 0),
                                                        sv.cmp("!=", sv.mul(sv.div(sv.mul(4, sv.PI), sv.add(sv.mul(2, l), 1)), sv.div(inp["C0"], inp["C0"])), 0))
        writes = [e for e in out.state.trace if e[0] in ("to_csv", "np.save", "np.savetxt")]
        if not inp["of"]:
            yield "file=returned", len(writes) == 0
        elif writes and all(e[0] == "to_csv" and e[1] == inp["of"] for e in writes) and writes[-1][3] == ["t", "time_corr"] and writes[-1][4] == "%.8f":
            # the content of the file is what the last write put there
            w = writes[-1]
            yield "file=returned", sv.and_(sv.cmp("==", w[5], T), sv.implies(inr, sv.and_(*[sv.cmp("==", w[2][c].get((k,)), cols[c].get((k,))) for c in ("t", "time_corr")])))
        else:
            yield "file=returned", False

    def replay(self, case, clause, model, seed):
        return _replay_boo("time_corr", case, clause, model, seed)


class Init(Unit):
    """boo_3d.__init__: stores the constructor arguments, takes nparticle / boxlength from frame 0 (the two asserts pass on a trajectory
    with one particle number and one box: the object invariant the other units assume) and sets smallqlm, largeQlm = self.qlm_Qlm() — the
    fields every other method works on are the ones qlm_Qlm (its contract above) computes from the same trajectory, files, l, ppp, Nmax"""
    module = MOD
    qualname = f"{CLS}.__init__"
    prop = "C09"
    timeout = 6

    def cases(self):
        return ["weights", "noweights"]

    def setup(self, ctx, case):
        tr = Traj(ctx, 3, same_cell=True)
        l, Nmax = ctx.int("l"), ctx.int("Nmax")
        ppp = A.from_nested([ctx.int(f"ppp_{k}") for k in range(3)], "int")
        snaps = tr.snapshots()
        o = ctx.obj(MOD, CLS, {})
        wf = WEIGHTSFILE if case == "weights" else None
        M = A.simp(sv.add(sv.mul(2, l), 1))
        small = A.new_arr((tr.T, tr.N, M), lambda idx: sv.Cx(sv.real("q_re"), sv.real("q_im")), "complex")
        large = A.new_arr((tr.T, tr.N, M), lambda idx: sv.Cx(sv.real("Q_re"), sv.real("Q_im")), "complex")
        seen = []

        def qlm(interp, args, kwargs):
            me = args[0]
            seen.append(dict(me.content))
            return (small, large)
        ctx.interp.summaries[f"{MOD}.{CLS}.qlm_Qlm"] = qlm
        inp = dict(tr=tr, l=l, Nmax=Nmax, ppp=ppp, snaps=snaps, wf=wf, small=small, large=large, seen=seen, o=o)
        return [o, snaps, l, NEIGHBORFILE, wf, ppp, Nmax], {}, inp

    def clause_names(self, case):
        return ["attributes=arguments-when-qlm_Qlm-runs", "smallqlm,largeQlm=qlm_Qlm()", "nparticle,boxlength=those-of-frame-0"]

    def ensures(self, ctx, case, inp, out):
        seen = inp["seen"]
        ok = len(seen) == 1
        if ok:
            at = seen[0]
            ok = (getattr(at.get("snapshots"), "sid", None) == inp["snaps"].sid and at.get("l") is inp["l"] and at.get("neighborfile") == NEIGHBORFILE
                  and at.get("weightsfile") == inp["wf"] and getattr(at.get("ppp"), "sid", None) == inp["ppp"].sid and at.get("Nmax") is inp["Nmax"])
        yield "attributes=arguments-when-qlm_Qlm-runs", bool(ok)
        fin = inp["o"].content
        yield "smallqlm,largeQlm=qlm_Qlm()", bool(isinstance(fin.get("smallqlm"), A.Arr) and fin["smallqlm"].sid == inp["small"].sid
                                                    and isinstance(fin.get("largeQlm"), A.Arr) and fin["largeQlm"].sid == inp["large"].sid)
        bl = fin.get("boxlength")
        c = ctx.int("c_axis")
        okb = isinstance(bl, A.Arr) and bl.ndim == 1 and A.dim_eq_syntactic(bl.shape[0], 3) and A.dim_eq_syntactic(fin.get("nparticle"), inp["tr"].N)
        yield "nparticle,boxlength=those-of-frame-0", (sv.implies(sv.and_(sv.cmp(">=", c, 0), sv.cmp("<", c, 3)), sv.cmp("==", bl.get((c,)), inp["tr"].bl(0, c))) if okb else False)

    def raises(self, ctx, case, inp, out):
        return None

    def replay(self, case, clause, model, seed):
        return _replay_boo("init", "weighted" if case == "weights" else "unweighted", clause, model, seed)


# ---- lemmas on the spec (fresh variables) -------------------------------------------------------------------------

def lemmas():
    out = []
    # |s_ij| <= 1 (Cauchy-Schwarz) through Lagrange's identity for vectors of length 2l+1:
    #   |a|^2 |b|^2 - Re<a,b>^2 = Im<a,b>^2 + sum_{m<m'} |a_m b_m' - a_m' b_m|^2  >= 0,   <a,b> = sum_m a_m conj(b_m)
    for l in range(1, 13):
        M = 2 * l + 1
        a = [sv.Cx(sv.real(f"a{m}r"), sv.real(f"a{m}i")) for m in range(M)]
        b = [sv.Cx(sv.real(f"b{m}r"), sv.real(f"b{m}i")) for m in range(M)]
        ip = sv.as_cx(_sum([sv.mul(x, sv.conj(y)) for x, y in zip(a, b)]))
        lhs = sv.sub(sv.mul(_sum([_abs2(x) for x in a]), _sum([_abs2(y) for y in b])), sv.mul(ip.re, ip.re))
        rhs = sv.mul(ip.im, ip.im)
        for m1 in range(M):
            for m2 in range(m1 + 1, M):
                rhs = sv.add(rhs, _abs2(sv.sub(sv.mul(a[m1], b[m2]), sv.mul(a[m2], b[m1]))))
        out.append((f"lemma:l={l}:|s_ij|<=1:Lagrange-identity(|a|^2|b|^2-Re<a,b>^2=sum-of-squares)", sv.cmp("==", lhs, rhs), {"ring_only": True}))
    # s^2 <= 1 from the identity: U^2 = P - R with R >= 0, P = na^2 nb^2 > 0, s = U/(na nb)
    U, R, na, nb_ = sv.real("U"), sv.real("R"), sv.real("na"), sv.real("nb")
    s = sv.div(U, sv.mul(na, nb_))
    hyp = sv.and_(na > 0, nb_ > 0, R >= 0, sv.cmp("==", sv.mul(U, U), sv.sub(sv.mul(sv.mul(na, na), sv.mul(nb_, nb_)), R)))
    out.append(("lemma:|s_ij|<=1:from-the-identity", sv.implies(hyp, sv.and_(sv.cmp("<=", s, 1), sv.cmp(">=", s, -1))), {}))
    # 0 <= q_l <= 1: induction over the bonds.  q^(k+1) = (1-t) q^(k) + t Y_{k+1} with t = w_{k+1}/W_{k+1} in [0,1]; per component
    #   (1-t)|x|^2 + t|y|^2 - |(1-t)x + t y|^2 = t(1-t)|x-y|^2      (ring identity; summed over m by linearity)
    # and with sum_m |Y_lm|^2 = (2l+1)/(4 pi) =: C (addition theorem, C08) the step  |q^(k)|^2 <= C  ==>  |q^(k+1)|^2 <= C.
    x, y, t = sv.Cx(sv.real("xr"), sv.real("xi")), sv.Cx(sv.real("yr"), sv.real("yi")), sv.real("t")
    mix = sv.add(sv.mul(sv.sub(1, t), x), sv.mul(t, y))
    out.append(("lemma:0<=q_l<=1:convexity-identity-per-component",
                sv.cmp("==", sv.sub(sv.add(sv.mul(sv.sub(1, t), _abs2(x)), sv.mul(t, _abs2(y))), _abs2(mix)),
                       sv.mul(sv.mul(t, sv.sub(1, t)), _abs2(sv.sub(x, y)))), {"ring_only": True}))
    Aq, By, Cc, Dd, Xn = sv.real("A"), sv.real("B"), sv.real("C"), sv.real("D"), sv.real("X")
    hyp = sv.and_(t >= 0, t <= 1, Aq <= Cc, sv.cmp("==", By, Cc), Dd >= 0,
                  sv.cmp("==", Xn, sv.sub(sv.add(sv.mul(sv.sub(1, t), Aq), sv.mul(t, By)), sv.mul(sv.mul(t, sv.sub(1, t)), Dd))))
    out.append(("lemma:0<=q_l<=1:induction-step(|q^(k)|^2<=C=>|q^(k+1)|^2<=C)", sv.implies(hyp, sv.cmp("<=", Xn, Cc)), {}))
    # base: one bond, q = Y: |q|^2 = C;  conclusion: q_l^2 = 4 pi/(2l+1) |q|^2 <= 1 when |q|^2 <= (2l+1)/(4 pi)
    lz, n2 = sv.real("twolplus1"), sv.real("n2")
    hyp = sv.and_(lz >= 3, n2 >= 0, sv.cmp("<=", n2, sv.div(lz, sv.mul(4, sv.PI))))
    val = sv.mul(sv.div(sv.mul(4, sv.PI), lz), n2)
    out.append(("lemma:0<=q_l<=1:4pi/(2l+1)|q|^2-in-[0,1]", sv.implies(hyp, sv.and_(sv.cmp(">=", val, 0), sv.cmp("<=", val, 1))), {}))
    # eq. (8) of docs/boo_3d.md against what spatial_corr returns.  By the C13 contract frame n contributes gA_n(b) = c_b W_n(b) and
    # gr_n(b) = c_b P_n(b) with W_n(b) = sum over the pairs i<j of bin b of Re sum_m q_lm(i) conj q_lm(j), P_n(b) = the number of those
    # pairs and c_b = 2 V/(N^2 shell_b) the same in every frame (N and the box lengths are frame-independent: __init__).  The method
    # returns the frame means of gA and gr (proved above); their quotient is the pooled pair average
    #     gA(b)/gr(b) = sum_n W_n(b) / sum_n P_n(b)  =  (2l+1)/(4 pi) G_l(r_b)  of eq. (8):
    # the constant leaves the frame sums (induction over the frames: base + step) and cancels together with 1/T.
    I1, R1 = z3.IntSort(), z3.RealSort()
    Wn, Pn = z3.Function("W_frame", I1, R1), z3.Function("P_frame", I1, R1)
    cb, kf = sv.real("c_b"), sv.integer("k_frames")

    def lin(fn, n):
        return sv.cmp("==", Sum(0, n, lambda t: sv.mul(cb, sv.SV(fn(sv.znum(t))))), sv.mul(cb, Sum(0, n, lambda t: sv.SV(fn(sv.znum(t))))))
    for nm, fn in (("gA", Wn), ("gr", Pn)):
        out.append((f"lemma:eq(8):{nm}:constant-leaves-the-frame-sum:base", lin(fn, 0), {}))
        out.append((f"lemma:eq(8):{nm}:constant-leaves-the-frame-sum:step", sv.implies(sv.and_(kf >= 0, lin(fn, kf)), lin(fn, A.simp(sv.add(kf, 1)))), {}))
    SW, SP, Tn = sv.real("sum_W"), sv.real("sum_P"), sv.real("T_frames")
    hyp = sv.and_(Tn >= 1, sv.cmp("!=", cb, 0), sv.cmp("!=", SP, 0))
    out.append(("lemma:eq(8):gA/gr=pooled-pair-average(sum_n-W_n/sum_n-P_n)",
                sv.implies(hyp, sv.cmp("==", sv.mul(sv.div(sv.mul(cb, SW), Tn), SP), sv.mul(sv.div(sv.mul(cb, SP), Tn), SW))), {}))
    # eq. (9): the prefactor 4 pi/(2l+1) multiplies numerator and (through the normalisation by the lag-zero value) denominator: it cancels
    fpre, Ck, C0 = sv.real("f_4pi_over_2l+1"), sv.real("C_k"), sv.real("C_0")
    out.append(("lemma:eq(9):prefactor-cancels-under-normalisation-at-lag-0",
                sv.implies(sv.and_(sv.cmp("!=", fpre, 0), sv.cmp("!=", C0, 0)),
                           sv.and_(sv.cmp("==", sv.mul(sv.mul(fpre, Ck), C0), sv.mul(sv.mul(fpre, C0), Ck)),     # (f C_k)/(f C_0) = C_k/C_0, cross-multiplied
                                   sv.cmp("==", sv.div(sv.mul(fpre, C0), sv.mul(fpre, C0)), 1))), {}))
    # equal weights reproduce the unweighted result: w_j = a for all j  =>  w_j / (cn a) = 1/cn   (sum_{j<cn} a = cn a)
    aw, cnr = sv.real("a_w"), sv.real("cn")
    out.append(("lemma:equal-weights=>omega_j=1/cn", sv.implies(sv.and_(aw > 0, cnr >= 1), sv.cmp("==", sv.div(aw, sv.mul(cnr, aw)), sv.div(1, cnr))), {}))
    return out


def extra_checks(tier, seed, repo):
    from pyvc import solve
    from pyvc.state import State, use_state
    from pyvc.vc import ObResult
    obs = []
    with use_state(State()):
        for name, goal, opts in lemmas():
            ob = ObResult(f"C09:{name}")
            ob.add(solve.prove([], sv.zb(goal) if isinstance(goal, sv.SV) else z3.BoolVal(bool(goal)), 20, opts))
            obs.append(ob.finish().as_dict())
    return {"obligations": obs}


for _c in (QlQl, Sij, WCap, SpatialCorr, TimeCorr):
    _with_object_frame(_c)
UNITS = [QlQl(), QlmQlm(), Sij(), WCap(), SpatialCorr(), TimeCorr(), Init()]
# callee contracts of other properties used at call sites: their units are re-verified with this check
from contracts.common import callee_units as _callee_units   # noqa: E402
UNITS = UNITS + _callee_units([('C02', None), ('C05', {'read_neighbors'}), ('C08', None), ('C13', {'conditional_gr'}), ('C14', None)], UNITS)

MANIFEST = {
    "text": "boo_3d.__init__, qlm_Qlm, ql_Ql, sij_ql_Ql, w_W_cap, spatial_corr, time_corr and utils.funcs.Wignerindex (real ASTs, re-read every run; "
            "symbolic frame number T, particle number N, degree l >= 1 (w_W_cap: l = 2, 3, 4, 6), neighbour arrays, cells, masks, Nmax, threshold "
            "c, rdelta, dt): q_lm(n,i) returned by "
            "qlm_Qlm equals (1/cn) sum_j Y_lm(arccos(b_z/|b|), atan2(b_y,b_x)) over the minimum-image bonds of the neighbour file "
            "(unweighted) resp. sum_j (w_j / sum_j' w_j') Y_lm (weight file; the code's sum over the zero-padded row equals the sum of the "
            "cn_i weights), frame k of both files is used for snapshot k, Q_lm = (q_i + sum_j q_j)/(1+cn_i) over the returned q; index "
            "bounds and loop summaries of the three nested loops; ql_Ql = sqrt(4 pi/(2l+1) sum_m |q_lm|^2) >= 0 for both fields, saved "
            "file = returned array; sij_ql_Ql returns per frame [id, cn, s_ij (j < cn), 0 padding] with s_ij = Re(q_i.conj q_j)/(|q_i||q_j|), "
            "the csv frame holds id, #{j < cn_i : s_ij > c}, cn_i at row n*N+i, the ValueError branch is unreachable; with outputsij the returned "
            "array is the frames stacked (row n*N+i) and cut to 2 + maxcn columns, maxcn the largest coordination number (attained, bounds "
            "every cn_i, <= Nmax), and np.savetxt receives that array with header 'id CN sij' and the format '%d %d ' + maxcn * '%.6f ' (one "
            "format per column); w_l and w^_l (eq. 6, 7) "
            "with Wignerindex executed from its body; spatial_corr (both fields, with / without csv): every call of conditional_gr passes the "
            "snapshot of frame n, the q_lm (Q_lm) rows of the same frame, conditiontype 'vector', the object's ppp and the rdelta argument and "
            "meets the callee's preconditions (named clause), the frame loop satisfies the written invariant glresults(k) = sum_{t<k} "
            "conditional_gr(frame t) (init from the real pre-state 0, step), the returned frame has columns r, gr, gA and int(Lmin/2/rdelta) "
            "rows, r = bin centre, gr / gA = (1/T) sum_n of the callee's tables, bin by bin, csv = returned columns (%.8f); time_corr (both "
            "fields, with / without csv): time_correlation is called with the trajectory, the selected field and dt, the returned frame has "
            "T rows, t[k] = (ts_k - ts_0) dt untouched, time_corr[k] = C(k)/C(0) (the factor 4 pi/(2l+1) cancels), time_corr[0] = 1, the "
            "divisor 4 pi/(2l+1) C(0)/C(0) is non-zero, csv = returned columns; the units of conditional_gr (C13) and time_correlation (C14) are "
            "re-verified with this check; __init__ stores its arguments before qlm_Qlm runs and sets smallqlm, largeQlm to the pair qlm_Qlm returns; "
            "lemmas: Lagrange identity => |s_ij| <= 1 for l = 1..12, convexity identity + induction "
            "step + base => 0 <= q_l <= 1, equal weights => omega_j = 1/cn, eq. (8): gA/gr of the returned frame means = pair average pooled "
            "over the frames, eq. (9): the prefactor cancels under the normalisation at lag 0. Extension round: every query method (ql_Ql, sij_ql_Ql, w_W_cap, spatial_corr, time_corr) leaves the q_lm / Q_lm arrays held by the object unwritten (frame clause); w_W_cap file cases cover the text twins of both outputs.",
    "note": "floats as reals (A1, s_ij is stored in float32); callee contracts of read_neighbors (C05), sph_harm_l (C08), remove_pbc (C02), "
            "conditional_gr (C13), time_correlation (C14); Y_lm abstract (only the table layout is used); positive weights and cn_i >= 1 as the "
            "property states; preconditions of the correlation methods: N >= 2, rdelta > 0, box lengths >= 2 rdelta, lag-zero correlation "
            "non-zero; object invariant of __init__ (equal box lengths and particle numbers in all frames) assumed; eq. (8)/(9) as printed "
            "carry a prefactor 4 pi/(2l+1) that the returned frames do not (documentation looseness, see NOT_DECIDED / design_notes/C09.md)",
}
