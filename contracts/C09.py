"""C09 — 3-D bond-orientational order equals Steinhardt's definitions (class boo_3d of PyMatterSim/static/boo.py).

Functions under contract: boo_3d.qlm_Qlm, ql_Ql, sij_ql_Ql, w_W_cap, spatial_corr, time_corr, utils.funcs.Wignerindex.
Callee contracts used (not bodies): read_neighbors (C05), remove_pbc (C02), sph_harm_l (C08), conditional_gr (C13),
time_correlation (C14).

Spec (docs/boo_3d.md eq. 1-9 and the property statement).  Frame n, particle i, cn = NB(n,i,0) >= 1 neighbours
nb_j = NB(n,i,1+j) (j < cn), bond b = D_n(i, nb_j) (minimum image, C02), theta = arccos(b_z/|b|), phi = atan2(b_y, b_x):
  q_lm(n,i)  = sum_{j<cn} omega_j Y_lm(theta_j, phi_j),  omega_j = 1/cn   or   w_j / sum_{j'<cn} w_j'        (eq. 1, 2)
  Q_lm(n,i)  = (q_lm(n,i) + sum_{j<cn} q_lm(n, nb_j)) / (1 + cn)                                            (eq. 3)
  q_l        = sqrt(4 pi/(2l+1) sum_m |q_lm|^2)                                                               (eq. 4)
  s(i,j)     = Re(sum_m q_lm(i) conj q_lm(j)) / (|q(i)| |q(j)|);   count_i = #{j < cn : s(i,nb_j) > c}         (eq. 5)
  w_l        = sum_{m1+m2+m3=0} W3j(l,m1,m2,m3) Re(q_lm1 q_lm2 q_lm3),   w^_l = w_l (sum_m |q_lm|^2)^(-3/2)   (eq. 6, 7)
  G_l, C_l   = the callee contracts of conditional_gr / time_correlation applied to the vector field q_lm (eq. 8, 9)
The m axis is index m + l of an axis of length 2l+1.  Y_lm is the definition of C08 (abstract function of l, m, polar,
azimuth: this property needs only that sph_harm_l returns that table, plus the addition theorem for the bounds).
"""
import z3

from contracts.common import PBC, Traj, min_image
from pyvc import arr as A
from pyvc import sigma, sv
from pyvc.sigma import Sum
from pyvc.vc import Unit

MOD = "PyMatterSim.static.boo"
CLS = "boo_3d"

NOT_DECIDED = []
TRUSTED = []


def _sum(xs):
    acc = 0
    for x in xs:
        acc = sv.add(acc, x)
    return acc


def _abs2(c):
    c = sv.as_cx(c)
    return sv.add(sv.mul(c.re, c.re), sv.mul(c.im, c.im))


# ---- self object ----------------------------------------------------------------------------------------

def _qfield(ctx, name, T, N, M):
    """symbolic complex field name(n, i, k): the object invariant established by __init__ (smallqlm / largeQlm)"""
    return ctx.array(name, (T, N, M), "complex", origin=f"self.{name}")


def _boo_self(ctx, l, T, N, extra=None):
    M = A.simp(sv.add(sv.mul(2, l), 1))
    small = _qfield(ctx, "smallqlm", T, N, M)
    large = _qfield(ctx, "largeQlm", T, N, M)
    attrs = dict(l=l, smallqlm=small, largeQlm=large, nparticle=N)
    attrs.update(extra or {})
    return ctx.obj(MOD, CLS, attrs), small, large, M


def _sym_l(ctx):
    l = ctx.int("l")
    ctx.assume(l >= 1)
    return l


# ---- ql_Ql ----------------------------------------------------------------------------------------------

def ql_spec(q, l, M, n, i):
    """sqrt(4 pi/(2l+1) sum_m |q_lm|^2)"""
    s = Sum(0, M, lambda k: _abs2(q.get((n, i, k))))
    return sv.sqrt(sv.mul(sv.div(sv.mul(4, sv.PI), sv.add(sv.mul(2, l), 1)), s))


class QlQl(Unit):
    """boo_3d.ql_Ql(coarse_graining, outputfile)[n, i] = sqrt(4 pi/(2l+1) sum_m |q_lm(n,i)|^2) of the selected field"""
    module = MOD
    qualname = f"{CLS}.ql_Ql"
    prop = "C09"
    timeout = 20

    def cases(self):
        return [f"{cg}/{of}" for cg in ("local", "coarse") for of in ("nofile", "npy", "dat", "txt")]

    def setup(self, ctx, case):
        cg, of = case.split("/")
        l = _sym_l(ctx)
        T, N = ctx.int("T"), ctx.int("N")
        ctx.assume(T >= 1)
        ctx.assume(N >= 1)
        o, small, large, M = _boo_self(ctx, l, T, N)
        outputfile = {"nofile": None, "npy": "ql.npy", "dat": "ql.dat", "txt": "ql.txt"}[of]
        inp = dict(l=l, T=T, N=N, M=M, q=large if cg == "coarse" else small, other=small if cg == "coarse" else large,
                   outputfile=outputfile, n=ctx.int("n"), i=ctx.int("i"))
        return [o], dict(coarse_graining=(cg == "coarse"), outputfile=outputfile), inp

    def clause_names(self, case):
        return ["shape=(T,N)", "q_l=sqrt(4pi/(2l+1)*sum_m|q_lm|^2)", "q_l>=0", "file=returned"]

    def ensures(self, ctx, case, inp, out):
        res = out.value
        T, N, n, i = inp["T"], inp["N"], inp["n"], inp["i"]
        ok = isinstance(res, A.Arr) and res.ndim == 2 and A.dim_eq_syntactic(res.shape[0], T) and A.dim_eq_syntactic(res.shape[1], N)
        yield "shape=(T,N)", bool(ok)
        if not ok:
            return
        inr = sv.and_(sv.cmp(">=", n, 0), sv.cmp("<", n, T), sv.cmp(">=", i, 0), sv.cmp("<", i, N))
        got = res.get((n, i))
        want = ql_spec(inp["q"], inp["l"], inp["M"], n, i)
        yield "q_l=sqrt(4pi/(2l+1)*sum_m|q_lm|^2)", sv.implies(inr, sv.cmp("==", got, want))
        yield "q_l>=0", sv.implies(inr, sv.cmp(">=", got, 0))
        yield "file=returned", _file_clause(out, inp["outputfile"], res, (n, i), inr)

    def replay(self, case, clause, model, seed):
        return _replay_boo("ql_Ql", case, clause, model, seed)


def _file_clause(out, outputfile, res, idx, inr, kinds=("np.save", "np.savetxt")):
    """np.save always when a file name is given, np.savetxt in addition for .dat/.txt; the saved array is the returned one"""
    writes = [e for e in out.state.trace if e[0] in kinds]
    if outputfile is None:
        return len(writes) == 0
    want = ["np.save"] + (["np.savetxt"] if outputfile.endswith((".dat", ".txt")) else [])
    if [e[0] for e in writes] != want or any(e[1] != outputfile for e in writes):
        return False
    eqs = []
    for e in writes:
        a = e[2]
        if not (isinstance(a, A.Arr) and a.ndim == res.ndim and all(A.dim_eq_syntactic(x, y) for x, y in zip(a.shape, res.shape))):
            return False
        eqs.append(sv.cmp("==", a.get(idx), res.get(idx)))
    return sv.implies(inr, sv.and_(*eqs))


def _replay_boo(what, case, clause, model, seed):
    return {"ran": False, "failed": False, "error": "replay harness not written yet"}


UNITS = [QlQl()]

MANIFEST = {"text": "", "note": ""}
