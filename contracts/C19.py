"""C19 — header writer, auxiliary readers and the dump reader agree on the same data.

Functions under contract (real ASTs):
  writer.lammps_writer.write_dump_header / write_data_header                      (token lines of the returned text)
  reader.lammps_reader_helper.read_lammps_vector / read_lammps_centertype          (one frame from a symbolic file)
  reader.lammps_reader_helper.read_additions                                       (whole symbolic file, T frames)
  reader.gsd_reader_helper.read_gsd / read_gsd_dcd                                 (duck-typed HOOMD frame objects)
  reader.simulation_log.read_lammpslog                                             (symbolic log file)
  round trip: the text returned by write_dump_header, followed by N atom lines, fed to the real header-parsing code of the
  column reader (same statements as read_lammps) gives back timestep, N and round6(bounds).

Specifications come from the LAMMPS dump grammar (`ITEM:` sections), the documentation docs/reader.md, docs/writer.md and
the property statement; nothing is read back from the code.
"""
import z3

from pyvc import arr as A
from pyvc import sv
from pyvc.text import LineVal, Tok, TokList, new_rfile
from pyvc.vc import Unit

WR = "PyMatterSim.writer.lammps_writer"
LR = "PyMatterSim.reader.lammps_reader_helper"
GR = "PyMatterSim.reader.gsd_reader_helper"
SL = "PyMatterSim.reader.simulation_log"
RU = "PyMatterSim.reader.reader_utils"

NOT_DECIDED = [
    "binary GSD / DCD formats and the gsd / mdtraj libraries themselves (not installed; the converters are verified on duck-typed frame objects)",
    "pandas.read_csv (assumed contract: header = line `skiprows`, rows = the next `nrows` lines); character-level text layout beyond tokens",
    "exact equality of the bounds after the round trip (the writer prints 6 decimals: read back is round6(bound), |difference| <= 5e-7)",
]
TRUSTED = [
    "token/file model of pyvc/text.py (readline/readlines, split, int/float of tokens, numpy string->float on assignment, startswith on literal words)",
    "`.6f` formatting = decimal rounding to 6 places (round6: within 5e-7, monotone, sign preserving; exact on concrete decimals)",
]


# =====================================================================================================
# writers


def _tok_is(tok, kind):
    return isinstance(tok, Tok) and tok.kind == kind


class WriteDumpHeader(Unit):
    """write_dump_header(timestep, nparticle, boxbounds, addson): the LAMMPS dump grammar
       ITEM: TIMESTEP / ts / ITEM: NUMBER OF ATOMS / N / ITEM: BOX BOUNDS pp pp pp / 3 lines `lo hi` (%.6f; in 2-D the third is the
       dummy z line -0.5 0.5) / ITEM: ATOMS id type x y [z] <addson words>      — exactly 9 lines, newline terminated."""
    module = WR
    qualname = "write_dump_header"
    prop = "C19"

    ADDS = {"none": None, "empty": "", "one": "order", "two": "order Q6"}

    def cases(self):
        return [f"d={d}/addson={a}" for d in (2, 3) for a in self.ADDS]

    def setup(self, ctx, case):
        d = int(case[2])
        add = self.ADDS[case.split("=")[-1]]
        ts, N = ctx.int("timestep"), ctx.int("nparticle")
        bb = ctx.array("boxbounds", (d, 2), "float")
        kw = {} if add is None else {"addson": add}
        return [ts, N, bb], kw, dict(d=d, ts=ts, N=N, bb=bb, add=add)

    def clause_names(self, case):
        return ["nine-newline-terminated-lines", "line0:ITEM:-TIMESTEP", "line1:timestep", "line2:ITEM:-NUMBER-OF-ATOMS", "line3:nparticle",
                "line4:ITEM:-BOX-BOUNDS-pp-pp-pp", "lines5-7:bounds-rounded-to-6-decimals(dummy-z-in-2D)", "line8:ITEM:-ATOMS-id-type-coordinates-addson"]

    def ensures(self, ctx, case, inp, out):
        yield from dump_header_clauses(self.clause_names(case), out.value, inp)

    def replay(self, case, clause, model, seed):
        return _replay_writers(seed)


def header_lines(value):
    """token lines of a text value returned by a writer (None when it has no line structure)"""
    from pyvc.text import Text, text_lines
    try:
        if isinstance(value, str):
            return text_lines([Text([value])])
        if isinstance(value, Text):
            return text_lines([value])
    except sv.EngineError:
        return None
    return None


def dump_header_clauses(names, value, inp):
    d, ts, N, bb = inp["d"], inp["ts"], inp["N"], inp["bb"]
    lines = header_lines(value)
    ok = lines is not None and len(lines) == 10 and lines[9] == []
    yield names[0], bool(ok)
    if not ok:
        return
    yield names[1], lines[0] == ["ITEM:", "TIMESTEP"]
    yield names[2], sv.and_(len(lines[1]) == 1 and _tok_is(lines[1][0], "int"), sv.cmp("==", lines[1][0].value, ts) if len(lines[1]) == 1 and _tok_is(lines[1][0], "int") else False)
    yield names[3], lines[2] == ["ITEM:", "NUMBER", "OF", "ATOMS"]
    yield names[4], sv.and_(len(lines[3]) == 1 and _tok_is(lines[3][0], "int"), sv.cmp("==", lines[3][0].value, N) if len(lines[3]) == 1 and _tok_is(lines[3][0], "int") else False)
    yield names[5], lines[4] == ["ITEM:", "BOX", "BOUNDS", "pp", "pp", "pp"]
    conds = []
    for k in range(3):
        ln = lines[5 + k]
        if len(ln) != 2 or not all(_tok_is(t, "float") for t in ln):
            conds.append(False)
            continue
        for e in range(2):
            if k < d:
                want = sv.round_dec(bb.get((k, e)), 6)
            else:
                want = sv.to_frac(-0.5 if e == 0 else 0.5)
            conds.append(sv.cmp("==", ln[e].value, want))
    yield names[6], sv.and_(*conds)
    add = inp["add"]
    words = ["ITEM:", "ATOMS", "id", "type"] + ["x", "y", "z"][:d] + ("None" if add is None else add).split()
    yield names[7], lines[8] == words


class WriteDataHeader(Unit):
    """write_data_header(nparticle, nparticle_type, boxbounds): LAMMPS data-file header
       `LAMMPS data file` / blank / `N atoms` / `K atom types` / blank / `xlo xhi xlo xhi` / y / z (dummy -0.5 0.5 in 2-D) / blank /
       `Atoms #atomic` / blank."""
    module = WR
    qualname = "write_data_header"
    prop = "C19"

    def cases(self):
        return ["d=2", "d=3"]

    def setup(self, ctx, case):
        d = int(case[2])
        N, K = ctx.int("nparticle"), ctx.int("nparticle_type")
        bb = ctx.array("boxbounds", (d, 2), "float")
        return [N, K, bb], {}, dict(d=d, N=N, K=K, bb=bb)

    def clause_names(self, case):
        return ["eleven-newline-terminated-lines", "title-and-blank-lines", "N-atoms", "K-atom-types", "bounds-lines-rounded-to-6-decimals(dummy-z-in-2D)",
                "Atoms-section-header"]

    def ensures(self, ctx, case, inp, out):
        names = self.clause_names(case)
        d, N, K, bb = inp["d"], inp["N"], inp["K"], inp["bb"]
        lines = header_lines(out.value)
        ok = lines is not None and len(lines) == 12 and lines[11] == []
        yield names[0], bool(ok)
        if not ok:
            return
        yield names[1], lines[0] == ["LAMMPS", "data", "file"] and lines[1] == [] and lines[4] == [] and lines[8] == [] and lines[10] == []
        for nm, ln, val, words in ((names[2], lines[2], N, ["atoms"]), (names[3], lines[3], K, ["atom", "types"])):
            good = len(ln) == 1 + len(words) and _tok_is(ln[0], "int") and ln[1:] == words
            yield nm, sv.and_(bool(good), sv.cmp("==", ln[0].value, val) if good else False)
        conds = []
        for k, ax in enumerate("xyz"):
            ln = lines[5 + k]
            if len(ln) != 4 or ln[2:] != [ax + "lo", ax + "hi"]:
                conds.append(False)
                continue
            for e in range(2):
                if k < d:
                    conds.append(sv.and_(_tok_is(ln[e], "float"), sv.cmp("==", ln[e].value, sv.round_dec(bb.get((k, e)), 6)) if _tok_is(ln[e], "float") else False))
                else:
                    conds.append(ln[e] == ("-0.5" if e == 0 else "0.5"))
        yield names[4], sv.and_(*conds)
        yield names[5], lines[9] == ["Atoms", "#atomic"]

    def replay(self, case, clause, model, seed):
        return _replay_writers(seed)


def _replay_writers(seed):
    """real writers on random inputs: the returned strings, split into lines and words, obey the two grammars; then the dump header +
    atom lines is read back by the real read_lammps with the same timestep, N and bounds (to 6 decimals)"""
    import importlib
    import io
    import random

    import numpy as np
    W = importlib.import_module(WR)
    R = importlib.import_module(LR)
    rng = random.Random(seed)
    for trial in range(200):
        d = rng.choice([2, 3])
        ts = rng.choice([0, 1, rng.randint(0, 10 ** 9)])
        N = rng.randint(1, 6)
        K = rng.randint(1, 5)
        bb = np.array([[rng.uniform(-50, 50), 0] for _ in range(d)])
        bb[:, 1] = bb[:, 0] + [rng.uniform(0.5, 40) for _ in range(d)]
        if trial % 5 == 0:
            bb = np.round(bb, rng.choice([0, 2, 6]))
        add = rng.choice([None, "", "order", "order Q6"])
        kw = {} if add is None else {"addson": add}
        inputs = {"timestep": ts, "nparticle": N, "boxbounds": bb.tolist(), "addson": add}
        try:
            h = W.write_dump_header(ts, N, bb, **kw)
            g = W.write_data_header(N, K, bb)
        except Exception as e:
            return {"ran": True, "failed": True, "inputs": inputs, "detail": f"raises {type(e).__name__}: {e}"}
        want = [["ITEM:", "TIMESTEP"], [str(ts)], ["ITEM:", "NUMBER", "OF", "ATOMS"], [str(N)], ["ITEM:", "BOX", "BOUNDS", "pp", "pp", "pp"]]
        for k in range(3):
            want.append([f"{bb[k][0]:.6f}", f"{bb[k][1]:.6f}"] if k < d else ["-0.500000", "0.500000"])
        want.append(["ITEM:", "ATOMS", "id", "type"] + ["x", "y", "z"][:d] + str(add).split())
        got = [ln.split() for ln in h.split("\n")]
        if not h.endswith("\n") or got[:-1] != want:
            return {"ran": True, "failed": True, "inputs": inputs, "detail": f"dump header lines {got}, expected {want}", "searched": trial + 1}
        wantd = [["LAMMPS", "data", "file"], [], [str(N), "atoms"], [str(K), "atom", "types"], []]
        for k, ax in enumerate("xyz"):
            wantd.append(([f"{bb[k][0]:.6f}", f"{bb[k][1]:.6f}"] if k < d else ["-0.5", "0.5"]) + [ax + "lo", ax + "hi"])
        wantd += [[], ["Atoms", "#atomic"], []]
        gotd = [ln.split() for ln in g.split("\n")]
        if not g.endswith("\n") or gotd[:-1] != wantd:
            return {"ran": True, "failed": True, "inputs": inputs, "detail": f"data header lines {gotd}, expected {wantd}", "searched": trial + 1}
        # round trip through the real dump reader
        ids = list(range(1, N + 1))
        rng.shuffle(ids)
        pos = {i: [rng.uniform(float(bb[k][0]), float(bb[k][1])) for k in range(d)] for i in ids}
        typ = {i: rng.randint(1, 3) for i in ids}
        nadd = len(str(add).split())
        text = h + "".join(f"{i} {typ[i]} " + " ".join(repr(x) for x in pos[i]) + "".join(f" {rng.uniform(0, 1)!r}" for _ in range(nadd)) + "\n" for i in ids)
        try:
            snap = R.read_lammps(io.StringIO(text), d)
        except Exception as e:
            return {"ran": True, "failed": True, "inputs": dict(inputs, text=text), "detail": f"read_lammps on the written frame raises {type(e).__name__}: {e}"}
        bad = None
        if snap is None or snap.timestep != ts or snap.nparticle != N:
            bad = f"timestep/nparticle read back {getattr(snap, 'timestep', None)}/{getattr(snap, 'nparticle', None)}, written {ts}/{N}"
        elif np.abs(np.asarray(snap.boxbounds) - bb).max() > 5.000001e-7:
            bad = f"bounds read back {np.asarray(snap.boxbounds).tolist()}, written {bb.tolist()}"
        elif any(int(snap.particle_type[i - 1]) != typ[i] or not np.allclose(snap.positions[i - 1], pos[i], rtol=0, atol=1e-12) for i in ids):
            bad = "atom lines not read back by id"
        if bad:
            return {"ran": True, "failed": True, "inputs": dict(inputs, text=text), "detail": bad, "searched": trial + 1}
    return {"ran": True, "failed": False, "searched": 200}


UNITS = [WriteDumpHeader(), WriteDataHeader()]

MANIFEST = {
    "text": "TODO",
    "note": "TODO",
}
