"""C19 — header writer, auxiliary readers and the dump reader agree on the same data.

Functions under contract (real ASTs):
  writer.lammps_writer.write_dump_header / write_data_header                      (token lines of the returned text)
  reader.lammps_reader_helper.read_lammps_vector / read_lammps_centertype          (one frame from a symbolic file)
  reader.lammps_reader_helper.read_additions                                       (whole symbolic file, T frames)
  reader.gsd_reader_helper.read_gsd / read_gsd_dcd                                 (duck-typed HOOMD frame objects)
  reader.simulation_log.read_lammpslog                                             (symbolic log file)
  round trip: the text returned by write_dump_header, followed by N atom lines, fed to the real header-parsing code of the
  column reader (same statements as read_lammps) gives back timestep, N and round6(bounds).

Specifications come from the LAMMPS dump grammar (`ITEM:` sections), the documentation docs/reader.md, docs/writer.md and
the property statement; nothing is read back from the code.
"""
import z3

from pyvc import arr as A
from pyvc import sv
from pyvc.text import LineVal, Tok, TokList, new_rfile
from pyvc.vc import Unit

WR = "PyMatterSim.writer.lammps_writer"
LR = "PyMatterSim.reader.lammps_reader_helper"
GR = "PyMatterSim.reader.gsd_reader_helper"
SL = "PyMatterSim.reader.simulation_log"
RU = "PyMatterSim.reader.reader_utils"

NOT_DECIDED = [
    "binary GSD / DCD formats and the gsd / mdtraj libraries themselves (not installed; read_gsd_wrapper / read_gsd_dcd_wrapper only import, open and "
    "delegate: the converters are verified on duck-typed frame objects)",
    "pandas.read_csv (assumed contract: column names = words of line `skiprows`, rows = the next `nrows` lines, no blank / comment line inside a "
    "thermodynamic section); content of the frame of an UNFINISHED last section of an interrupted log (the statement speaks of complete sections)",
    "exact equality of the bounds after the round trip: the writer prints 6 decimals, so what is read back is round6(bound) (proved), within 5e-7 (proved)",
    "character-level text layout beyond tokens (column widths, exponent formats); decimal <-> binary conversion of numbers (A1)",
    "order of the selected atoms relies on the assumed numpy contract `a[mask]` keeps positions in increasing order",
    "malformed inputs: logs whose 'Step ' and 'Loop time of ' lines do not alternate, a last line consisting of blanks only, dumps with a varying "
    "particle number given to read_additions (its documented presupposition is a fixed 9 + N frame length)",
]
TRUSTED = [
    "token/file model of pyvc/text.py (readline / readlines, split, int/float of tokens, numpy string->float on assignment, slices of the line list, "
    "`startswith` / `== '\\n'` / `isnumeric` of a symbolic line as uninterpreted predicates of the line number)",
    "`.6f` formatting = decimal rounding to 6 places (round6: within 5e-7, monotone, sign preserving; evaluated exactly on concrete decimals)",
    "assumed library contracts used: boolean-mask / filtered-comprehension selection = increasing enumeration SEL with inverse RANK (pyvc/relops.select), "
    "ndarray.min/max(axis=0) attained and bounding (relops.extremum), pd.Series.map(dict), np.where, np.diag, np.column_stack, np.maximum, "
    "dataclasses.replace (new instance, given fields replaced), pandas.read_csv(skiprows, nrows) as (file, header line, first row, row count)",
    "loop summaries of pyvc/loops.py incl. `L.append(object(i))` -> sequence of per-iteration deep copies (checked by init/step obligations with "
    "structural value equality) and `every body path raises` -> the loop raises when entered",
    "wrappers: the per-frame reader enters the frame loop through its contract (returns the frame at the handle and advances to the next frame start, "
    "None at end of file) — its body is verified by its own unit; the ghost frame-start function FSTART(s+1) = FSTART(s) + 9 + N_s",
]


# =====================================================================================================
# writers


def _tok_is(tok, kind):
    return isinstance(tok, Tok) and tok.kind == kind


class WriteDumpHeader(Unit):
    """write_dump_header(timestep, nparticle, boxbounds, addson): the LAMMPS dump grammar
       ITEM: TIMESTEP / ts / ITEM: NUMBER OF ATOMS / N / ITEM: BOX BOUNDS pp pp pp / 3 lines `lo hi` (%.6f; in 2-D the third is the
       dummy z line -0.5 0.5) / ITEM: ATOMS id type x y [z] <addson words>      — exactly 9 lines, newline terminated."""
    module = WR
    qualname = "write_dump_header"
    prop = "C19"

    ADDS = {"none": None, "empty": "", "one": "order", "two": "order Q6"}

    def cases(self):
        return [f"d={d}/addson={a}" for d in (2, 3) for a in self.ADDS]

    def setup(self, ctx, case):
        d = int(case[2])
        add = self.ADDS[case.split("=")[-1]]
        ts, N = ctx.int("timestep"), ctx.int("nparticle")
        bb = ctx.array("boxbounds", (d, 2), "float")
        kw = {} if add is None else {"addson": add}
        return [ts, N, bb], kw, dict(d=d, ts=ts, N=N, bb=bb, add=add)

    def clause_names(self, case):
        return ["nine-newline-terminated-lines", "line0:ITEM:-TIMESTEP", "line1:timestep", "line2:ITEM:-NUMBER-OF-ATOMS", "line3:nparticle",
                "line4:ITEM:-BOX-BOUNDS-pp-pp-pp", "lines5-7:bounds-rounded-to-6-decimals(dummy-z-in-2D)", "line8:ITEM:-ATOMS-id-type-coordinates-addson"]

    def ensures(self, ctx, case, inp, out):
        yield from dump_header_clauses(self.clause_names(case), out.value, inp)

    def replay(self, case, clause, model, seed):
        return _replay_writers(seed)


class RoundTrip(Unit):
    """writer -> reader: the text returned by the REAL write_dump_header, followed by N well-formed atom lines (ids a bijection onto
       1..N, any order, the columns the ATOMS line lists), is given to the REAL dump reader read_lammps (and to the column reader, whose
       header parsing is a separate copy of the same statements): it is read back with timestep = ts, nparticle = N,
       boxbounds[k] = round6(bounds[k]) (hence within 5e-7 of what was written), boxlength = their difference, in 2-D (dummy z line
       consumed) and 3-D, and the reader's handle ends exactly behind the frame (so frames written one after the other are read in turn)."""
    module = WR
    qualname = "write_dump_header"
    prop = "C19"
    timeout = 20

    @property
    def name(self):
        return "write_dump_header->reader"

    def cases(self):
        return [f"d={d}/addson={a}/{rd}" for d in (2, 3) for a in ("empty", "two") for rd in ("read_lammps", "read_lammps_vector")]

    def setup(self, ctx, case):
        d = int(case[2])
        add = WriteDumpHeader.ADDS[case.split("/")[1].split("=")[1]]
        ts, N = ctx.int("timestep"), ctx.int("nparticle")
        ctx.assume(N >= 1)
        bb = ctx.array("boxbounds", (d, 2), "float")
        return [ts, N, bb], {"addson": add}, dict(d=d, ts=ts, N=N, bb=bb, add=add, reader=case.split("/")[2], r=ctx.int("r"))

    def clause_names(self, case):
        return ["written-text-has-nine-lines", "reader-returns-a-snapshot", "timestep-read-back", "nparticle-read-back", "bounds-read-back-rounded-to-6-decimals",
                "bounds-within-5e-7-of-the-written-ones", "boxlength-read-back", "atom-lines-read-by-id", "handle-ends-behind-the-frame"]

    def ensures(self, ctx, case, inp, out):
        from pyvc.interp import FuncVal, load_module
        names = self.clause_names(case)
        d, ts, N, bb, r = inp["d"], inp["ts"], inp["N"], inp["bb"], inp["r"]
        lines = header_lines(out.value)
        ok = lines is not None and len(lines) == 10 and lines[9] == []
        yield names[0], bool(ok)
        if not ok:
            return
        f, sym = dump_frame_file(ctx, d, [], header=lines[:9], tag="_rt", N=N)     # as many atom lines as the header announces
        m = load_module(LR)
        interp = ctx.interp
        interp.depth += 1
        try:
            if inp["reader"] == "read_lammps":
                snap = interp.call_function(FuncVal(m, m.defs["read_lammps"]), [f, d], {})
            else:
                snap = interp.call_function(FuncVal(m, m.defs["read_lammps_vector"]), [f, d, ctx.pylist([3, 4])], {})
        finally:
            interp.depth -= 1
        ok = _is_snapshot(snap)
        yield names[1], bool(ok)
        if not ok:
            return
        c = snap.content
        eqN = []
        yield names[2], sv.cmp("==", c["timestep"], ts)
        yield names[3], sv.cmp("==", c["nparticle"], N), {"assume": eqN}
        r6 = [[sv.round_dec(bb.get((k, e)), 6) for e in range(2)] for k in range(d)]
        yield names[4], _arr_eq(c.get("boxbounds"), r6)
        half = sv.to_frac(5e-7)
        got = c.get("boxbounds")
        near = [sv.and_(sv.cmp("<=", sv.sub(got.get((k, e)), bb.get((k, e))), half), sv.cmp("<=", sv.sub(bb.get((k, e)), got.get((k, e))), half))
                for k in range(d) for e in range(2)] if isinstance(got, A.Arr) and tuple(got.shape) == (d, 2) else [False]
        yield names[5], sv.and_(*near)
        yield names[6], _arr_eq(c.get("boxlength"), [sv.sub(r6[k][1], r6[k][0]) for k in range(d)])
        typ, pos = c["particle_type"], c["positions"]
        inr = sv.and_(sv.cmp(">=", r, 0), sv.cmp("<", r, N))
        line = sv.SV(sym["IDINV"](sv.znum(sv.add(r, 1))))
        okt = isinstance(typ, A.Arr) and typ.ndim == 1 and isinstance(pos, A.Arr) and pos.ndim == 2
        yield names[7], sv.and_(bool(okt), sv.implies(inr, sv.cmp("==", typ.get((r,)), sv.SV(sym["TYP"](line.t)))) if okt else False), {"assume": eqN}
        from pyvc.state import cur
        fcell = cur().heap[f.sid].data
        yield names[8], sv.cmp("==", fcell["pos"], sv.add(sv.add(sym["b"], 9), N)), {"assume": eqN}

    def replay(self, case, clause, model, seed):
        return _replay_writers(seed)


def header_lines(value):
    """token lines of a text value returned by a writer (None when it has no line structure)"""
    from pyvc.text import Text, text_lines
    try:
        if isinstance(value, str):
            return text_lines([Text([value])])
        if isinstance(value, Text):
            return text_lines([value])
    except sv.EngineError:
        return None
    return None


def dump_header_clauses(names, value, inp):
    d, ts, N, bb = inp["d"], inp["ts"], inp["N"], inp["bb"]
    lines = header_lines(value)
    ok = lines is not None and len(lines) == 10 and lines[9] == []
    yield names[0], bool(ok)
    if not ok:
        return
    yield names[1], lines[0] == ["ITEM:", "TIMESTEP"]
    yield names[2], sv.and_(len(lines[1]) == 1 and _tok_is(lines[1][0], "int"), sv.cmp("==", lines[1][0].value, ts) if len(lines[1]) == 1 and _tok_is(lines[1][0], "int") else False)
    yield names[3], lines[2] == ["ITEM:", "NUMBER", "OF", "ATOMS"]
    yield names[4], sv.and_(len(lines[3]) == 1 and _tok_is(lines[3][0], "int"), sv.cmp("==", lines[3][0].value, N) if len(lines[3]) == 1 and _tok_is(lines[3][0], "int") else False)
    yield names[5], lines[4] == ["ITEM:", "BOX", "BOUNDS", "pp", "pp", "pp"]
    conds = []
    for k in range(3):
        ln = lines[5 + k]
        if len(ln) != 2 or not all(_tok_is(t, "float") for t in ln):
            conds.append(False)
            continue
        for e in range(2):
            if k < d:
                want = sv.round_dec(bb.get((k, e)), 6)
            else:
                want = sv.to_frac(-0.5 if e == 0 else 0.5)
            conds.append(sv.cmp("==", ln[e].value, want))
    yield names[6], sv.and_(*conds)
    add = inp["add"]
    words = ["ITEM:", "ATOMS", "id", "type"] + ["x", "y", "z"][:d] + ("None" if add is None else add).split()
    yield names[7], lines[8] == words


class WriteDataHeader(Unit):
    """write_data_header(nparticle, nparticle_type, boxbounds): LAMMPS data-file header
       `LAMMPS data file` / blank / `N atoms` / `K atom types` / blank / `xlo xhi xlo xhi` / y / z (dummy -0.5 0.5 in 2-D) / blank /
       `Atoms #atomic` / blank."""
    module = WR
    qualname = "write_data_header"
    prop = "C19"

    def cases(self):
        return ["d=2", "d=3"]

    def setup(self, ctx, case):
        d = int(case[2])
        N, K = ctx.int("nparticle"), ctx.int("nparticle_type")
        bb = ctx.array("boxbounds", (d, 2), "float")
        return [N, K, bb], {}, dict(d=d, N=N, K=K, bb=bb)

    def clause_names(self, case):
        return ["eleven-newline-terminated-lines", "title-and-blank-lines", "N-atoms", "K-atom-types", "bounds-lines-rounded-to-6-decimals(dummy-z-in-2D)",
                "Atoms-section-header"]

    def ensures(self, ctx, case, inp, out):
        names = self.clause_names(case)
        d, N, K, bb = inp["d"], inp["N"], inp["K"], inp["bb"]
        lines = header_lines(out.value)
        ok = lines is not None and len(lines) == 12 and lines[11] == []
        yield names[0], bool(ok)
        if not ok:
            return
        yield names[1], lines[0] == ["LAMMPS", "data", "file"] and lines[1] == [] and lines[4] == [] and lines[8] == [] and lines[10] == []
        for nm, ln, val, words in ((names[2], lines[2], N, ["atoms"]), (names[3], lines[3], K, ["atom", "types"])):
            good = len(ln) == 1 + len(words) and _tok_is(ln[0], "int") and ln[1:] == words
            yield nm, sv.and_(bool(good), sv.cmp("==", ln[0].value, val) if good else False)
        conds = []
        for k, ax in enumerate("xyz"):
            ln = lines[5 + k]
            if len(ln) != 4 or ln[2:] != [ax + "lo", ax + "hi"]:
                conds.append(False)
                continue
            for e in range(2):
                if k < d:
                    conds.append(sv.and_(_tok_is(ln[e], "float"), sv.cmp("==", ln[e].value, sv.round_dec(bb.get((k, e)), 6)) if _tok_is(ln[e], "float") else False))
                else:
                    conds.append(ln[e] == ("-0.5" if e == 0 else "0.5"))
        yield names[4], sv.and_(*conds)
        yield names[5], lines[9] == ["Atoms", "#atomic"]

    def replay(self, case, clause, model, seed):
        return _replay_writers(seed)


def _replay_writers(seed):
    """real writers on random inputs: the returned strings, split into lines and words, obey the two grammars; then the dump header +
    atom lines is read back by the real read_lammps with the same timestep, N and bounds (to 6 decimals)"""
    import importlib
    import io
    import random

    import numpy as np
    W = importlib.import_module(WR)
    R = importlib.import_module(LR)
    rng = random.Random(seed)
    for trial in range(200):
        d = rng.choice([2, 3])
        ts = rng.choice([0, 1, rng.randint(0, 10 ** 9)])
        N = rng.randint(1, 6)
        K = rng.randint(1, 5)
        bb = np.array([[rng.uniform(-50, 50), 0] for _ in range(d)])
        bb[:, 1] = bb[:, 0] + [rng.uniform(0.5, 40) for _ in range(d)]
        if trial % 5 == 0:
            bb = np.round(bb, rng.choice([0, 2, 6]))
        add = rng.choice([None, "", "order", "order Q6"])
        kw = {} if add is None else {"addson": add}
        inputs = {"timestep": ts, "nparticle": N, "boxbounds": bb.tolist(), "addson": add}
        try:
            h = W.write_dump_header(ts, N, bb, **kw)
            g = W.write_data_header(N, K, bb)
        except Exception as e:
            return {"ran": True, "failed": True, "inputs": inputs, "detail": f"raises {type(e).__name__}: {e}"}
        want = [["ITEM:", "TIMESTEP"], [str(ts)], ["ITEM:", "NUMBER", "OF", "ATOMS"], [str(N)], ["ITEM:", "BOX", "BOUNDS", "pp", "pp", "pp"]]
        for k in range(3):
            want.append([f"{bb[k][0]:.6f}", f"{bb[k][1]:.6f}"] if k < d else ["-0.500000", "0.500000"])
        want.append(["ITEM:", "ATOMS", "id", "type"] + ["x", "y", "z"][:d] + str(add).split())
        got = [ln.split() for ln in h.split("\n")]
        if not h.endswith("\n") or got[:-1] != want:
            return {"ran": True, "failed": True, "inputs": inputs, "detail": f"dump header lines {got}, expected {want}", "searched": trial + 1}
        wantd = [["LAMMPS", "data", "file"], [], [str(N), "atoms"], [str(K), "atom", "types"], []]
        for k, ax in enumerate("xyz"):
            wantd.append(([f"{bb[k][0]:.6f}", f"{bb[k][1]:.6f}"] if k < d else ["-0.5", "0.5"]) + [ax + "lo", ax + "hi"])
        wantd += [[], ["Atoms", "#atomic"], []]
        gotd = [ln.split() for ln in g.split("\n")]
        if not g.endswith("\n") or gotd[:-1] != wantd:
            return {"ran": True, "failed": True, "inputs": inputs, "detail": f"data header lines {gotd}, expected {wantd}", "searched": trial + 1}
        # round trip through the real dump reader
        ids = list(range(1, N + 1))
        rng.shuffle(ids)
        pos = {i: [rng.uniform(float(bb[k][0]), float(bb[k][1])) for k in range(d)] for i in ids}
        typ = {i: rng.randint(1, 3) for i in ids}
        nadd = len(str(add).split())
        text = h + "".join(f"{i} {typ[i]} " + " ".join(repr(x) for x in pos[i]) + "".join(f" {rng.uniform(0, 1)!r}" for _ in range(nadd)) + "\n" for i in ids)
        try:
            snap = R.read_lammps(io.StringIO(text), d)
        except Exception as e:
            return {"ran": True, "failed": True, "inputs": dict(inputs, text=text), "detail": f"read_lammps on the written frame raises {type(e).__name__}: {e}"}
        bad = None
        if snap is None or snap.timestep != ts or snap.nparticle != N:
            bad = f"timestep/nparticle read back {getattr(snap, 'timestep', None)}/{getattr(snap, 'nparticle', None)}, written {ts}/{N}"
        elif np.abs(np.asarray(snap.boxbounds) - bb).max() > 5.000001e-7:
            bad = f"bounds read back {np.asarray(snap.boxbounds).tolist()}, written {bb.tolist()}"
        elif any(int(snap.particle_type[i - 1]) != typ[i] or not np.allclose(snap.positions[i - 1], pos[i], rtol=0, atol=1e-12) for i in ids):
            bad = "atom lines not read back by id"
        if bad:
            return {"ran": True, "failed": True, "inputs": dict(inputs, text=text), "detail": bad, "searched": trial + 1}
    return {"ran": True, "failed": False, "searched": 200}



# =====================================================================================================
# one frame of a LAMMPS dump as a symbolic file (orthogonal box: the auxiliary readers only read `lo hi` bounds lines)


def dump_frame_file(ctx, d, words8, header=None, eof=False, tag="", N=None):
    """symbolic file positioned (line b) at a frame
         ITEM: TIMESTEP / ts / ITEM: NUMBER OF ATOMS / N / ITEM: BOX BOUNDS pp pp pp / 3 lines `lo hi` / ITEM: ATOMS <words8> /
         N atom lines `id type v_2 .. v_{ncols-1}` (ids a bijection onto 1..N, in any order; ncols >= 2 + d columns as the ATOMS line lists)
       `header`: optional list of 9 token lists replacing the symbolic header (round trip: the lines a writer produced)."""
    I, R = z3.IntSort(), z3.RealSort()
    b = ctx.int("b" + tag)
    ctx.assume(b >= 0)
    if N is None:
        N = ctx.int("N" + tag)
        ctx.assume(N >= 1)
    ncols = ctx.int("ncols" + tag)
    ctx.assume(sv.cmp(">=", ncols, 2 + d))
    TS = ctx.int("TS" + tag)
    ID, IDINV, TYP = z3.Function("ID" + tag, I, I), z3.Function("IDINV" + tag, I, I), z3.Function("ATYPE" + tag, I, I)
    VAL = z3.Function("COL" + tag, I, I, R)
    Nz = N.t
    ctx.array_fact("ID" + tag, lambda a: z3.Implies(z3.And(a >= 0, a < Nz), z3.And(ID(a) >= 1, ID(a) <= Nz, IDINV(ID(a)) == a)))
    ctx.array_fact("IDINV" + tag, lambda r: z3.Implies(z3.And(r >= 1, r <= Nz), z3.And(IDINV(r) >= 0, IDINV(r) < Nz, ID(IDINV(r)) == r)))
    ctx.state.inverses["ID" + tag] = lambda v: IDINV(v)
    lo = [ctx.real(f"lo_{k}" + tag) for k in range(3)]
    hi = [ctx.real(f"hi_{k}" + tag) for k in range(3)]

    def col(a, c):
        """numeric value of column c of atom line a (c may be symbolic)"""
        az = sv.znum(a)
        if sv.is_conc(c):
            c = int(c)
            return sv.SV(ID(az)) if c == 0 else (sv.SV(TYP(az)) if c == 1 else sv.SV(VAL(az, z3.IntVal(c))))
        return sv.ite(sv.cmp("==", c, 0), sv.to_real(sv.SV(ID(az))), sv.ite(sv.cmp("==", c, 1), sv.to_real(sv.SV(TYP(az))), sv.SV(VAL(az, sv.znum(c)))))

    def line_fn(pos):
        if eof:
            return LineVal(None, eof=True)
        off = A.simp(sv.sub(pos, b))
        if sv.is_conc(off):
            off = int(off)
            if header is not None and 0 <= off <= 8:
                return LineVal(TokList.of(header[off]))
            if off == 0:
                return LineVal(TokList.of(["ITEM:", "TIMESTEP"]))
            if off == 1:
                return LineVal(TokList.of([Tok("int", TS)]))
            if off == 2:
                return LineVal(TokList.of(["ITEM:", "NUMBER", "OF", "ATOMS"]))
            if off == 3:
                return LineVal(TokList.of([Tok("int", N)]))
            if off == 4:
                return LineVal(TokList.of(["ITEM:", "BOX", "BOUNDS", "pp", "pp", "pp"]))
            if 5 <= off <= 7:
                return LineVal(TokList.of([Tok("float", lo[off - 5]), Tok("float", hi[off - 5])]))
            if off == 8:
                return LineVal(TokList.of(["ITEM:", "ATOMS"] + list(words8)))
        a = A.simp(sv.sub(off, 9))

        def tok(c):
            if sv.is_conc(c) and int(c) in (0, 1):
                return Tok("int", col(a, c))
            return Tok("float", col(a, c))
        return LineVal(TokList(ncols, tok))
    f = new_rfile(b, line_fn)
    return f, dict(b=b, N=N, TS=TS, ncols=ncols, ID=ID, IDINV=IDINV, TYP=TYP, VAL=VAL, col=col, lo=lo, hi=hi, f=f)


def _is_snapshot(v):
    from pyvc.interp import Ref
    return isinstance(v, Ref) and v.kind == "obj" and v.cls is not None and v.cls.name == "SingleSnapshot"


def _materialise(v):
    """a boolean-mask selection a[mask] as an array (rows = the selected positions in increasing order: the assumed numpy contract)"""
    if isinstance(v, A.Masked):
        from pyvc.relops import masked_to_arr
        return masked_to_arr(v)
    return v


def _arr_eq(a, want):
    """array `a` has exactly the (concrete) shape of the nested list `want` and these elements"""
    if not isinstance(a, A.Arr):
        return False
    if len(want) and isinstance(want[0], list):
        if tuple(a.shape) != (len(want), len(want[0])):
            return False
        return sv.and_(*[sv.cmp("==", a.get((i, j)), want[i][j]) for i in range(len(want)) for j in range(len(want[0]))])
    if tuple(a.shape) != (len(want),):
        return False
    return sv.and_(*[sv.cmp("==", a.get((i,)), want[i]) for i in range(len(want))])


def orth_cell_clauses(c, sym, d, lo=None, hi=None):
    """boxbounds = the d bounds lines, boxlength = hi - lo, hmatrix = diag(boxlength), realbounds None"""
    lo = sym["lo"] if lo is None else lo
    hi = sym["hi"] if hi is None else hi
    L = [sv.sub(hi[k], lo[k]) for k in range(d)]
    yield "boxbounds", _arr_eq(c.get("boxbounds"), [[lo[k], hi[k]] for k in range(d)])
    yield "boxlength", _arr_eq(c.get("boxlength"), L)
    yield "hmatrix", _arr_eq(c.get("hmatrix"), [[L[a] if a == b2 else 0 for b2 in range(d)] for a in range(d)])
    yield "realbounds-none", c.get("realbounds", 0) is None


class ReadLammpsVector(Unit):
    """read_lammps_vector(f, ndim, columnsids): the requested (1-based) columns of every atom line, stored by atom id:
       positions[id-1, c] = float(token columnsids[c]-1 of the line carrying that id), shape (N, len(columnsids));
       particle_type by id; timestep, nparticle = N; orthogonal cell from the bounds lines; the handle advances by 9 + N lines;
       None at end of file."""
    module = LR
    qualname = "read_lammps_vector"
    prop = "C19"
    timeout = 20

    def cases(self):
        return [f"d={d}/k={k}" for d in (2, 3) for k in (1, 2, 3)] + ["d=3/eof"]

    def setup(self, ctx, case):
        d = int(case[2])
        if case.endswith("eof"):
            f, sym = dump_frame_file(ctx, d, ["id", "type", "x", "y", "z"], eof=True)
            return [f, d, ctx.pylist([5])], {}, dict(sym, d=d, eof=True)
        k = int(case[-1])
        f, sym = dump_frame_file(ctx, d, ["id", "type"] + ["x", "y", "z"][:d] + ["vx", "vy", "vz"])
        cols = [ctx.int(f"col_{j}") for j in range(k)]
        for cj in cols:
            ctx.assume(sv.and_(sv.cmp(">=", cj, 1), sv.cmp("<=", cj, sym["ncols"])))      # the requested columns exist (1-based)
        sym.update(d=d, k=k, cols=cols, eof=False, r=ctx.int("r"))
        return [f, d, ctx.pylist(cols)], {}, sym

    def clause_names(self, case):
        if case.endswith("eof"):
            return ["returns-None-at-end-of-file"]
        return ["is-a-snapshot", "timestep", "nparticle", "shapes", "particle_type-by-id", "requested-columns-by-id", "boxbounds", "boxlength", "hmatrix",
                "realbounds-none", "handle-advanced-to-next-frame"]

    def ensures(self, ctx, case, inp, out):
        if inp["eof"]:
            yield "returns-None-at-end-of-file", out.value is None
            return
        d, k, N, r = inp["d"], inp["k"], inp["N"], inp["r"]
        snap = out.value
        ok = _is_snapshot(snap)
        yield "is-a-snapshot", bool(ok)
        if not ok:
            return
        c = snap.content
        yield "timestep", sv.cmp("==", c["timestep"], inp["TS"])
        yield "nparticle", sv.cmp("==", c["nparticle"], N)
        pos, typ = c["positions"], c["particle_type"]
        shapes_ok = isinstance(pos, A.Arr) and pos.ndim == 2 and A.dim_eq_syntactic(pos.shape[1], k) and isinstance(typ, A.Arr) and typ.ndim == 1
        yield "shapes", sv.and_(bool(shapes_ok), sv.cmp("==", pos.shape[0], N) if shapes_ok else False, sv.cmp("==", typ.shape[0], N) if shapes_ok else False)
        if not shapes_ok:
            return
        inr = sv.and_(sv.cmp(">=", r, 0), sv.cmp("<", r, N))
        line = sv.SV(inp["IDINV"](sv.znum(sv.add(r, 1))))                   # the atom line carrying id r+1
        yield "particle_type-by-id", sv.implies(inr, sv.cmp("==", typ.get((r,)), sv.SV(inp["TYP"](line.t))))
        yield "requested-columns-by-id", sv.implies(inr, sv.and_(*[sv.cmp("==", pos.get((r, j)), inp["col"](line, sv.sub(inp["cols"][j], 1))) for j in range(k)]))
        yield from orth_cell_clauses(c, inp, d)
        fcell = out.state.heap[inp["f"].sid].data
        yield "handle-advanced-to-next-frame", sv.cmp("==", fcell["pos"], sv.add(sv.add(inp["b"], 9), N))

    def replay(self, case, clause, model, seed):
        return _replay_dump_readers("vector", seed)


STYLE_WORDS = {"x": ["x", "y", "z"], "xs": ["xs", "ys", "zs"], "xu": ["xu", "yu", "zu"]}


def cart_spec(sym, d, style, a, k):
    """Cartesian coordinate k of the atom on line a (LAMMPS dump conventions, orthogonal box):
    xu -> the raw value; x -> wrapped back by one box length when outside [lo, hi]; xs -> lo + s (hi - lo)"""
    lo, hi = sym["lo"][k], sym["hi"][k]
    L = sv.sub(hi, lo)
    raw = sym["col"](a, 2 + k)
    if style == "xu":
        return raw
    if style == "x":
        return sv.ite(sv.cmp("<", raw, lo), sv.add(raw, L), sv.ite(sv.cmp(">", raw, hi), sv.sub(raw, L), raw))
    return sv.add(lo, sv.mul(raw, L))


class ReadLammpsCentertype(Unit):
    """read_lammps_centertype(f, ndim, moltypes): exactly the atoms whose type is a key of `moltypes`, in the order of their ids,
       relabelled by the values; positions per column style (x wrapped once, xu raw, xs = lo + s L); orthogonal cell; handle
       advanced by 9 + N lines; None at end of file.  The type map has m in {1, 2, 3} symbolic distinct keys and symbolic values."""
    module = LR
    qualname = "read_lammps_centertype"
    prop = "C19"
    timeout = 20

    def cases(self):
        return [f"d={d}/{style}/m={m}" for d in (2, 3) for style in ("x", "xu", "xs") for m in (1, 2, 3)] + ["d=2/eof"]

    def setup(self, ctx, case):
        parts = case.split("/")
        d = int(parts[0][2])
        if parts[1] == "eof":
            f, sym = dump_frame_file(ctx, d, ["id", "type", "x", "y"], eof=True)
            return [f, d, ctx.pydict({3: 1})], {}, dict(sym, d=d, eof=True)
        style, m = parts[1], int(parts[2][2])
        f, sym = dump_frame_file(ctx, d, ["id", "type"] + STYLE_WORDS[style][:d] + ["mol"])
        keys = [ctx.int(f"key_{j}") for j in range(m)]
        vals = [ctx.int(f"val_{j}") for j in range(m)]
        for a in range(m):
            for b2 in range(a + 1, m):
                ctx.assume(sv.cmp("!=", keys[a], keys[b2]))       # dictionary keys are distinct
        sym.update(d=d, style=style, m=m, keys=keys, vals=vals, eof=False, t=ctx.int("t"), u=ctx.int("u"), r=ctx.int("r"))
        return [f, d, ctx.pydict(dict(zip(keys, vals)))], {}, sym

    def clause_names(self, case):
        if case.endswith("eof"):
            return ["returns-None-at-end-of-file"]
        return ["is-a-snapshot", "timestep", "shapes(nparticle-rows)", "every-row-is-an-atom-whose-type-is-a-key", "every-atom-whose-type-is-a-key-has-a-row",
                "rows-in-order-of-atom-id", "type-relabelled-by-the-map", "positions-of-the-selected-atom", "boxbounds", "boxlength", "hmatrix",
                "realbounds-none", "handle-advanced-to-next-frame"]

    def ensures(self, ctx, case, inp, out):
        if inp["eof"]:
            yield "returns-None-at-end-of-file", out.value is None
            return
        names = self.clause_names(case)
        d, style, m, N, t, u, r = inp["d"], inp["style"], inp["m"], inp["N"], inp["t"], inp["u"], inp["r"]
        snap = out.value
        ok = _is_snapshot(snap)
        yield "is-a-snapshot", bool(ok)
        if not ok:
            return
        c = snap.content
        yield "timestep", sv.cmp("==", c["timestep"], inp["TS"])
        pos, typ, M = _materialise(c["positions"]), _materialise(c["particle_type"]), c["nparticle"]
        shapes_ok = isinstance(pos, A.Arr) and pos.ndim == 2 and A.dim_eq_syntactic(pos.shape[1], d) and isinstance(typ, A.Arr) and typ.ndim == 1
        yield names[2], sv.and_(bool(shapes_ok), sv.cmp("==", pos.shape[0], M) if shapes_ok else False, sv.cmp("==", typ.shape[0], M) if shapes_ok else False)
        qsel = [q for q in out.state.qfacts if q[0] == "select-increasing"]
        if not shapes_ok or not qsel:
            for nm in names[3:8]:
                yield nm, False
            return
        # assumed contract of boolean-mask indexing: SEL enumerates the selected positions of the mask in increasing order, RANK is
        # its inverse on the selected positions.  The contract does NOT take the mask from the code: it states the selection
        # against the specification mask `type of atom id r+1 is a key of the map`.
        line_of = lambda rr: sv.SV(inp["IDINV"](sv.znum(sv.add(rr, 1))))            # the atom line carrying id rr+1
        type_of = lambda rr: sv.SV(inp["TYP"](line_of(rr).t))
        is_key = lambda x: sv.or_(*[sv.cmp("==", x, k) for k in inp["keys"]])
        sel_ok = []
        for _, cnt, SEL, RANK in qsel:
            sel_ok.append((cnt, SEL, RANK))
        cnt, SEL, RANK = sel_ok[0]
        int_t = sv.and_(sv.cmp(">=", t, 0), sv.cmp("<", t, M))
        st_ = SEL(t)
        yield names[3], sv.implies(int_t, sv.and_(sv.cmp(">=", st_, 0), sv.cmp("<", st_, N), is_key(type_of(st_))))
        inr = sv.and_(sv.cmp(">=", r, 0), sv.cmp("<", r, N), is_key(type_of(r)))
        rk = RANK(r)
        yield names[4], sv.implies(inr, sv.and_(sv.cmp(">=", rk, 0), sv.cmp("<", rk, M), sv.cmp("==", SEL(rk), r)))
        # order: the row index is the rank of the id among the selected ids — with (3),(4) the rows are in increasing id order iff
        # SEL is increasing, which is the assumed numpy contract of a[mask]; what is checked here is that the code keeps it for
        # BOTH arrays (same enumeration for types and positions, no reordering afterwards)
        int_u = sv.and_(sv.cmp(">=", u, 0), sv.cmp("<", u, M), sv.cmp("<", t, u))
        mono = sv.implies(sv.and_(int_t, int_u), sv.cmp("<", SEL(t), SEL(u)))
        yield names[5], sv.and_(len(qsel) >= 1, all(q[2](t).t.eq(SEL(t).t) for q in qsel)), {}
        want_type = inp["vals"][-1]
        for k, v in reversed(list(zip(inp["keys"], inp["vals"]))[:-1]):
            want_type = sv.ite(sv.cmp("==", type_of(st_), k), v, want_type)
        yield names[6], sv.implies(int_t, sv.cmp("==", typ.get((t,)), want_type))
        yield names[7], sv.implies(int_t, sv.and_(*[sv.cmp("==", pos.get((t, k)), cart_spec(inp, d, style, line_of(st_), k)) for k in range(d)]))
        yield from orth_cell_clauses(c, inp, d)
        fcell = out.state.heap[inp["f"].sid].data
        yield "handle-advanced-to-next-frame", sv.cmp("==", fcell["pos"], sv.add(sv.add(inp["b"], 9), N))

    def replay(self, case, clause, model, seed):
        return _replay_dump_readers("center", seed)


# =====================================================================================================
# the frame loops of the wrappers: written invariant (checked by init / step obligations), callee = its contract


class FrameLoopWrapper(Unit):
    """read_lammps_<kind>_wrapper(file_name, ndim, extra): the file holds F >= 0 frames, frame s starting at line FSTART(s)
       (FSTART(s+1) = FSTART(s) + 9 + N_s, end of file at FSTART(F)).  The per-frame reader is used through its contract: called with
       the handle at FSTART(s) it returns the snapshot of frame s and leaves the handle at FSTART(s+1); at FSTART(F) it returns None.
       Loop invariant (written; init/step obligations): after k iterations  snapshots = [frame 0, .., frame k-1], nsnapshots = k, handle at
       FSTART(k).  ensures: Snapshots(nsnapshots = F, snapshots = [frame 0 .. frame F-1]) in file order, every frame read by exactly one
       call that received the wrapper's own ndim / type map / column list."""
    module = LR
    prop = "C19"
    timeout = 20
    callee = None
    extra_kind = None      # 'dict' | 'list'

    def cases(self):
        return ["d=2", "d=3"]

    def __init__(self):
        self.summaries = {f"{LR}.{self.callee}": self._callee_contract}
        lines = [n.lineno for n in self._while_nodes()]
        self.loop_hints = {(f"{LR}.{self.qualname}", "while"): self._loop_rule}

    def _while_nodes(self):
        return []

    # ---- ghost model of the file
    def setup(self, ctx, case):
        I = z3.IntSort()
        d = int(case[2])
        F = ctx.int("F")
        ctx.assume(F >= 0)
        B, NF = z3.Function("FSTART", I, I), z3.Function("NFRAME", I, I)
        ctx.array_fact("NFRAME", lambda s: NF(s) >= 0)
        ctx.array_fact("FSTART", lambda s: z3.And(B(s + 1) == B(s) + 9 + NF(s), B(0) == 0))
        path = "dump.atom"
        ctx.state.files[path] = (sv.SV(B(z3.IntVal(0))), None)           # no line model: only the callee's contract may read
        if self.extra_kind == "dict":
            extra = ctx.pydict({ctx.int("key_0"): ctx.int("val_0"), ctx.int("key_1"): ctx.int("val_1")})
        else:
            extra = ctx.pylist([ctx.int("col_0"), ctx.int("col_1")])
        self._sym = dict(d=d, F=F, B=B, NF=NF, extra=extra, path=path, s=ctx.int("s"), calls=[])
        return [path, d, extra], {}, self._sym

    def frame_result(self, k):
        """what the per-frame reader returns for the frame starting at FSTART(k) (its own unit proves what is in it)"""
        from pyvc.interp import load_module, new_obj
        cls = load_module(RU).get_class("SingleSnapshot")
        fr = z3.Function("FRAME_FIELD", z3.IntSort(), z3.IntSort(), z3.IntSort())
        names = [f[0] for f in cls.fields]
        return new_obj(cls, {nm: sv.SV(fr(sv.znum(k), z3.IntVal(j))) for j, nm in enumerate(names)}, frozen=True)

    def _callee_contract(self, interp, args, kwargs):
        from pyvc.interp import Ref
        from pyvc.state import Content, cur
        sym = self._sym
        st = cur()
        ok = len(args) == 3 and not kwargs and isinstance(args[0], Ref) and args[0].kind == "file" and sv.is_conc(args[1]) and int(args[1]) == sym["d"] \
            and isinstance(args[2], Ref) and args[2].sid == sym["extra"].sid
        st.require(bool(ok), f"call:{self.callee}:pre:(open handle, the wrapper's ndim, the wrapper's type map / column list)")
        if not ok:
            raise sv.EngineError("callee called with unexpected arguments")
        cell = st.heap[args[0].sid]
        pos = z3.simplify(sv.znum(cell.data["pos"]))
        if not (z3.is_app(pos) and pos.decl().name() == "FSTART"):
            st.require(False, f"call:{self.callee}:pre:handle-at-a-frame-start")
            raise sv.EngineError("handle is not at a frame start")
        k = sv.wrap(pos.arg(0))
        st.require(sv.and_(sv.cmp(">=", k, 0), sv.cmp("<=", k, sym["F"])), f"call:{self.callee}:pre:handle-at-a-frame-start")
        more = interp.decide(sv.cmp("<", k, sym["F"]))
        nd = dict(cell.data)
        if more:
            nd["pos"] = sv.SV(sym["B"](sv.znum(sv.add(k, 1))))
            st.heap[args[0].sid] = Content("file", nd, cell.meta)
            return self.frame_result(k)
        nd["pos"] = sv.add(cell.data["pos"], 1)
        st.heap[args[0].sid] = Content("file", nd, cell.meta)
        return None

    def _loop_rule(self, interp, s, frame, state):
        """`while True: x = reader(f, ..); if not x: break; L.append(x); n += 1` with the written invariant of the class docstring"""
        from pyvc.interp import Frame, Ref
        from pyvc.loops import UnboundAfterLoop, _SideGoal, _assigned_names, _cell_eq_goals, _eq_goals, _side_infeasible
        from pyvc.state import Content, use_state
        sym = self._sym
        F, B = sym["F"], sym["B"]
        where = f"{frame.fname}:{s.lineno}"
        if not (isinstance(s.test, __import__("ast").Constant) and s.test.value is True):
            raise sv.EngineError("frame loop: not a `while True` loop")
        lists = [n for n, v in frame.env.items() if isinstance(v, Ref) and v.kind == "list" and state.heap[v.sid].data == ()]
        counters = [n for n, v in frame.env.items() if isinstance(v, int) and not isinstance(v, bool) and v == 0]
        files = [n for n, v in frame.env.items() if isinstance(v, Ref) and v.kind == "file"]
        if len(lists) != 1 or len(counters) != 1 or len(files) != 1:
            raise sv.EngineError("frame loop: expected one empty list, one zero counter and one open file before the loop")
        L, C, Fh = frame.env[lists[0]], counters[0], frame.env[files[0]]
        unit = self

        def item(p):
            return unit.frame_result(p)

        def put(st, env, k):
            st.heap[L.sid] = Content("list", A.SeqVal(k, item), st.heap[L.sid].meta)
            env[C] = k
            st.heap[Fh.sid] = Content("file", dict(st.heap[Fh.sid].data, pos=sv.SV(B(sv.znum(k)))), st.heap[Fh.sid].meta)
        # init: state(0) is the pre-state
        for g in _eq_goals(state.heap[Fh.sid].data["pos"], sv.SV(B(z3.IntVal(0)))):
            state.side.append(_SideGoal("loop-init", g, state.all_assumptions(), where))
        # step: one iteration from state(k), 0 <= k <= F
        k = sv.fresh_int("k")
        st1 = state.fork()
        st1.pc = list(state.pc) + [sv.zb(sv.cmp(">=", k, 0)), sv.zb(sv.cmp("<=", k, F))]
        fr1 = Frame(frame.module, dict(frame.env), frame.fname)
        put(st1, fr1.env, k)
        outs = interp.exec_block_paths(s.body, fr1, st1)
        n_exit = 0
        for fr2, st2, out in outs:
            assum = st2.all_assumptions()
            if out[0] == "raise":
                state.side.append(_side_infeasible(st2, f"loop-body-raises:{out[1]}", where))
            elif out[0] == "break":
                n_exit += 1
                goals = _eq_goals(k, F) + _eq_goals(fr2.env.get(C), k)
                c = st2.heap[L.sid].data
                goals += [z3.BoolVal(isinstance(c, A.SeqVal) and c.fn is item)] + (_eq_goals(c.length, k) if isinstance(c, A.SeqVal) else [])
                for g in goals:
                    state.side.append(_SideGoal("loop-exit", g, assum, where))
            elif out[0] in ("normal", "continue"):
                ref = Content("list", A.SeqVal(A.simp(sv.add(k, 1)), item), st2.heap[L.sid].meta)
                goals = [sv.zb(sv.cmp("<", k, F))] + _eq_goals(fr2.env.get(C), A.simp(sv.add(k, 1))) \
                    + _eq_goals(st2.heap[Fh.sid].data["pos"], sv.SV(B(sv.znum(sv.add(k, 1))))) + _cell_eq_goals(st2.heap[L.sid], ref, (st2, st2))
                for g in goals:
                    state.side.append(_SideGoal("loop-step", g, assum, where))
            else:
                raise sv.EngineError("frame loop: the body returns")
        if n_exit == 0:
            raise sv.EngineError("frame loop: no exit path")
        # post-state: invariant at the exit index F (termination: F - k decreases on every continuing path, which requires k < F)
        with use_state(state):
            put(state, frame.env, F)
        for nme in _assigned_names(s.body):
            if nme not in (C,):
                frame.env[nme] = UnboundAfterLoop(nme, where)
        return [(frame, state, ("normal",))]

    def clause_names(self, case):
        return ["is-Snapshots", "nsnapshots=number-of-frames", "one-snapshot-per-frame", "snapshot-s-is-the-reader's-result-for-frame-s"]

    def ensures(self, ctx, case, inp, out):
        names = self.clause_names(case)
        F, s = inp["F"], inp["s"]
        got = _snapshots_list(out.value, F)
        yield names[0], got is not None
        if got is None:
            return
        c, seq = got
        yield names[1], sv.cmp("==", c["nsnapshots"], F)
        yield names[2], sv.cmp("==", seq.length if isinstance(seq, A.SeqVal) else len(seq), F)
        if not isinstance(seq, A.SeqVal):
            yield names[3], False
            return
        from pyvc.loops import struct_eq_goals
        from pyvc.state import cur
        a, b2 = seq.fn(s), self.frame_result(s)
        goals = struct_eq_goals(a, b2, cur(), cur())
        yield names[3], sv.implies(sv.and_(sv.cmp(">=", s, 0), sv.cmp("<", s, F)), sv.wrap(z3.And(*goals)) if goals else True)

    def raises(self, ctx, case, inp, out):
        return None

    def replay(self, case, clause, model, seed):
        return _replay_dump_readers(self.replay_kind, seed)


class CentertypeWrapper(FrameLoopWrapper):
    qualname = "read_lammps_centertype_wrapper"
    callee = "read_lammps_centertype"
    extra_kind = "dict"
    replay_kind = "center"


class VectorWrapper(FrameLoopWrapper):
    qualname = "read_lammps_vector_wrapper"
    callee = "read_lammps_vector"
    extra_kind = "list"
    replay_kind = "vector"


# =====================================================================================================
# a whole dump file of T frames with the same particle number (what read_additions presupposes: fixed frame length 9 + N)


def dump_file_fixed(ctx, path, words8=("id", "type", "x", "y", "z", "order")):
    """registers a symbolic dump file under `path`: T >= 1 frames of 9 + N lines each (N >= 1 the same in every frame), frame s
    holding atom lines a < N `ID2(s,a) ATYPE2(s,a) COL2(s,a,2) ...` with ids a bijection onto 1..N per frame, ncols columns.
    Line numbers the code computes are decoded as  pos = s (N + 9) + 9 + a  by polynomial identity (checked, not guessed)."""
    from pyvc.state import cur
    I, R = z3.IntSort(), z3.RealSort()
    T, N, ncols = ctx.int("T"), ctx.int("N"), ctx.int("ncols")
    ctx.assume(T >= 1)
    ctx.assume(N >= 1)
    ctx.assume(ncols >= 3)
    nlines = ctx.int("nlines")
    ctx.assume(sv.cmp("==", nlines, sv.mul(T, sv.add(N, 9))))
    TS = z3.Function("TS2", I, I)
    ID, IDINV, TYP = z3.Function("ID2", I, I, I), z3.Function("IDINV2", I, I, I), z3.Function("ATYPE2", I, I, I)
    VAL = z3.Function("COL2", I, I, I, R)
    Nz = N.t
    ctx.array_fact("ID2", lambda s, a: z3.Implies(z3.And(a >= 0, a < Nz), z3.And(ID(s, a) >= 1, ID(s, a) <= Nz, IDINV(s, ID(s, a)) == a)))
    ctx.array_fact("IDINV2", lambda s, r: z3.Implies(z3.And(r >= 1, r <= Nz), z3.And(IDINV(s, r) >= 0, IDINV(s, r) < Nz, ID(s, IDINV(s, r)) == r)))
    ctx.state.inverses["ID2"] = lambda s, v: IDINV(s, v)

    def col(s, a, c):
        sz, az = sv.znum(s), sv.znum(a)
        if sv.is_conc(c):
            c = int(c)
            return sv.SV(ID(sz, az)) if c == 0 else (sv.SV(TYP(sz, az)) if c == 1 else sv.SV(VAL(sz, az, z3.IntVal(c))))
        return sv.ite(sv.cmp("==", c, 0), sv.to_real(sv.SV(ID(sz, az))), sv.ite(sv.cmp("==", c, 1), sv.to_real(sv.SV(TYP(sz, az))), sv.SV(VAL(sz, az, sv.znum(c)))))

    def header_line(s, off):
        if off == 0:
            return LineVal(TokList.of(["ITEM:", "TIMESTEP"]))
        if off == 1:
            return LineVal(TokList.of([Tok("int", sv.SV(TS(sv.znum(s))))]))
        if off == 2:
            return LineVal(TokList.of(["ITEM:", "NUMBER", "OF", "ATOMS"]))
        if off == 3:
            return LineVal(TokList.of([Tok("int", N)]))
        if off == 4:
            return LineVal(TokList.of(["ITEM:", "BOX", "BOUNDS", "pp", "pp", "pp"]))
        if 5 <= off <= 7:
            return LineVal(TokList.of([Tok("float", sv.real(f"lo_{off-5}")), Tok("float", sv.real(f"hi_{off-5}"))]))
        return LineVal(TokList.of(["ITEM:", "ATOMS"] + list(words8)))

    def decode(pos):
        """pos == s (N + 9) + 9 + a as polynomials in N -> (s, a); None when the term has no such form"""
        pz = sv.znum(pos)
        p0 = z3.simplify(z3.substitute(pz, (Nz, z3.IntVal(0))))
        p1 = z3.simplify(z3.substitute(pz, (Nz, z3.IntVal(1))))
        s_ = z3.simplify(p1 - p0)
        a_ = z3.simplify(p0 - 9 * s_ - 9)
        resid = z3.simplify(pz - (s_ * (Nz + 9) + 9 + a_), som=True)
        if z3.is_int_value(resid) and resid.as_long() == 0:
            return sv.wrap(s_), sv.wrap(a_)
        return None

    def line_fn(pos):
        pos = A.simp(pos)
        if sv.is_conc(pos):
            if 0 <= int(pos) <= 8:
                return header_line(0, int(pos))
            raise sv.EngineError("dump model: concrete line number beyond the first header")
        dec = decode(pos)
        if dec is None:
            raise sv.EngineError("dump model: line number is not of the form s (N + 9) + 9 + a")
        s_, a_ = dec
        # the line is an atom line of frame s only if 0 <= a < N and 0 <= s < T: anything else is a different kind of line
        cur().require(sv.and_(sv.cmp(">=", a_, 0), sv.cmp("<", a_, N), sv.cmp(">=", s_, 0), sv.cmp("<", s_, T)), "line-is-an-atom-line-of-a-frame")

        def tok(c):
            if sv.is_conc(c) and int(c) in (0, 1):
                return Tok("int", col(s_, a_, c))
            return Tok("float", col(s_, a_, c))
        return LineVal(TokList(ncols, tok))
    ctx.state.files[path] = (0, line_fn, nlines)
    return dict(T=T, N=N, ncols=ncols, nlines=nlines, ID=ID, IDINV=IDINV, TYP=TYP, VAL=VAL, col=col, TS=TS)


class ReadAdditions(Unit):
    """read_additions(dumpfile, ncol): for a dump of T frames with N atoms each (the fixed 9 + N frame length the function presupposes)
       the result has shape (T, N) and result[s, id-1] = float(token `ncol` (zero-based) of the atom line of frame s that carries that id)."""
    module = LR
    qualname = "read_additions"
    prop = "C19"
    timeout = 30

    def setup(self, ctx, case):
        path = "dump.atom"
        sym = dump_file_fixed(ctx, path)
        ncol = ctx.int("ncol")
        ctx.assume(sv.and_(sv.cmp(">=", ncol, 0), sv.cmp("<", ncol, sym["ncols"])))       # the column exists
        sym.update(ncol=ncol, s=ctx.int("s"), r=ctx.int("r"))
        return [path, ncol], {}, sym

    def clause_names(self, case):
        return ["shape=(frames,particles)", "value-of-the-column-by-frame-and-atom-id"]

    def ensures(self, ctx, case, inp, out):
        res = out.value
        T, N, s, r = inp["T"], inp["N"], inp["s"], inp["r"]
        ok = isinstance(res, A.Arr) and res.ndim == 2 and res.dtype == "float"
        yield "shape=(frames,particles)", sv.and_(bool(ok), sv.cmp("==", res.shape[0], T) if ok else False, sv.cmp("==", res.shape[1], N) if ok else False), \
            {"assume": [frames_lemma(inp["nlines"], T, N)[1]]}
        if not ok:
            yield "value-of-the-column-by-frame-and-atom-id", False
            return
        inr = sv.and_(sv.cmp(">=", s, 0), sv.cmp("<", s, T), sv.cmp(">=", r, 0), sv.cmp("<", r, N))
        a = sv.SV(inp["IDINV"](sv.znum(s), sv.znum(sv.add(r, 1))))           # the atom line of frame s carrying id r+1
        yield "value-of-the-column-by-frame-and-atom-id", sv.implies(inr, sv.cmp("==", res.get((s, r)), inp["col"](s, a, inp["ncol"]))), \
            {"assume": [frames_lemma(inp["nlines"], T, N)[1]]}

    def replay(self, case, clause, model, seed):
        return _replay_dump_readers("additions", seed)


def frames_lemma(nlines, T, N):
    """(hypothesis-free statement, instance): int(nlines / (N + 9)) == T when nlines == T (N + 9), N >= 1, T >= 0 — the frame count
    the code computes by a float division; proved once on fresh variables (extra_checks), used as an instance"""
    q = sv.trunc(sv.div(nlines, sv.add(N, 9)))
    inst = sv.implies(sv.and_(sv.cmp("==", nlines, sv.mul(T, sv.add(N, 9))), sv.cmp(">=", N, 1), sv.cmp(">=", T, 0)), sv.cmp("==", q, T))
    return inst, inst


# =====================================================================================================
# HOOMD frames (duck-typed): f[s].configuration.{step, dimensions, box}, f[s].particles.{N, typeid, position}


def gsd_frames(ctx, T):
    """a symbolic sequence of T HOOMD frame records (what gsd.hoomd.open returns, as far as the converters use it)"""
    from pyvc.interp import Ref, new_obj
    from pyvc.state import Content, cur
    I, R = z3.IntSort(), z3.RealSort()
    STEP, DIMS, NP = z3.Function("STEP", I, I), z3.Function("DIMS", I, I), z3.Function("NP", I, I)
    BOX = z3.Function("BOX", I, I, R)
    TID = z3.Function("TYPEID", I, I, I)
    POS = z3.Function("GPOS", I, I, I, R)
    ctx.array_fact("NP", lambda s: NP(s) >= 1)

    def frame(s):
        sz = sv.znum(s)
        n = sv.SV(NP(sz))
        box = A.new_arr((6,), lambda idx: sv.SV(BOX(sz, sv.znum(idx[0]))), "float", input="configuration.box")
        tid = A.new_arr((n,), lambda idx: sv.SV(TID(sz, sv.znum(idx[0]))), "int", input="particles.typeid")
        pos = A.new_arr((n, 3), lambda idx: sv.SV(POS(sz, sv.znum(idx[0]), sv.znum(idx[1]))), "float", input="particles.position")
        conf = new_obj(None, dict(step=sv.SV(STEP(sz)), dimensions=sv.SV(DIMS(sz)), box=box))
        part = new_obj(None, dict(N=n, typeid=tid, position=pos))
        return new_obj(None, dict(configuration=conf, particles=part))
    f = Ref(cur().alloc(Content("list", A.SeqVal(T, frame))), "list")
    return f, dict(STEP=STEP, DIMS=DIMS, NP=NP, BOX=BOX, TID=TID, POS=POS)


def _snapshots_list(v, T):
    """(list content, ok) of a returned Snapshots object"""
    from pyvc.interp import Ref
    ok = isinstance(v, Ref) and v.kind == "obj" and v.cls is not None and v.cls.name == "Snapshots"
    if not ok:
        return None
    c = v.content
    lst = c.get("snapshots")
    if not (isinstance(lst, Ref) and lst.kind == "list"):
        return None
    return c, lst.content


class ReadGsd(Unit):
    """read_gsd(f, ndim): one SingleSnapshot per frame, in order (nsnapshots = len(f)); frame s: timestep = configuration.step,
       nparticle = particles.N, particle_type = typeid + 1, positions = position[:, :ndim], boxlength = box[:ndim], hmatrix = diag(boxlength),
       boxbounds = per-axis [min, max] of the positions; None (documented warning) when the file's dimensionality differs from ndim."""
    module = GR
    qualname = "read_gsd"
    prop = "C19"
    timeout = 20
    with_dcd = False

    def cases(self):
        return [f"d={d}/{k}" for d in (2, 3) for k in ("frames", "wrong-dimension")]

    def setup(self, ctx, case):
        d = int(case[2])
        T = ctx.int("T")
        ctx.assume(T >= 1)
        f, sym = gsd_frames(ctx, T)
        dim0 = sv.SV(sym["DIMS"](z3.IntVal(0)))
        ctx.assume(sv.cmp("==" if case.endswith("frames") else "!=", dim0, d))
        sym.update(d=d, T=T, s=ctx.int("s"), i=ctx.int("i"))
        return [f, d], {}, sym

    def clause_names(self, case):
        if case.endswith("wrong-dimension"):
            return ["returns-None"]
        return ["is-Snapshots", "nsnapshots=number-of-frames", "one-snapshot-per-frame", "frame:is-a-snapshot", "frame:timestep", "frame:nparticle", "frame:types-shifted-to-start-at-one",
                "frame:positions-cut-to-the-dimension", "frame:boxlength", "frame:hmatrix", "frame:boxbounds-enclose-the-positions", "frame:realbounds-none"]

    def frame_positions(self, inp, s, i, k):
        return sv.SV(inp["POS"](sv.znum(s), sv.znum(i), z3.IntVal(k)))

    def position_rows(self, inp, s):
        return sv.SV(inp["NP"](sv.znum(s)))

    def ensures(self, ctx, case, inp, out):
        names = self.clause_names(case)
        if len(names) == 1:
            yield names[0], out.value is None
            return
        d, T, s, i = inp["d"], inp["T"], inp["s"], inp["i"]
        got = _snapshots_list(out.value, T)
        yield names[0], got is not None
        if got is None:
            return
        c, seq = got
        yield names[1], sv.cmp("==", c["nsnapshots"], T)
        n_items = seq.length if isinstance(seq, A.SeqVal) else len(seq)
        yield names[2], sv.cmp("==", n_items, T)
        ins = sv.and_(sv.cmp(">=", s, 0), sv.cmp("<", s, T))
        from pyvc.state import cur
        cur().assume(ins)     # element s of a lazily evaluated list exists for 0 <= s < T only (its index obligations are generated on access)
        for item in self._frame_clauses(names, inp, seq, cur):           # all clauses below are about an arbitrary frame 0 <= s < T
            nm, goal = item[0], item[1]
            yield (nm, sv.implies(ins, goal)) + tuple(item[2:])

    def _frame_clauses(self, names, inp, seq, cur):
        d, T, s, i = inp["d"], inp["T"], inp["s"], inp["i"]
        snap = seq.fn(s) if isinstance(seq, A.SeqVal) else None
        ok = _is_snapshot(snap)
        yield names[3], bool(ok)
        if not ok:
            return
        sc = snap.content
        sz = sv.znum(s)
        n = sv.SV(inp["NP"](sz))
        yield names[4], sv.cmp("==", sc["timestep"], sv.SV(inp["STEP"](sz)))
        yield names[5], sv.cmp("==", sc["nparticle"], n)
        typ, pos = sc["particle_type"], sc["positions"]
        ini = sv.and_(sv.cmp(">=", i, 0), sv.cmp("<", i, n))
        okt = isinstance(typ, A.Arr) and typ.ndim == 1 and typ.dtype == "int"
        yield names[6], sv.and_(bool(okt), sv.cmp("==", typ.shape[0], n) if okt else False,
                                sv.implies(ini, sv.cmp("==", typ.get((i,)), sv.add(sv.SV(inp["TID"](sz, sv.znum(i))), 1))) if okt else False)
        okp = isinstance(pos, A.Arr) and pos.ndim == 2 and A.dim_eq_syntactic(pos.shape[1], d)
        rows = self.position_rows(inp, s)
        inrow = sv.and_(sv.cmp(">=", i, 0), sv.cmp("<", i, rows))
        yield names[7], sv.and_(bool(okp), sv.cmp("==", pos.shape[0], rows) if okp else False,
                                sv.implies(inrow, sv.and_(*[sv.cmp("==", pos.get((i, k)), self.frame_positions(inp, s, i, k)) for k in range(d)])) if okp else False)
        L = [sv.SV(inp["BOX"](sz, z3.IntVal(k))) for k in range(d)]
        yield names[8], _arr_eq(sc.get("boxlength"), L)
        yield names[9], _arr_eq(sc.get("hmatrix"), [[L[a] if a == b2 else 0 for b2 in range(d)] for a in range(d)])
        # bounds: [min, max] of the GSD positions per axis — stated as enclosure (the assumed min/max contract gives attainment)
        bb = sc.get("boxbounds")
        okb = isinstance(bb, A.Arr) and tuple(bb.shape) == (d, 2)
        if okb:
            encl, inst = [], []
            for k in range(d):
                gp = sv.SV(inp["POS"](sz, sv.znum(i), z3.IntVal(k)))
                encl.append(sv.implies(ini, sv.and_(sv.cmp("<=", bb.get((k, 0)), gp), sv.cmp("<=", gp, bb.get((k, 1))))))
            # instances of the assumed bound of ndarray.min / max (every element is >= the minimum, <= the maximum) for the reductions
            # the loop body performs, at frame s and the arbitrary particle i (the loop index of the engine's run is replaced by s)
            mine = {"T", "s", "i", "T_dcd", "N_dcd"}
            seen = set()
            for q in cur().qfacts:
                if q[0] not in ("min", "max") or len(q) < 6:
                    continue
                info = q[5]
                ps = [sv.znum(s) if (z3.is_int(c_) and c_.decl().name() not in mine) else c_ for c_ in info["frees"]]
                key_t, nn, ext = info["inst"](i, ps)
                fact = sv.implies(sv.and_(sv.cmp(">=", i, 0), sv.cmp("<", i, nn)), sv.cmp("<=" if q[0] == "min" else ">=", ext, key_t))
                if fact.t.get_id() not in seen:
                    seen.add(fact.t.get_id())
                    inst.append(fact)
            yield names[10], sv.and_(*encl), {"assume": inst}
        else:
            yield names[10], False
        yield names[11], sc.get("realbounds", 0) is None

    def replay(self, case, clause, model, seed):
        return _replay_gsd(self.with_dcd, seed)


class ReadGsdDcd(ReadGsd):
    """read_gsd_dcd(f_gsd, f_dcd, ndim): as read_gsd, but the positions of frame s are the DCD positions of frame s cut to the dimension;
       None (documented warnings) when the dimensionality, the number of frames or the particle number of the two files disagree."""
    qualname = "read_gsd_dcd"
    with_dcd = True

    def cases(self):
        return [f"d={d}/{k}" for d in (2, 3) for k in ("frames", "wrong-dimension", "frame-count-mismatch", "particle-number-mismatch")]

    def setup(self, ctx, case):
        from pyvc.interp import new_obj
        from pyvc.lib import native
        d = int(case[2])
        kind = case.split("/")[1]
        T = ctx.int("T")
        ctx.assume(T >= 1)
        f, sym = gsd_frames(ctx, T)
        dim0 = sv.SV(sym["DIMS"](z3.IntVal(0)))
        ctx.assume(sv.cmp("!=" if kind == "wrong-dimension" else "==", dim0, d))
        Td, Nd = ctx.int("T_dcd"), ctx.int("N_dcd")
        ctx.assume(Td >= 1)
        ctx.assume(Nd >= 1)
        np0 = sv.SV(sym["NP"](z3.IntVal(0)))
        if kind != "wrong-dimension":
            ctx.assume(sv.cmp("!=" if kind == "frame-count-mismatch" else "==", Td, T))
            if kind != "frame-count-mismatch":
                ctx.assume(sv.cmp("!=" if kind == "particle-number-mismatch" else "==", Nd, np0))
        dcd = ctx.array("DCD", (Td, Nd, 3), "float", origin="f_dcd.read()[0]")
        reads = []

        @native
        def read(interp, *a, **k):
            reads.append(1)
            return (dcd, None, None)

        @native
        def close(interp, *a, **k):
            return None
        fd = new_obj(None, dict(read=read, close=close))
        sym.update(d=d, T=T, s=ctx.int("s"), i=ctx.int("i"), dcd=dcd, kind=kind, Nd=Nd)
        return [f, fd, d], {}, sym

    def clause_names(self, case):
        if not case.endswith("frames"):
            return ["returns-None"]
        return ReadGsd.clause_names(self, case)

    def frame_positions(self, inp, s, i, k):
        return inp["dcd"].get((s, i, k))

    def position_rows(self, inp, s):
        # a DCD trajectory has one particle number for all frames (checked by the code against frame 0 of the GSD file)
        return inp["Nd"]


# =====================================================================================================
# LAMMPS log


def log_file(ctx, path):
    """registers a symbolic log file: nlines >= 1 lines; line p is described by the predicates the reader uses:
       ISSTEP(p) (starts with 'Step '), ISLOOP(p) (starts with 'Loop time of '), ISBLANK(p) (the line is exactly a newline),
       ISNUM(p) (its first word is numeric); a line has at least one word unless it is blank."""
    I, B = z3.IntSort(), z3.BoolSort()
    nlines = ctx.int("nlines")
    ctx.assume(nlines >= 1)
    ISSTEP, ISLOOP, ISBLANK, ISNUM = (z3.Function(nm, I, B) for nm in ("ISSTEP", "ISLOOP", "ISBLANK", "ISNUM"))
    NW = z3.Function("NWORDS", I, I)
    ctx.array_fact("NWORDS", lambda p: z3.And(NW(p) >= 0, z3.Implies(z3.Not(ISBLANK(p)), NW(p) >= 1)))

    def line_fn(pos):
        pz = sv.znum(A.simp(pos))

        def startswith(prefix):
            if prefix == "Step ":
                return sv.SV(ISSTEP(pz))
            if prefix == "Loop time of ":
                return sv.SV(ISLOOP(pz))
            raise sv.EngineError(f"log model: startswith({prefix!r})")

        def eq(text):
            if text == "\n":
                return sv.SV(ISBLANK(pz))
            raise sv.EngineError(f"log model: comparison with {text!r}")

        def tok(c):
            if sv.is_conc(c) and int(c) == 0:
                return Tok("sym", {"isnumeric": sv.SV(ISNUM(pz))})
            return Tok("sym", {})
        return LineVal(TokList(sv.SV(NW(pz)), tok), props={"startswith": startswith, "eq": eq})
    ctx.state.files[path] = (0, line_fn, nlines)
    return dict(nlines=nlines, ISSTEP=ISSTEP, ISLOOP=ISLOOP, ISBLANK=ISBLANK, ISNUM=ISNUM)


class ReadLammpsLog(Unit):
    """read_lammpslog(filename): one frame per thermodynamic section, in file order.  Section k is delimited by the k-th line starting
       with 'Step ' (its header, line S_k) and the k-th line starting with 'Loop time of ' (line E_k); the frame of a COMPLETE section is
       read from header line S_k with exactly the E_k - S_k - 1 lines strictly between the two (pandas.read_csv(skiprows=S_k, nrows=...)).
       Complete log: as many 'Loop time' lines as 'Step ' lines, the last line is blank or starts with a non-numeric word.
       Interrupted log (last line starts with a number, one 'Step ' line more than 'Loop time' lines): the complete sections are still
       returned in full, plus one frame for the unfinished section (no claim on its extent)."""
    module = SL
    qualname = "read_lammpslog"
    prop = "C19"
    timeout = 30

    def cases(self):
        return ["complete/last-line-blank", "complete/last-line-text", "interrupted"]

    def setup(self, ctx, case):
        from pyvc.sigma import Sum
        path = "log.lammps"
        sym = log_file(ctx, path)
        nl = sym["nlines"]
        last = sv.znum(sv.sub(nl, 1))
        nS = Sum(0, nl, lambda p: sv.ite(sv.SV(sym["ISSTEP"](sv.znum(p))), 1, 0))
        nE = Sum(0, nl, lambda p: sv.ite(sv.SV(sym["ISLOOP"](sv.znum(p))), 1, 0))
        if case == "complete/last-line-blank":
            ctx.assume(sym["ISBLANK"](last))
        elif case == "complete/last-line-text":
            ctx.assume(z3.And(z3.Not(sym["ISBLANK"](last)), z3.Not(sym["ISNUM"](last))))
        else:
            ctx.assume(z3.And(z3.Not(sym["ISBLANK"](last)), sym["ISNUM"](last)))
        ctx.assume(sv.cmp("==", nS, sv.add(nE, 1 if case == "interrupted" else 0)))
        # the k-th 'Step ' line S(k) and the k-th 'Loop time of ' line E(k): increasing enumerations of the lines with the predicate
        # (the same relational definition the library contract of filtered selection uses); well-formed log: the k-th section's
        # end line comes after its header line
        from pyvc.relops import select
        _, S, RS, cS = select(lambda t: sv.SV(sym["ISSTEP"](sv.znum(t))), nl)
        _, E, RE, cE = select(lambda t: sv.SV(sym["ISLOOP"](sv.znum(t))), nl)
        kk = z3.Int("wf_k")
        Sz, Ez = S(sv.SV(kk)).t, E(sv.SV(kk)).t
        nEz = sv.znum(nE)

        def wf(t, *ps):
            return z3.Implies(z3.And(t >= 0, t < nEz), z3.substitute(Sz, (kk, t)) < z3.substitute(Ez, (kk, t)))
        ctx.array_fact(Sz.decl().name(), wf)
        ctx.array_fact(Ez.decl().name(), wf)
        sym.update(nS=nS, nE=nE, k=ctx.int("k"), path=path, S=S, E=E)
        return [path], {}, sym

    def clause_names(self, case):
        return ["one-frame-per-Step-line", "frame-k-reads-header-S_k-and-all-lines-strictly-between-S_k-and-E_k"]

    def ensures(self, ctx, case, inp, out):
        from pyvc.interp import Ref
        from pyvc.state import cur
        names = self.clause_names(case)
        k, nl, S, E = inp["k"], inp["nlines"], inp["S"], inp["E"]
        res = out.value
        ok = isinstance(res, Ref) and res.kind == "list"
        seq = res.content if ok else None
        n_items = (seq.length if isinstance(seq, A.SeqVal) else len(seq)) if ok else None
        yield names[0], sv.and_(bool(ok), sv.cmp("==", n_items, inp["nS"]) if ok else False)
        if not ok:
            yield names[1], False
            return
        # frame k for a complete section: k < number of 'Loop time of' lines
        ink = sv.and_(sv.cmp(">=", k, 0), sv.cmp("<", k, inp["nE"]))
        if not isinstance(seq, A.SeqVal):
            yield names[1], sv.implies(ink, sv.cmp("<", k, len(seq)) if len(seq) == 0 else False)     # no frames: there must be no complete section
            return
        fr = seq.fn(k)
        okf = isinstance(fr, Ref) and fr.kind == "obj" and fr.content.get("kind") == "csv-frame"
        if not okf:
            yield names[1], False
            return
        fc = fr.content
        yield names[1], sv.implies(ink, sv.and_(fc["path"] == inp["path"], sv.cmp("==", fc["header_line"], S(k)), sv.cmp("==", fc["first_row"], sv.add(S(k), 1)),
                                                sv.cmp("==", sv.add(fc["first_row"], fc["nrows"]), E(k))))

    def replay(self, case, clause, model, seed):
        return _replay_log(seed)


def _replay_log(seed):
    """real read_lammpslog on written logs with several run sections"""
    import importlib
    import os
    import random
    import shutil
    import tempfile

    import numpy as np
    M = importlib.import_module(SL)
    rng = random.Random(seed)
    tmp = tempfile.mkdtemp(prefix="pyvc-replay-")
    try:
        for trial in range(40):
            K = rng.randint(1, 4)
            lines = ["LAMMPS (2 Aug 2023)", "units lj", ""]
            truth = []
            for k in range(K):
                cols = ["Step", "Temp", "PotEng"] + (["Press"] if rng.random() < 0.5 else [])
                if trial % 2 == 1:
                    # echoed input-script lines that merely MENTION the section words away from the line start: they are neither
                    # a header ('Step ' at the start of the line) nor an end ('Loop time of ' at the start of the line)
                    lines += [f"# Step {k + 1}: equilibration at T = 0.{k + 4}", "print 'the last Loop time of the previous run is above'"]
                lines += [f"run {1000 * (k + 1)}", "Per MPI rank memory allocation (min/avg/max) = 3.1 | 3.1 | 3.1 Mbytes"]
                lines.append(" ".join(cols) + " ")
                nrow = rng.randint(1, 6)
                rows = [[100 * r] + [round(rng.uniform(-2, 2), 5) for _ in cols[1:]] for r in range(nrow)]
                for r in rows:
                    lines.append(" ".join(str(x) for x in r))
                lines.append(f"Loop time of {rng.uniform(0.1, 9):.5f} on 1 procs for {1000 * (k + 1)} steps with 100 atoms")
                lines += ["", "Performance: 1.0 tau/day", ""]
                truth.append((cols, rows))
            interrupted = trial % 3 == 2
            if interrupted:
                # the run was interrupted inside a further section: header and r >= 1 thermo lines, no 'Loop time' line
                r = 1 + (trial // 3) % 4
                lines += ["run 5000", "Step Temp PotEng "] + [f"{100 * q} {rng.uniform(-2, 2):.5f} {rng.uniform(-2, 2):.5f}" for q in range(r)]
            else:
                lines.append(rng.choice(["Total wall time: 0:00:01", ""]))
            text = "\n".join(lines) + "\n"
            path = os.path.join(tmp, f"log{trial}.lammps")
            with open(path, "w") as fh:
                fh.write(text)
            try:
                got = M.read_lammpslog(path)
            except Exception as e:
                return {"ran": True, "failed": True, "inputs": {"text": text}, "detail": f"raises {type(e).__name__}: {e}", "searched": trial + 1}
            bad = None
            if len(got) != K + (1 if interrupted else 0):
                bad = f"{len(got)} frames for {K} complete run sections" + (" and one unfinished section" if interrupted else "")
            else:
                for k, (df, (cols, rows)) in enumerate(zip(got, truth)):
                    if list(df.columns) != cols or df.shape != (len(rows), len(cols)) or not np.allclose(df.values.astype(float), np.array(rows, dtype=float)):
                        bad = f"section {k}: columns {list(df.columns)} shape {df.shape}, expected {cols} with {len(rows)} rows"
                        break
            if bad:
                return {"ran": True, "failed": True, "inputs": {"text": text}, "detail": bad, "searched": trial + 1}
        return {"ran": True, "failed": False, "searched": 40}
    finally:
        shutil.rmtree(tmp, ignore_errors=True)


def _replay_gsd(with_dcd, seed):
    """duck-typed HOOMD frames (no gsd / mdtraj needed): the real converters must return the documented conversion"""
    import importlib
    import random
    from types import SimpleNamespace

    import numpy as np
    G = importlib.import_module(GR)
    rng = random.Random(seed)
    nrng = np.random.default_rng(seed)

    class Traj(list):
        pass

    class Dcd:
        def __init__(self, xyz):
            self.xyz = xyz

        def read(self):
            return self.xyz, None, None

        def close(self):
            pass
    for trial in range(60):
        d = rng.choice([2, 3])
        T = rng.randint(1, 4)
        N = rng.randint(1, 6)
        frames = Traj()
        for s in range(T):
            n = N if (with_dcd or trial % 3) else rng.randint(1, 6)
            pos = nrng.uniform(-4, 4, size=(n, 3))
            if d == 2:
                pos[:, 2] = 0.0
            frames.append(SimpleNamespace(configuration=SimpleNamespace(step=rng.randint(0, 10 ** 6), dimensions=d, box=np.array([rng.uniform(5, 9) for _ in range(3)] + [0.0, 0.0, 0.0])),
                                          particles=SimpleNamespace(N=n, typeid=nrng.integers(0, 3, size=n), position=pos)))
        inputs = {"ndim": d, "frames": T, "N": [fr.particles.N for fr in frames]}
        xyz = nrng.uniform(-20, 20, size=(T, N, 3))
        try:
            got = G.read_gsd_dcd(frames, Dcd(xyz), d) if with_dcd else G.read_gsd(frames, d)
        except Exception as e:
            return {"ran": True, "failed": True, "inputs": inputs, "searched": trial + 1,
                    "detail": f"{'read_gsd_dcd' if with_dcd else 'read_gsd'} on {T} duck-typed frame(s) raises {type(e).__name__}: {e}"}
        bad = None
        if got is None or got.nsnapshots != T or len(got.snapshots) != T:
            bad = f"returned {got if got is None else (got.nsnapshots, len(got.snapshots))}, expected {T} snapshots"
        else:
            for s, (g, fr) in enumerate(zip(got.snapshots, frames)):
                want_pos = xyz[s][:, :d] if with_dcd else fr.particles.position[:, :d]
                if g.timestep != fr.configuration.step or g.nparticle != fr.particles.N:
                    bad = f"frame {s}: timestep/nparticle {g.timestep}/{g.nparticle}"
                elif not np.array_equal(np.asarray(g.particle_type), fr.particles.typeid + 1):
                    bad = f"frame {s}: particle_type {np.asarray(g.particle_type).tolist()}, expected typeid + 1 = {(fr.particles.typeid + 1).tolist()}"
                elif g.positions is None or np.asarray(g.positions).shape != want_pos.shape or not np.array_equal(np.asarray(g.positions), want_pos):
                    bad = f"frame {s}: positions are not the {'DCD' if with_dcd else 'GSD'} positions cut to {d} dimensions"
                elif not np.array_equal(np.asarray(g.boxlength), fr.configuration.box[:d]) or not np.array_equal(np.asarray(g.hmatrix), np.diag(fr.configuration.box[:d])):
                    bad = f"frame {s}: boxlength / hmatrix"
                elif not np.array_equal(np.asarray(g.boxbounds), np.column_stack((fr.particles.position[:, :d].min(axis=0), fr.particles.position[:, :d].max(axis=0)))):
                    bad = f"frame {s}: boxbounds"
                if bad:
                    break
        if bad:
            return {"ran": True, "failed": True, "inputs": inputs, "detail": bad, "searched": trial + 1}
        # documented refusals
        wrong = G.read_gsd_dcd(frames, Dcd(xyz), 5 - d) if with_dcd else G.read_gsd(frames, 5 - d)
        if wrong is not None:
            return {"ran": True, "failed": True, "inputs": inputs, "detail": "a dimensionality different from the file's is not refused (None expected)"}
        if with_dcd:
            if G.read_gsd_dcd(frames, Dcd(xyz[:, :0 + max(N - 1, 0)] if N > 1 else nrng.uniform(size=(T, N + 1, 3))), d) is not None:
                return {"ran": True, "failed": True, "inputs": inputs, "detail": "inconsistent particle numbers of GSD and DCD are not refused (None expected)"}
            if G.read_gsd_dcd(frames, Dcd(nrng.uniform(size=(T + 1, N, 3))), d) is not None:
                return {"ran": True, "failed": True, "inputs": inputs, "detail": "inconsistent frame numbers of GSD and DCD are not refused (None expected)"}
    return {"ran": True, "failed": False, "searched": 60}


def _make_dump(rng, d, style, T, same_n=True, extra=2, nmax=7):
    """text of a LAMMPS dump with T frames (orthogonal boxes with arbitrary origins, shuffled atom lines, `extra` additional columns)
    and the per-frame truth"""
    frames, text = [], ""
    N0 = rng.randint(1, nmax)
    for s in range(T):
        N = N0 if same_n else rng.randint(1, nmax)
        lo = [rng.uniform(-5, 5) for _ in range(3)]
        L = [rng.uniform(2, 6) for _ in range(3)]
        ts = rng.randint(0, 10 ** 6)
        ids = list(range(1, N + 1))
        rng.shuffle(ids)
        rows = {}
        text += f"ITEM: TIMESTEP\n{ts}\nITEM: NUMBER OF ATOMS\n{N}\nITEM: BOX BOUNDS pp pp pp\n"
        for k in range(3):
            text += f"{lo[k]!r} {lo[k] + L[k]!r}\n"
        text += "ITEM: ATOMS id type " + " ".join(STYLE_WORDS[style][:d]) + "".join(f" c{e}" for e in range(extra)) + "\n"
        for i in ids:
            typ = rng.randint(1, 5)
            if style == "xs":
                raw = [rng.uniform(0, 1) for _ in range(d)]
                cart = [lo[k] + raw[k] * L[k] for k in range(d)]
            else:
                base = [lo[k] + rng.uniform(0, 1) * L[k] for k in range(d)]
                sh = [rng.choice([-1, 0, 0, 1]) for _ in range(d)]
                raw = [base[k] + sh[k] * L[k] * rng.uniform(0.01, 0.99) if sh[k] else base[k] for k in range(d)]
                cart = list(raw)
                if style == "x":
                    cart = [r + L[k] if r < lo[k] else (r - L[k] if r > lo[k] + L[k] else r) for k, r in enumerate(raw)]
            ext = [rng.uniform(-3, 3) for _ in range(extra)]
            toks = [str(i), str(typ)] + [repr(x) for x in raw] + [repr(x) for x in ext]
            rows[i] = dict(type=typ, cart=cart, toks=toks)
            text += " ".join(toks) + "\n"
        frames.append(dict(ts=ts, N=N, lo=lo[:d], L=L[:d], rows=rows))
    return text, frames


def _cell_bad(np, g, fr, d):
    lo, L = np.array(fr["lo"]), np.array(fr["L"])
    if not np.allclose(g.boxbounds, np.column_stack((lo, lo + L)), rtol=1e-12, atol=1e-12):
        return f"boxbounds {np.asarray(g.boxbounds).tolist()}"
    if not np.allclose(g.boxlength, (lo + L) - lo, rtol=1e-12, atol=1e-12) or not np.allclose(g.hmatrix, np.diag((lo + L) - lo), rtol=1e-12, atol=1e-12):
        return "boxlength / hmatrix"
    if g.realbounds is not None:
        return "realbounds is not None"
    return None


def _replay_dump_readers(which, seed):
    """real auxiliary readers (and their wrappers) on written dump files, compared with an independent reading of the text"""
    import importlib
    import io
    import os
    import random
    import shutil
    import tempfile

    import numpy as np
    R = importlib.import_module(LR)
    rng = random.Random(seed)
    tmp = tempfile.mkdtemp(prefix="pyvc-replay-")
    try:
        for trial in range(60):
            d = rng.choice([2, 3])
            T = rng.randint(1, 3)
            style = rng.choice(["x", "xs", "xu"])
            extra = rng.randint(1, 3)
            nmax = 7
            if which == "additions" and trial % 6 == 5:
                T, nmax = rng.randint(10, 14), 2         # many frames of few atoms (frame counting by division)
            text, frames = _make_dump(rng, d, style, T, same_n=(which == "additions" or trial % 2 == 0), extra=extra, nmax=nmax)
            path = os.path.join(tmp, f"t{trial}.dump")
            with open(path, "w") as fh:
                fh.write(text)
            ncols = 2 + d + extra
            inputs = {"reader": which, "ndim": d, "style": style, "text": text}
            try:
                if which == "vector":
                    cols = [rng.randint(1, ncols) for _ in range(rng.randint(1, 3))]
                    inputs["columnsids"] = cols
                    if trial % 2:
                        snaps = R.read_lammps_vector_wrapper(path, d, cols)
                        got, n_got = list(snaps.snapshots), snaps.nsnapshots
                    else:
                        with open(path) as fh:
                            got = [R.read_lammps_vector(fh, d, cols) for _ in range(T)]
                            tail = R.read_lammps_vector(fh, d, cols)
                        n_got = T if tail is None else T + 1
                    if n_got != T or len(got) != T:
                        return {"ran": True, "failed": True, "inputs": inputs, "detail": f"{T} frames in the file, {n_got} reported / {len(got)} returned", "searched": trial + 1}
                    for s, (g, fr) in enumerate(zip(got, frames)):
                        bad = None
                        if g is None or g.timestep != fr["ts"] or g.nparticle != fr["N"]:
                            bad = "timestep / nparticle"
                        else:
                            want = np.array([[float(fr["rows"][i]["toks"][c - 1]) for c in cols] for i in range(1, fr["N"] + 1)])
                            wt = np.array([fr["rows"][i]["type"] for i in range(1, fr["N"] + 1)])
                            if np.asarray(g.positions).shape != want.shape or not np.array_equal(np.asarray(g.positions), want):
                                bad = f"columns {cols} by id: got {np.asarray(g.positions).tolist()}, expected {want.tolist()}"
                            elif not np.array_equal(np.asarray(g.particle_type), wt):
                                bad = "particle_type by id"
                            else:
                                bad = _cell_bad(np, g, fr, d)
                        if bad:
                            return {"ran": True, "failed": True, "inputs": inputs, "detail": f"frame {s}: {bad}", "searched": trial + 1}
                elif which == "center":
                    keys = rng.sample([1, 2, 3, 4, 5], rng.randint(1, 3))
                    mol = {k: rng.randint(1, 9) for k in keys}
                    inputs["moltypes"] = mol
                    if trial % 2:
                        snaps = R.read_lammps_centertype_wrapper(path, d, mol)
                        got, n_got = list(snaps.snapshots), snaps.nsnapshots
                    else:
                        with open(path) as fh:
                            got = [R.read_lammps_centertype(fh, d, mol) for _ in range(T)]
                            tail = R.read_lammps_centertype(fh, d, mol)
                        n_got = T if tail is None else T + 1
                    if n_got != T or len(got) != T:
                        return {"ran": True, "failed": True, "inputs": inputs, "detail": f"{T} frames in the file, {n_got} reported / {len(got)} returned", "searched": trial + 1}
                    for s, (g, fr) in enumerate(zip(got, frames)):
                        sel = [i for i in range(1, fr["N"] + 1) if fr["rows"][i]["type"] in mol]
                        bad = None
                        if g is None or g.timestep != fr["ts"]:
                            bad = "timestep"
                        elif g.nparticle != len(sel) or np.asarray(g.particle_type).shape != (len(sel),) or np.asarray(g.positions).shape != (len(sel), d):
                            bad = f"{g.nparticle} atoms returned, {len(sel)} atoms have a type in {sorted(mol)}"
                        elif [int(x) for x in np.asarray(g.particle_type)] != [mol[fr["rows"][i]["type"]] for i in sel]:
                            bad = f"types {np.asarray(g.particle_type).tolist()}, expected {[mol[fr['rows'][i]['type']] for i in sel]} (ids {sel})"
                        elif len(sel) and not np.allclose(np.asarray(g.positions), np.array([fr["rows"][i]["cart"] for i in sel]), rtol=1e-12, atol=1e-12):
                            bad = f"positions {np.asarray(g.positions).tolist()}, expected {[fr['rows'][i]['cart'] for i in sel]} (ids {sel})"
                        else:
                            bad = _cell_bad(np, g, fr, d)
                        if bad:
                            return {"ran": True, "failed": True, "inputs": inputs, "detail": f"frame {s}: {bad}", "searched": trial + 1}
                else:
                    ncol = rng.randint(0, ncols - 1)
                    inputs["ncol"] = ncol
                    got = R.read_additions(path, ncol)
                    N = frames[0]["N"]
                    want = np.array([[float(fr["rows"][i]["toks"][ncol]) for i in range(1, N + 1)] for fr in frames])
                    if np.asarray(got).shape != want.shape or not np.array_equal(np.asarray(got), want):
                        return {"ran": True, "failed": True, "inputs": inputs, "detail": f"got {np.asarray(got).tolist()}, expected {want.tolist()}", "searched": trial + 1}
            except Exception as e:
                return {"ran": True, "failed": True, "inputs": inputs, "detail": f"raises {type(e).__name__}: {e}", "searched": trial + 1}
        return {"ran": True, "failed": False, "searched": 60}
    finally:
        shutil.rmtree(tmp, ignore_errors=True)


UNITS = [WriteDumpHeader(), WriteDataHeader(), RoundTrip(), ReadLammpsVector(), ReadLammpsCentertype(), ReadGsd(), ReadGsdDcd(), ReadAdditions(), ReadLammpsLog(), CentertypeWrapper(), VectorWrapper()]


def lemmas():
    nl, Tq, Nq = sv.integer("nl_"), sv.integer("T_"), sv.integer("N_")
    return [("lemma:int(nlines/(N+9))=T-for-a-file-of-T-frames-of-9+N-lines", frames_lemma(nl, Tq, Nq)[0])]


def extra_checks(tier, seed, repo):
    from pyvc.vc import prove_lemmas
    return {"obligations": prove_lemmas("C19", lemmas())}


MANIFEST = {
    "text": "write_dump_header / write_data_header (real ASTs; symbolic timestep, N, bounds; 2-D and 3-D; addson absent, empty, one or two words): the "
            "returned text is exactly the 9 lines of the LAMMPS dump grammar (ITEM: TIMESTEP / ts / ITEM: NUMBER OF ATOMS / N / ITEM: BOX BOUNDS pp pp pp / "
            "three `lo hi` lines rounded to 6 decimals with the dummy z line -0.5 0.5 in 2-D / ITEM: ATOMS id type x y [z] addson) resp. the 11 lines of the "
            "data-file header. Round trip: that text followed by N atom lines (ids any permutation) given to the real read_lammps and to the real column "
            "reader is read back with the same timestep, N, bounds = round6(written bounds) (within 5e-7), box length, atoms by id, and the handle "
            "ends exactly behind the frame. read_lammps_centertype (symbolic frame, N, type map with 1-3 symbolic distinct keys and symbolic values, "
            "x / xs / xu columns, d = 2,3): rows = exactly the atoms whose type is a key, in the enumeration of increasing id, types relabelled "
            "by the map, positions wrapped once (x) / raw (xu) / lo + s L (xs), orthogonal cell, handle advanced by 9 + N, None at EOF. "
            "read_lammps_vector (1-3 symbolic 1-based column ids): positions[id-1, c] = float(token columnsids[c]-1 of the atom line with that id), "
            "types by id, cell, handle, EOF. Both wrappers: frame loop with written invariant -> nsnapshots = number of frames, frames in file order, "
            "each read by one call with the wrapper's own arguments. read_additions (symbolic T frames x N atoms, symbolic column): shape (T, N), "
            "result[s, id-1] = token ncol of that atom line; frame count int(nlines/(N+9)) = T (lemma). read_gsd / read_gsd_dcd on duck-typed HOOMD "
            "frames (symbolic frame number, per-frame particle number): nsnapshots = len(f), frame s: timestep, N, typeid + 1, positions cut to ndim "
            "(GSD) resp. DCD frame s cut to ndim, box length, diag h-matrix, bounds enclosing the positions; None for wrong dimensionality / "
            "inconsistent frame or particle numbers. read_lammpslog (symbolic log): one frame per 'Step ' line, frame k = read_csv(header = k-th "
            "'Step ' line, rows = all lines strictly between it and the k-th 'Loop time of ' line) for every complete section, also in interrupted logs.",
    "note": "On the unchanged /repo two obligations fail with failing replays (genuine defects, fixes in design_notes/C19.fix-1.diff, C19.fix-2.diff): "
            "read_gsd_dcd assigns to a frozen dataclass (every input raises FrozenInstanceError); read_lammpslog raises ValueError on an interrupted "
            "log whose unfinished section has a single thermo line (nrows = -1). The ledger is written on the tree with both fixes applied. "
            "Assumed: floats as reals (A1), token/file model, round6, relational contracts of mask selection / min / max, pandas read_csv and "
            "Series.map, dataclasses.replace; gsd / mdtraj binary formats are out of reach (duck-typed frames).",
}
