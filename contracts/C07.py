"""C07 — observables respect translation, image, relabelling, axis and rotation symmetry.

Two routes (DESIGN I.10), both on the real code or on contracts proved for the real code:

1. *relational execution*: the real AST of an analysis routine is executed symbolically on a trajectory x and on g·x (the transformed
   trajectory is a function of the same underlying symbols) and the two results are proved equal (or related) at a symbolic index;
2. *lemma over contracts*: where the routine has a proved functional postcondition result = Spec(x) (C02, C03, C05, …), the symmetry is
   proved on the spec: pointwise lemmas (the summand / the minimum-image distance is invariant) + Σ-congruence.  These clauses say
   nothing about the code by themselves, so this check re-runs the functional units they rest on.

Relational units (this module: g(r) and the neighbour writers; contracts/C07_units.py: every other observable, on the setups of the
units of C04, C06, C09, C10, C11, C13, C15, C17, which are imported read-only).  Group elements (C07_units.py):
  Translation      x_i -> x_i + t_s (a vector per frame; one vector for all frames where frames are compared: dynamics, single snapshots);
  LatticeShift     x_i -> x_i + sum_k KSH(s,i,k) ppp_k H_s[k,:], integer KSH: at every call of remove_pbc the run on g.x applies clause (c) of
                   the C02 contract — the rows are decomposed as row-of-x + integer lattice vector (obligation, ring normal form);
  AxisPermutation  coordinates, cell rows and columns, mask and box lengths permuted together (remove_pbc commutes with it: lemma on
                   the C02 formula, general cell);
  Relabelling      particle a of g.x is particle PI(a) of x (positions, types, rows and entries of the neighbour / weight files).
Observables x groups proved: see MANIFEST["text"]; what stays in the bounded stand-in (contracts/C07_relational.py): NOT_DECIDED.
Lemmas (extra_checks): lattice-shift invariance of the minimum-image vector of a pair (C02 clause c), dilation, axis permutation
(orthogonal distance; general-cell vector form), species swap of the selector.
"""
import z3

import contracts.C02 as C02
import contracts.C03 as C03
import contracts.C05 as C05
from contracts.common import Traj
from pyvc import arr as A
from pyvc import sv
from pyvc.interp import FuncVal, load_module
from pyvc.vc import Unit

NOT_DECIDED = [
    "rotation invariance of q_l, w-hat_l, |psi_l|, tetrahedral order, shape descriptors, participation ratio for open clusters (needs unitarity of "
    "the Wigner D-matrices / orthogonal invariance of eigenvalues: no contract on this code expresses it) — bounded stand-in only",
    "'to floating-point accuracy': the proofs are exact over the reals (A1)",
    "exact half-cell ties under lattice shifts (hypothesis of C02 clause c; stated in the clause names)",
    "relabelling of particle ids where a sum over ALL particles or over pairs has to be re-indexed: g(r), conditional_gr, Hessian assembly, "
    "S2 (sum over j != i), relaxation functions, gyration tensor, tetrahedral order and the neighbour writers (argpartition / argsort rows): bounded "
    "stand-in only.  Proved: psi_l, q_lm, Q_lm (sums over neighbour slots: only PI(PINV(j)) = j is needed); S(q) with the reindexing rule as a "
    "TRUSTED hypothesis",
    "axis permutation of: |psi_l| (atan2 under the exchange of its arguments), q_l / w_l (a rotation), tetrahedral order (the argpartition "
    "contract's symbol depends on the order of summation), Hessian (blocks permute), S(q) (the wave-vector list is permuted), relaxation with "
    "minimum-image displacements (x-only): bounded stand-in only",
    "derived bond-order invariants q_l, Q_l, w_l, w-hat_l: functions of the proved-invariant q_lm / Q_lm arrays, the methods ql_Ql / w_W_cap "
    "themselves are not run relationally (bounded stand-in)",
    "Hessian: eigenvectors / participation ratios of the run on g.x (eigh's result is not unique for degenerate spectra); the matrix handed to "
    "eigh is proved identical, the spectrum is a function of it",
    "S(q): the returned table is groupby(|q|).mean() of the per-wave-vector table proved invariant (the engine's groupby contract introduces "
    "fresh group symbols per call, so the grouped tables of two runs are not compared)",
    "lattice shifts in Dynamics.relaxation: the shift of a particle is the same in every frame (a shift that changes between frames changes "
    "unwrapped displacements)",
    "dilation: lemmas over the contracts + bounded stand-in (no relational unit)",
]
TRUSTED = [
    "Σ axiom instances of pyvc/axioms.py: extensionality (with pointwise facts, each proved at an arbitrary index as its own obligation), "
    "linearity (sigma_linear) and constant summand (const_sum) for the centre of mass, unfold-last (as rewrites in the induction step of S(q))",
    "induction over the number of particles (S(q) under translation): base and step are obligations, the principle is trusted",
    "angle-addition instances cos(A+B) = cos A cos B - sin A sin B, sin(A+B) = sin A cos B + cos A sin B (S(q), translation), 2 pi Z periodicity "
    "instances with Z an integer-sorted term (S(q), lattice shift), cos^2 + sin^2 = 1 (hypothesis of the frame-term lemma): used as rewrites / "
    "hypotheses, the argument identities (argument of the code = A + B) are obligations",
    "application of clause (c) of the remove_pbc contract (C02, re-verified by this check) at the calls of the run on g.x (lattice shift), of the "
    "lemma `remove_pbc commutes with axis permutations` (proved here on the C02 formula) at the calls of the run on g.x (axis permutation)",
    "relabelling: PI / PINV are mutually inverse bijections of [0, N) (definition of the group element, facts per application); "
    "Σ-reindexing by a bijection, sum_{i<N} f(PI(i)) = sum_{i<N} f(i), is TRUSTED and used for S(q) only — its instances are explicit hypotheses "
    "of the `frame-term` obligations",
    "the setups, callee contracts (read_neighbors, sph_harm_l, s2_integral, PairInteractions.caller, pair_matrix, cage_relative) and written loop "
    "invariants of the base units (C04, C06, C09, C10, C11, C13, C15, C17) — used as in their own checks; the relational clauses use nothing of "
    "their functional postconditions",
    "relational library contracts as functions of their array argument (argpartition, argsort, max, eig / eigh): the same symbol for ring-equal data",
    "the functional contracts of C02 / C03 / C05 the lemma route rests on (their units are re-run by this check)",
]


def _second_gr(ctx, o1, tr2, g=None):
    """a second gr object: same attributes, transformed trajectory (and mask)"""
    attrs = dict(o1.content)
    attrs["snapshots"] = tr2.snapshots()
    if g is not None:
        attrs["ppp"] = g.mask(attrs["ppp"])
    return ctx.obj(C03.MOD, "gr", attrs)


def _related(name, inr, v1, v2):
    """goals for `v1 == v2` where both are (rational functions of) one accumulated Σ-term: the two Σ-terms are proved equal by SMT with
    Σ-extensionality, the rest by ring normal form after rewriting one Σ-term into the other"""
    s1, s2 = C03.outer_sigmas(sv.zr(v1)), C03.outer_sigmas(sv.zr(v2))
    if len(s1) == 1 and len(s2) == 1 and not s1[0].eq(s2[0]):
        yield name + ":accumulated-sums-equal", sv.implies(inr, sv.SV(s1[0] == s2[0])), {"timeout": 10}
        g = sv.zb(sv.implies(inr, sv.cmp("==", v1, v2)))
        g = z3.substitute(g, (s2[0], s1[0]))
        yield name, g, {"ring_only": True}
    else:
        yield name, sv.implies(inr, sv.cmp("==", v1, v2))


def _run_method(ctx, obj, name):
    m = load_module(C03.MOD)
    cls = m.get_class("gr")
    fv = FuncVal(m, cls.methods[name], bound=obj, cls=cls)
    interp = ctx.interp
    interp.depth += 1
    try:
        return interp.call_function(fv, [], {})
    finally:
        interp.depth -= 1


class GrTranslation(Unit):
    """g(r) is unchanged when every frame is rigidly translated (a different vector per frame is allowed): relational execution of the
    real gr.<method> on x and on x + t"""
    module = C03.MOD
    prop = "C07"
    summaries = C03.PBC
    timeout = 30
    solver_opts = {"rounds": 4}

    def __init__(self, K, g=None):
        import contracts.C07_units as U
        self.K = K
        self.g = g or U.TRANSLATION
        self.qualname = f"gr.{C03.METHODS[K]}"

    @property
    def name(self):
        return f"{self.g.key}:{self.qualname}"

    def cases(self):
        return ["d=2", "d=3"]

    def geo(self, inp):
        import contracts.C07_units as U
        return U.traj_geo(inp)

    def setup(self, ctx, case):
        d = int(case[2])
        o, inp = C03._setup_self(ctx, d, self.K, None)
        geo = self.geo(inp)
        tr2 = inp["tr"].view(pos_map=lambda t, s, i, c, base: self.g.pos(geo, s, i, c, True), cell_map=lambda t, s, a, b, base: self.g.cell(geo, s, a, b))
        inp.update(o=o, tr2=tr2, k=ctx.int("k"))
        return [o], {}, inp

    def clause_names(self, case):
        return [f"{name}:{self.g.what}" for name, _ in C03.columns(self.K)]

    def ensures(self, ctx, case, inp, out):
        from pyvc.pandas_model import df_content
        res1 = out.value
        token = self.g.begin(ctx, self, inp)
        try:
            o2 = _second_gr(ctx, inp["o"], inp["tr2"], self.g)
            res2 = _run_method(ctx, o2, C03.METHODS[self.K])
        finally:
            self.g.end(ctx, self, inp, token)
        k, B = inp["k"], inp["B"]
        inr = sv.and_(sv.cmp(">=", k, 0), sv.cmp("<", k, B))
        c1, c2 = df_content(res1)["cols"], df_content(res2)["cols"]
        for name, _ in C03.columns(self.K):
            yield from _related(f"{name}:{self.g.what}", inr, c1[name].get((k,)), c2[name].get((k,)))

    def replay(self, case, clause, model, seed):
        return _replay_gr_symmetry(self.K, int(case[2]), seed, self.g.key)


class GrSpeciesSwap(Unit):
    """swapping the labels of species 1 and 2 only swaps the partial columns: relational execution of gr.binary on x and on x with
    type ids 1 <-> 2 and the compositions swapped"""
    module = C03.MOD
    qualname = "gr.binary"
    prop = "C07"
    summaries = C03.PBC
    timeout = 30
    solver_opts = {"rounds": 4}
    name = "species-swap:gr.binary"

    def cases(self):
        return ["d=2", "d=3"]

    def setup(self, ctx, case):
        d = int(case[2])
        o, inp = C03._setup_self(ctx, d, 2, None)
        tr2 = inp["tr"].view(type_map=lambda t, s, i, base: sv.sub(3, base))
        inp.update(o=o, tr2=tr2, k=ctx.int("k"))
        return [o], {}, inp

    def clause_names(self, case):
        return ["gr:unchanged", "gr11<->gr22", "gr22<->gr11", "gr12:unchanged"]

    def ensures(self, ctx, case, inp, out):
        from pyvc.pandas_model import df_content
        res1 = out.value
        attrs = dict(inp["o"].content)
        attrs["snapshots"] = inp["tr2"].snapshots()
        Na = inp["Na"]
        attrs["typecount"] = A.from_nested([Na[1], Na[0]], "int")
        attrs["rhotype"] = A.from_nested([sv.div(Na[1], inp["V"]), sv.div(Na[0], inp["V"])], "float")
        o2 = ctx.obj(C03.MOD, "gr", attrs)
        res2 = _run_method(ctx, o2, "binary")
        k, B = inp["k"], inp["B"]
        inr = sv.and_(sv.cmp(">=", k, 0), sv.cmp("<", k, B))
        c1, c2 = df_content(res1)["cols"], df_content(res2)["cols"]
        for nme, a, b in (("gr:unchanged", "gr", "gr"), ("gr11<->gr22", "gr11", "gr22"), ("gr22<->gr11", "gr22", "gr11"), ("gr12:unchanged", "gr12", "gr12")):
            yield from _related(nme, inr, c1[a].get((k,)), c2[b].get((k,)))

    def replay(self, case, clause, model, seed):
        return _replay_gr_symmetry(2, int(case[2]), seed, "swap")


def _replay_gr_symmetry(K, d, seed, kind):
    import importlib

    import numpy as np
    G = importlib.import_module(C03.MOD)
    RUm = importlib.import_module("PyMatterSim.reader.reader_utils")
    rng = np.random.default_rng(seed + 31 * K + d)
    for trial in range(5):
        N = int(rng.integers(max(3, K + 1), 14))
        T = int(rng.integers(1, 3))
        L = rng.uniform(3.0, 6.0, size=d)
        H = np.diag(L)
        if trial % 2:
            H[1, 0] = rng.uniform(-0.4, 0.4) * L[0]
        types = np.array([1 + (q % K) for q in range(N)])
        rng.shuffle(types)
        ppp = np.ones(d, dtype=int)
        rdelta = 0.4

        def build(pos_list, types_):
            snaps = [RUm.SingleSnapshot(timestep=s, nparticle=N, particle_type=types_.copy(), positions=p.copy(), boxlength=L.copy(),
                                        boxbounds=np.column_stack([np.zeros(d), L]), realbounds=None, hmatrix=H.copy()) for s, p in enumerate(pos_list)]
            return RUm.Snapshots(nsnapshots=T, snapshots=snaps)
        pos = [rng.uniform(0, 1, size=(N, d)) @ H for _ in range(T)]
        try:
            a = getattr(G.gr(build(pos, types), ppp=ppp, rdelta=rdelta), C03.METHODS[K])()
            if kind == "translation":
                pos2 = [p + rng.uniform(-7, 7, size=d) for p in pos]
                b = getattr(G.gr(build(pos2, types), ppp=ppp, rdelta=rdelta), C03.METHODS[K])()
                pairs = [(c, c) for c in a.columns]
            elif kind == "lattice-shift":
                pos2 = [p + rng.integers(-2, 3, size=(N, d)) @ H for p in pos]
                b = getattr(G.gr(build(pos2, types), ppp=ppp, rdelta=rdelta), C03.METHODS[K])()
                pairs = [(c, c) for c in a.columns]
            elif kind == "axis-permutation":
                ax = [1, 0] if d == 2 else [1, 2, 0]
                Hs, Ls = H.copy(), L.copy()
                H, L = H[np.ix_(ax, ax)], L[ax]
                b = getattr(G.gr(build([p[:, ax] for p in pos], types), ppp=ppp, rdelta=rdelta), C03.METHODS[K])()
                H, L = Hs, Ls
                pairs = [(c, c) for c in a.columns]
            else:
                b = getattr(G.gr(build(pos, 3 - types), ppp=ppp, rdelta=rdelta), C03.METHODS[K])()
                pairs = [("gr", "gr"), ("gr11", "gr22"), ("gr22", "gr11"), ("gr12", "gr12")]
        except Exception as e:
            return {"ran": True, "failed": True, "detail": f"raises {type(e).__name__}: {e}"}
        for ca, cb in pairs:
            # translations move distances by rounding only: allow the histogram to differ only where a distance sits on a bin edge
            if not np.allclose(a[ca].values, b[cb].values, rtol=1e-9, atol=1e-12):
                diff = np.abs(a[ca].values - b[cb].values)
                return {"ran": True, "failed": True, "searched": trial + 1, "detail": f"{kind}: column {ca} vs {cb} differ (max {diff.max():.3g} at bin {int(diff.argmax())})",
                        "inputs": {"K": K, "d": d, "N": N, "T": T, "hmatrix": H.tolist(), "types": types.tolist()}}
    return {"ran": True, "failed": False, "searched": 5}


class WriterTranslation(Unit):
    """the neighbour files written for x and for x + t (per-frame translation) have identical rows: relational execution of the real writer"""
    module = C05.CN_MOD
    prop = "C07"
    summaries = C05.PBC_OPAQUE
    timeout = 20

    def __init__(self, which, g=None):
        import contracts.C07_units as U
        self.which = which
        self.qualname = which
        self.g = g or U.TRANSLATION

    @property
    def name(self):
        return f"{self.g.key}:{self.which}"

    def geo(self, inp):
        import contracts.C07_units as U
        return U.traj_geo(inp)

    def cases(self):
        return ["d=2", "d=3"]

    def setup(self, ctx, case):
        unit = {"cutoffneighbors": C05.CutoffNeighbors, "Nnearests": C05.NNearests}[self.which]()
        args, kwargs, inp = unit.setup(ctx, case)
        geo = self.geo(inp)
        tr2 = inp["tr"].view(pos_map=lambda t, s, i, c, base: self.g.pos(geo, s, i, c, True), cell_map=lambda t, s, a, b, base: self.g.cell(geo, s, a, b))
        inp.update(args=args, tr2=tr2)
        return args, kwargs, inp

    @property
    def clause(self):
        return "rows-identical-under-translation" if self.g.key == "translation" else "rows-identical:" + self.g.what

    def clause_names(self, case):
        return [self.clause]

    def ensures(self, ctx, case, inp, out):
        from pyvc.text import Block, Rows, Run, Text, Tok, text_lines
        f1 = C05._written_file(out.state)
        # second run on the translated trajectory, writing to another file
        m = load_module(C05.CN_MOD)
        fv = FuncVal(m, m.defs[self.which])
        args2 = [inp["tr2"].snapshots(), inp["args"][1], self.g.mask(inp["args"][2]), "nb2.dat"]
        interp = ctx.interp
        token = self.g.begin(ctx, self, inp)
        interp.depth += 1
        try:
            interp.call_function(fv, args2, {})
        finally:
            interp.depth -= 1
            self.g.end(ctx, self, inp, token)
        files = [c.data for c in out.state.heap.values() if c.kind == "file" and c.data.get("mode") == "w"]
        f2 = [f for f in files if f.get("path") == "nb2.dat"]
        if f1 is None or len(f2) != 1:
            yield self.clause, False
            return
        f2 = f2[0]
        s, i = inp["s"], inp["i"]
        tr = inp["tr"]
        ins = sv.and_(sv.cmp(">=", s, 0), sv.cmp("<", s, tr.T), sv.cmp(">=", i, 0), sv.cmp("<", i, tr.N))

        def row_terms(fd):
            outer = fd["items"][0]
            fi = outer.at(s)
            if self.which == "Nnearests":
                rows = [x for x in fi[1].pieces if isinstance(x, Rows)][0]
                c = sv.integer("c_any")
                return [rows.n, rows.width, rows.fn(i, c)], sv.and_(sv.cmp(">=", c, 0), sv.cmp("<", c, rows.width))
            inner = [x for x in fi if isinstance(x, Block)][0]
            line = text_lines(inner.at(i))[0]
            t = sv.integer("t_any")
            return [line[0].value, line[1].value, line[2].n, line[2].fn(t)], sv.and_(sv.cmp(">=", t, 0), sv.cmp("<", t, line[2].n))
        try:
            a, ra = row_terms(f1)
            b, rb = row_terms(f2)
        except Exception:
            yield self.clause, False
            return
        yield self.clause, sv.implies(sv.and_(ins, ra), sv.and_(*[sv.cmp("==", x, y) for x, y in zip(a, b)]))

    def replay(self, case, clause, model, seed):
        if self.g.key == "translation":
            return C05._replay_writer(self.which, int(case[2]), seed)
        import contracts.C07_units as U
        return U.replay_rel(self.which, self.g.key, seed, case)


def lemmas():
    out = []
    half = sv.to_frac(0.5)
    for d in (2, 3):
        # --- lattice (image) shift of either particle of a pair leaves the minimum-image vector unchanged, away from ties (C02 clause c,
        #     stated on the contract's formula for a pair difference r = r_j - r_i and integer shifts t_j - t_i)
        Hm = [[sv.real(f"H_{a}{b}") for b in range(d)] for a in range(d)]
        det, G = C02._inv_spec(Hm, d)
        for mask in ([1] * d, [1] + [0] * (d - 1)):
            p = mask
            r = [sv.real(f"r_{c}") for c in range(d)]
            t = [sv.integer(f"t_{k}") for k in range(d)]
            shifted = [sv.add(r[c], C02._sum([sv.mul(sv.mul(t[k], p[k]), Hm[k][c]) for k in range(d)])) for c in range(d)]
            a = C02.pbc_spec_row(r, Hm, G, p, d)
            b = C02.pbc_spec_row(shifted, Hm, G, p, d)
            m = C02._vecmat(r, G, d)
            rw = [(sv.rint(sv.add(m[k], t[k])), sv.add(sv.rint(m[k]), t[k])) for k in range(d) if p[k] == 1]
            out.append((f"lemma:d={d}/ppp={''.join(map(str, p))}:min-image-of-a-pair-is-invariant-under-lattice-shifts-of-either-particle",
                        sv.and_(*[sv.cmp("==", a[c], b[c]) for c in range(d)]), {"rewrites": rw, "ring_only": True}))
        # --- axis permutation of an orthogonal cell: the squared minimum-image distance is a symmetric function of the axes
        L = [sv.real(f"L_{c}") for c in range(d)]
        Hd = [[L[a] if a == b else sv.to_frac(0.0) for b in range(d)] for a in range(d)]
        detd, Gd = C02._inv_spec(Hd, d)
        pp = [sv.integer(f"p_{c}") for c in range(d)]
        r = [sv.real(f"r_{c}") for c in range(d)]
        perm = list(range(1, d)) + [0]
        Hp = [[L[perm[a]] if a == b else sv.to_frac(0.0) for b in range(d)] for a in range(d)]
        detp, Gp = C02._inv_spec(Hp, d)
        a = C02.pbc_spec_row(r, Hd, Gd, pp, d)
        b = C02.pbc_spec_row([r[perm[c]] for c in range(d)], Hp, Gp, [pp[perm[c]] for c in range(d)], d)
        n2a = C02._sum([sv.mul(x, x) for x in a])
        n2b = C02._sum([sv.mul(x, x) for x in b])
        out.append((f"lemma:d={d}:axis-permutation-with-the-box-keeps-the-min-image-distance", sv.cmp("==", n2a, n2b), {"ring_only": True}))
        # --- dilation: coordinates, cell and bin width scaled by lam > 0: min image scales, bin membership and V/shell are scale free
        lam = sv.real("lam")
        Hl = [[sv.mul(lam, Hm[a][b]) for b in range(d)] for a in range(d)]
        detl, Gl = C02._inv_spec(Hl, d)
        p1 = [sv.integer(f"p_{c}") for c in range(d)]
        a = C02.pbc_spec_row(r, Hm, G, p1, d)
        b = C02.pbc_spec_row([sv.mul(lam, x) for x in r], Hl, Gl, p1, d)
        out.append((f"lemma:d={d}:dilation-scales-the-min-image-vector", sv.and_(*[sv.cmp("==", b[c], sv.mul(lam, a[c])) for c in range(d)]), {"ring_only": True}))
        V, shell_lo, shell_hi, rd, k = sv.real("V"), None, None, sv.real("rdelta"), sv.integer("k")
        e0, e1 = sv.mul(k, rd), sv.mul(sv.add(k, 1), rd)
        sh = sv.sub(sv.power(e1, d), sv.power(e0, d))
        e0l, e1l = sv.mul(k, sv.mul(lam, rd)), sv.mul(sv.add(k, 1), sv.mul(lam, rd))
        shl = sv.sub(sv.power(e1l, d), sv.power(e0l, d))
        out.append((f"lemma:d={d}:V/shell-is-scale-free", sv.cmp("==", sv.div(sv.mul(sv.power(lam, d), V), shl), sv.div(V, sh)), {"ring_only": True}))
    x, lam, lo, hi = sv.real("x"), sv.real("lam"), sv.real("e_lo"), sv.real("e_hi")
    out.append(("lemma:bin-membership-is-scale-free", sv.implies(lam > 0, sv.cmp("==", sv.and_(sv.cmp("<=", sv.mul(lam, lo), sv.mul(lam, x)), sv.cmp("<", sv.mul(lam, x), sv.mul(lam, hi))),
                                                                                 sv.and_(sv.cmp("<=", lo, x), sv.cmp("<", x, hi))))))
    s_, y = sv.real("s"), sv.real("y")
    out.append(("lemma:sqrt(lam^2 s)=lam sqrt(s)", sv.implies(sv.and_(lam > 0, s_ >= 0), sv.cmp("==", sv.sqrt(sv.mul(sv.mul(lam, lam), s_)), sv.mul(lam, sv.sqrt(s_))))))
    ti, tj = sv.integer("ti"), sv.integer("tj")
    for K in (2, 3):
        for a in range(1, K + 1):
            for b in range(a, K + 1):
                sw = lambda v: sv.ite(sv.cmp("==", v, 1), 2, sv.ite(sv.cmp("==", v, 2), 1, v))
                sa, sb = (2 if a == 1 else 1 if a == 2 else a), (2 if b == 1 else 1 if b == 2 else b)
                out.append((f"lemma:K={K}:species-swap-maps-selector-{a}{b}-to-{min(sa,sb)}{max(sa,sb)}",
                            sv.implies(sv.and_(ti >= 1, ti <= K, tj >= 1, tj <= K),
                                       sv.cmp("==", C03.sel(a, b, sw(ti), sw(tj)), C03.sel(min(sa, sb), max(sa, sb), ti, tj)))))
    return out


def extra_checks(tier, seed, repo):
    from pyvc import solve
    from pyvc.state import State, use_state
    from pyvc.vc import ObResult
    obs = []
    with use_state(State()):
        import contracts.C07_units as U
        for item in lemmas() + U.axis_lemmas():
            name, goal = item[0], item[1]
            opts = item[2] if len(item) > 2 else {}
            ob = ObResult(f"C07:{name}")
            gz = sv.zb(goal) if isinstance(goal, sv.SV) else (z3.BoolVal(goal) if isinstance(goal, bool) else goal)
            ob.add(solve.prove([], gz, 20, opts))
            obs.append(ob.finish().as_dict())
    rel_obs, bounded = _relational_bounded(seed, repo)
    return {"obligations": obs + rel_obs, "bounded": [bounded]}


def _run_relational(seed, repo, only=None, case=""):
    """contracts/C07_relational.py under the repository's interpreter -> its JSON summary"""
    import json
    import os
    import subprocess
    import tempfile
    here = os.path.dirname(os.path.abspath(__file__))
    py = os.environ.get("PYVC_REPLAY_PYTHON", "/venv/bin/python")
    fd, out = tempfile.mkstemp(prefix="pyvc-c07rel.", suffix=".json")
    os.close(fd)
    try:
        repo = repo or os.environ.get("PYVC_REPO", "/repo")
        cmd = [py, os.path.join(here, "C07_relational.py"), repo, str(seed), out] + ([only, case] if only else [])
        r = subprocess.run(cmd, capture_output=True, text=True, timeout=900)
        try:
            with open(out) as f:
                return json.load(f)
        except Exception:
            return {"relations_checked": 0, "failed": [], "errors": [{"error": (r.stderr or r.stdout)[-800:]}], "checked": [], "bound": ""}
    except subprocess.TimeoutExpired:
        return {"relations_checked": 0, "failed": [], "errors": [{"error": "timeout"}], "checked": [], "bound": ""}
    finally:
        if os.path.exists(out):
            os.unlink(out)


def _relational_bounded(seed, repo):
    """BOUNDED stand-in for the observables that are not run relationally by the symbolic executor (S(q), neighbour sets under the
    whole group, BOO invariants, tetrahedral order, pair entropy, Hessian spectra, relaxation functions, shape descriptors,
    participation ratio; translations, lattice shifts, relabelling, axis permutations, rotations of open clusters, dilation):
    the statement itself evaluated on the real code for seeded configurations in general position.  Reported under `bounded`, never
    counted as proved; a failing relation is a genuine violation with its input (replayed by replay_extra)."""
    d = _run_relational(seed, repo)
    obs = []
    for r in d.get("failed", []):
        name = f"C07:relational(bounded):{r['observable']}/{r['group']}"
        obs.append({"name": name, "status": "REFUTED", "ms": 0, "backends": ["bounded-relational-replay"], "queries": 1, "replayable": True,
                    "failed": [{"status": "REFUTED", "reason": "observable(g.x) != g.observable(x) on the real code: " + str(r.get("detail"))[:300],
                                "model": {"observable": r["observable"], "group": r["group"], "inputs": r.get("inputs")}, "path": ""}]})
    bounded = {"what": "C07 relational stand-in (contracts/C07_relational.py): observable(g.x) == g.observable(x) on the real code",
               "bound": d.get("bound"), "relations_checked": d.get("relations_checked"), "failed": len(d.get("failed", [])),
               "checked": d.get("checked"), "errors": [e.get("error", "")[-300:] for e in d.get("errors", [])][:3], "counted_as_proved": False}
    return obs, bounded


def replay_extra(rec):
    """replay of a failed bounded relation: the same seeded harness restricted to that observable, on the real code"""
    name = rec.get("obligation", "")
    if ":relational(bounded):" not in name:
        return {"ran": False, "error": "no replay harness for this lemma"}
    obs, grp = name.split(":relational(bounded):", 1)[1].rsplit("/", 1)
    d = _run_relational(int(rec.get("seed") or 0), rec.get("repo") or "/repo", only=obs)
    bad = [r for r in d.get("failed", []) if r["observable"] == obs and r["group"] == grp] or d.get("failed", [])
    if bad:
        return {"ran": True, "failed": True, "searched": d.get("relations_checked"), "inputs": bad[0].get("inputs"),
                "detail": f"{bad[0]['observable']} under {bad[0]['group']}: {bad[0].get('detail')}"}
    return {"ran": bool(d.get("relations_checked")), "failed": False, "searched": d.get("relations_checked"), "error": "; ".join(e.get("error", "")[-200:] for e in d.get("errors", []))}


# functional units the lemma route rests on (re-verified with this property): the g(r) count/normalisation clauses for one and two species
# and the minimum-image contract
_DEP = [C03.Method(1), C03.Method(2)] + list(C02.UNITS)



def _quick():
    """quick tier of ./check (the case lists below are longer in the thorough tier and in replays)"""
    import os
    import sys
    if not any("pyvc" in a for a in sys.argv[:1]) and "pyvc.main" not in sys.modules:
        return False
    tier = os.environ.get("VERIF_TIER", "quick")
    if "--tier" in sys.argv:
        tier = sys.argv[sys.argv.index("--tier") + 1]
    return tier != "thorough"


def _relational_units():
    import contracts.C04 as C04
    import contracts.C06 as C06
    import contracts.C09 as C09
    import contracts.C10 as C10
    import contracts.C11 as C11
    import contracts.C13 as C13
    import contracts.C15 as C15
    import contracts.C17 as C17
    import contracts.C07_units as U
    q = _quick()
    T = U.TRANSLATION
    units = [
        U.Boo2d(C10.LthOrder(), T, cases=["unweighted/nofile", "weighted/nofile"]),
        U.Boo3d(C09.QlmQlm(), T),
        U.Tetra(C17.Tetrahedral(), T),
        U.PairEntropy(C17.ParticleS2(), T, cases=["d=2/s2-only", "d=3/savegr"] if q else None),
        U.Gyration(C17.Gyration(), T),
        U.DivCurl(C15.DivergenceCurl(), T),
        U.Hessian(C11.Diagonalize(), T, cases=["d=2/K=2", "d=3/K=1"]),
        U.Relaxation(C06.DynRelaxation(), T, cases=["d=2/slow/xu/nocage/all", "d=3/slow/xu/cage/condition", "d=3/fast/x-only/cage/condition"] if q else None),
        U.CondGr(C13.CondGr(), T, cases=["d=2/float", "d=3/bool", "d=3/vector"] if q else [c for c in C13.CondGr().cases() if "badtype" not in c]),
    ]
    L = U.LATTICE
    for g in (T, L):
        units += [U.Sq(C04.Method(1), g, cases=["d=2/nofile/species=1", "d=3/nofile/species=1"]), U.Sq(C04.Method(2), g, cases=["d=2/nofile", "d=3/nofile"])]
        if not q:
            units += [U.Sq(C04.Method(3), g, cases=["d=2/nofile", "d=3/nofile"])]
    P = U.RELABEL
    units += [U.Boo2d(C10.LthOrder(), P, cases=["unweighted/nofile", "weighted/nofile"]), U.Boo3d(C09.QlmQlm(), P, cases=["weighted"] if q else None),
              U.Sq(C04.Method(1), P, cases=["d=2/nofile/species=1", "d=3/nofile/species=1"]), U.Sq(C04.Method(2), P, cases=["d=2/nofile", "d=3/nofile"])]
    X = U.AXES
    units += [
        GrTranslation(1, X), GrTranslation(2, X), WriterTranslation("cutoffneighbors", X), WriterTranslation("Nnearests", X),
        U.PairEntropy(C17.ParticleS2(), X, cases=["d=2/s2-only", "d=3/savegr"] if q else None),
        U.DivCurl(C15.DivergenceCurl(), X),
        U.Relaxation(C06.DynRelaxation(), X, cases=["d=2/slow/xu/nocage/all", "d=3/slow/xu/cage/condition"] if q else [c for c in C06.DynRelaxation().cases() if "/xu/" in c]),
        U.CondGr(C13.CondGr(), X, cases=["d=2/float", "d=3/bool", "d=3/vector"] if q else [c for c in C13.CondGr().cases() if "badtype" not in c and "m=3" not in c]),
    ]
    units += [
        GrTranslation(1, L), GrTranslation(2, L), WriterTranslation("cutoffneighbors", L), WriterTranslation("Nnearests", L),
        U.Boo2d(C10.LthOrder(), L, cases=["unweighted/nofile", "weighted/nofile"]),
        U.Boo3d(C09.QlmQlm(), L, cases=["unweighted"] if q else None),
        U.Tetra(C17.Tetrahedral(), L),
        U.PairEntropy(C17.ParticleS2(), L, cases=["d=2/savegr", "d=3/s2-only"] if q else None),
        U.DivCurl(C15.DivergenceCurl(), L),
        U.Hessian(C11.Diagonalize(), L, cases=["d=2/K=2"] if q else ["d=2/K=2", "d=3/K=1"]),
        U.Relaxation(C06.DynRelaxation(), L, cases=["d=2/slow/x-only/nocage/all", "d=3/slow/xu/cage/condition", "d=3/fast/x-only/cage/condition"] if q else None),
        U.CondGr(C13.CondGr(), L, cases=["d=2/float", "d=3/bool", "d=3/vector"] if q else [c for c in C13.CondGr().cases() if "badtype" not in c]),
    ]
    return units


UNITS = [GrTranslation(1), GrTranslation(2), GrTranslation(3), GrSpeciesSwap(), WriterTranslation("cutoffneighbors"), WriterTranslation("Nnearests")] \
    + _relational_units() + _DEP


MANIFEST = {
    "text": "Relational execution of the real ASTs on x and on g.x (symbolic T, N, cells, masks, indices; d in {2,3}), results compared at a symbolic "
            "index. TRANSLATION (a vector per frame; one vector where frames are compared): g(r) unary/binary/ternary, cutoffneighbors, Nnearests, "
            "S(q) unary/binary per wave vector (unit-modulus phase: induction over particles, polynomial lemma), boo_2d.lthorder psi_l, boo_3d q_lm and Q_lm, "
            "q8_tetrahedral, S2.particle_s2 (S2 and particle g(r)), gyration_tensor (tensor and descriptors: Σ-linearity of the centre of mass), "
            "divergence_curl, the Hessian handed to eigh (assembly loops of the second run re-verified), Dynamics.relaxation (all six columns), "
            "conditional_gr. LATTICE SHIFTS of single particles along periodic axes, away from half-cell ties: the same list (C02 clause c applied at every "
            "remove_pbc call, rows decomposed as row + integer lattice vector; S(q): 2 pi periodicity; not gyration). AXIS PERMUTATION with cell and mask: g(r), "
            "neighbour writers, S2, divergence and curl, relaxation (unwrapped), conditional_gr. RELABELLING: psi_l, q_lm, Q_lm permute with the ids "
            "(neighbour / weight files relabelled consistently); S(q) under the trusted reindexing rule. SPECIES SWAP: gr.binary swaps gr11/gr22. "
            "Lemmas over the proved contracts: lattice shift, dilation, axis permutation (general cell), selector swap. The units of remove_pbc (C02) and "
            "gr.unary/binary (C03) the lemma route rests on are re-verified in the same run.",
    "note": "floats as reals (A1); rotations of open clusters, relabelling of pair sums / sums over all particles, axis permutation of BOO / tetrahedral / "
            "Hessian / S(q), derived invariants q_l, w_l and dilation of g(r) remain in the bounded relational stand-in (contracts/C07_relational.py, "
            "36 relations, reported under `bounded`, never counted); lattice-shift clauses assume no row at an exact half-cell tie; the Σ-reindexing rule "
            "(S(q) relabelling), angle-addition / periodicity instances and the induction principle are trusted (TRUSTED)",
    "category": "proof",
}
