"""C03 — g(r): every total and partial column equals the normalised pair histogram.

Functions under contract: gr.unary / binary / ternary / quarternary / quinary, gr.getresults (dispatch), gr.__init__
(object invariant), utils.funcs.nidealfac.  Callee contract used: utils.pbc.remove_pbc (C02).

Spec (statement of C03).  For species a <= b (type ids 1..K), bin k of B = maxbin bins of width rdelta on [0, B rdelta]:
  cnt_ab(k)  = sum_s sum_{i<j} [ {type_i, type_j} = {a, b} ] [ |D_s(i,j)| in bin k ]      (unordered pairs, numpy bin convention)
  ordered_ab = 2 cnt_ab (a = b),  cnt_ab (a != b)   [number of ordered a-b pairs (i != j), a first]
  g_ab(k)    = V / (N_a N_b) * ordered_ab(k) / (T * shell_k),   shell_k = nidealfac(d) * pi * (e_{k+1}^d - e_k^d),  e_k = k rdelta
  total:       all pairs, N_a = N_b = N;   r_k = e_{k+1} - rdelta/2 (bin centre).
Each column obligation is split into
  count:          the Σ-term accumulated by the real loops (frame loop, particle loop, histogram) equals cnt_ab(k)
                  — SMT with Σ-extensionality; the selector mask of the code is compared with {type_i,type_j} = {a,b}
                  under "type ids are exactly 1..K" at every pair;
  normalisation:  the returned column is g_ab(k) as a rational function of that count (ring normal form).
"""
import z3

from contracts.common import PBC, Traj, min_image
from pyvc import arr as A
from pyvc import sigma, sv
from pyvc.sigma import Sum
from pyvc.vc import Unit

MOD = "PyMatterSim.static.gr"
METHODS = {1: "unary", 2: "binary", 3: "ternary", 4: "quarternary", 5: "quinary"}

NOT_DECIDED = [
    "bin membership of distances within one ulp of a bin edge (A1: floats are reals)",
    "np.unique's sorted-distinct/count contract is assumed (gr.__init__)",
]
TRUSTED = [
    "assumed contract of np.histogram(a, bins=B, range=(lo,hi)): equal-width bins, last bin closed (pyvc/lib.py np_histogram)",
    "assumed pandas contracts: DataFrame(0, index=range(n), columns=...), column get/set, `df[c] += v`, to_csv = write event (pyvc/pandas_model.py)",
    "callee contract of remove_pbc (proved in C02)",
    "Σ-extensionality and unfold axioms of pyvc/axioms.py; facts about the type array (1 <= type <= K) are instantiated per application",
]


def outer_sigmas(t):
    """outermost Σ-applications of a z3 term"""
    out, seen = [], set()

    def walk(e):
        if e.get_id() in seen:
            return
        seen.add(e.get_id())
        if sigma.sigma_def_of(e) is not None:
            out.append(e)
            return
        for c in e.children():
            walk(c)
    walk(t)
    return out


def nidealfac_spec(d):
    return sv.to_frac(4.0) / 3 if d == 3 else sv.to_frac(1.0)


def _setup_self(ctx, d, K, outputfile):
    tr = Traj(ctx, d)
    T, N = tr.T, tr.N
    ctx.assume(N >= 2)
    # "type ids are exactly 1..K": every particle type lies in 1..K (instantiated for every application of TYPE)
    ctx.array_fact("TYPE", lambda s, i: z3.And(tr.TYPE(s, i) >= 1, tr.TYPE(s, i) <= K))
    ctx.array_fact("TYPE", lambda s, i: z3.And(tr.TYPE(s, i) >= 1, tr.TYPE(s, i) <= K))
    V = ctx.real("V")
    rd = ctx.real("rdelta")
    B = ctx.int("maxbin")
    ctx.assume(V > 0)
    ctx.assume(rd > 0)
    ctx.assume(B >= 1)
    Na = [ctx.int(f"N_{a+1}") for a in range(K)]
    for x in Na:
        ctx.assume(x >= 1)
    ctx.assume(sv.cmp("==", _sum(Na), N))      # object invariant established (and asserted) by gr.__init__
    p = [ctx.int(f"ppp_{k}") for k in range(d)]
    for k in range(d):
        ctx.assume(sv.or_(sv.cmp("==", p[k], 0), sv.cmp("==", p[k], 1)))
    ppp = A.from_nested(p, "int")
    # cells are invertible in every frame (precondition of remove_pbc)
    from contracts.C02 import _inv_spec
    s_any = ctx.int("s_any")
    ctx.array_fact("HM", lambda s, a, b: sv.zb(sv.cmp("!=", _inv_spec(tr.Hm(sv.SV(s)), d)[0], 0)))
    snaps = tr.snapshots()
    typecount = A.from_nested(Na, "int")
    rhotype = A.from_nested([sv.div(x, V) for x in Na], "float")
    typenumber = A.from_nested(list(range(1, K + 1)), "int")
    attrs = dict(snapshots=snaps, ppp=ppp, rdelta=rd, outputfile=outputfile, nsnapshots=T, ndim=d, nparticle=N, boxvolume=V,
                 typenumber=typenumber, typecount=typecount, nidealfac=nidealfac_spec(d), rhototal=sv.div(N, V), rhotype=rhotype, maxbin=B)
    o = ctx.obj(MOD, "gr", attrs)
    return o, dict(tr=tr, T=T, N=N, V=V, rd=rd, B=B, Na=Na, p=p, d=d, K=K)


def sel(a, b, ti, tj):
    """{ti, tj} = {a, b}"""
    if a == b:
        return sv.and_(sv.cmp("==", ti, a), sv.cmp("==", tj, a))
    return sv.or_(sv.and_(sv.cmp("==", ti, a), sv.cmp("==", tj, b)), sv.and_(sv.cmp("==", ti, b), sv.cmp("==", tj, a)))


def cnt_spec(inp, ab, k):
    """sum_s sum_{i < N-1} sum_{j' = i+1 .. N-1} [sel] [inbin_k |D_s(i,j')|]   (every unordered pair once)"""
    tr, T, N, rd, B, p, d = inp["tr"], inp["T"], inp["N"], inp["rd"], inp["B"], inp["p"], inp["d"]
    hi = sv.mul(B, rd)
    width = sv.div(sv.sub(hi, 0), B)

    def edge(q):
        return sv.add(0, sv.mul(q, width))

    def inbin(x):
        return sv.or_(sv.and_(sv.cmp("<=", edge(k), x), sv.cmp("<", x, edge(sv.add(k, 1)))),
                      sv.and_(sv.cmp("==", k, sv.sub(B, 1)), sv.cmp("==", x, hi)))

    def dist(s, i, j):
        D = min_image(tr, s, i, j, p)
        return sv.sqrt(_sum([sv.mul(x, x) for x in D]))

    def inner(s, i):
        def body(jj):
            j = A.simp(sv.add(sv.add(i, 1), jj))
            c = inbin(dist(s, i, j))
            if ab is not None:
                c = sv.and_(sel(ab[0], ab[1], tr.typ(s, j), tr.typ(s, i)), c)
            return sv.ite(c, 1, 0)
        return Sum(0, A.simp(sv.sub(sv.sub(N, 1), i)), body)
    return Sum(0, T, lambda s: Sum(0, A.simp(sv.sub(N, 1)), lambda i: inner(s, i)))


def _sum(xs):
    acc = 0
    for x in xs:
        acc = sv.add(acc, x)
    return acc


def g_spec(inp, ab, cnt, k):
    d, V, T, rd = inp["d"], inp["V"], inp["T"], inp["rd"]
    e0, e1 = sv.mul(k, rd), sv.mul(sv.add(k, 1), rd)
    shell = sv.mul(sv.mul(nidealfac_spec(d), sv.PI), sv.sub(sv.power(e1, d), sv.power(e0, d)))
    if ab is None:
        na = nb = inp["N"]
        ordered = sv.mul(2, cnt)
    else:
        na, nb = inp["Na"][ab[0] - 1], inp["Na"][ab[1] - 1]
        ordered = sv.mul(2, cnt) if ab[0] == ab[1] else cnt
    return sv.div(sv.mul(sv.div(V, sv.mul(na, nb)), ordered), sv.mul(T, shell))


def columns(K):
    cols = [("gr", None)]
    if K >= 2:
        cols += [(f"gr{a}{a}", (a, a)) for a in range(1, K + 1)]
        cols += [(f"gr{a}{b}", (a, b)) for a in range(1, K + 1) for b in range(a + 1, K + 1)]
    return cols


class Method(Unit):
    module = MOD
    prop = "C03"
    summaries = PBC
    timeout = 30
    solver_opts = {"rounds": 4}

    def __init__(self, K):
        self.K = K
        self.qualname = f"gr.{METHODS[K]}"

    def cases(self):
        # unary() also serves systems of more than five species (dispatch): species count 6 stands for "> 5"
        sp = ("/species=1", "/species=6") if self.K == 1 else ("",)
        return [f"d={d}/{o}{x}" for d in (2, 3) for o in ("nofile", "file") for x in sp]

    def setup(self, ctx, case):
        d = int(case[2])
        of = "out.csv" if "/file" in case else None
        nspecies = 6 if case.endswith("species=6") else self.K
        o, inp = _setup_self(ctx, d, nspecies, of)
        inp["outputfile"] = of
        inp["k"] = ctx.int("k")
        return [o], {}, inp

    def clause_names(self, case):
        names = ["columns", "r=bin-centre", "file=returned"]
        for name, ab in columns(self.K):
            names += [f"{name}:count", f"{name}:normalisation"]
        return names

    def ensures(self, ctx, case, inp, out):
        from pyvc.pandas_model import df_content
        from pyvc.interp import Ref
        res = out.value
        K, k, B = self.K, inp["k"], inp["B"]
        cols = columns(K)
        want_order = ["r"] + [c for c, _ in cols]
        ok = isinstance(res, Ref) and res.kind == "df" and df_content(res)["order"] == want_order and A.dim_eq_syntactic(df_content(res)["n"], B)
        yield "columns", bool(ok)
        if not ok:
            return
        c = df_content(res)["cols"]
        inr = sv.and_(sv.cmp(">=", k, 0), sv.cmp("<", k, B))
        rk = c["r"].get((k,))
        yield "r=bin-centre", sv.implies(inr, sv.cmp("==", rk, sv.sub(sv.mul(sv.add(k, 1), inp["rd"]), sv.div(inp["rd"], 2)))), {"ring_only": True}
        for name, ab in cols:
            v = c[name].get((k,))
            sig = outer_sigmas(sv.zr(v))
            if len(sig) != 1:
                yield f"{name}:count", False
                yield f"{name}:normalisation", False
                continue
            raw = sv.SV(sig[0])
            want = cnt_spec(inp, ab, k)
            yield f"{name}:count", sv.implies(inr, sv.cmp("==", raw, want))
            # the column as a function of the accumulated count (generalised: any count value)
            gn, _ = sv.generalize(sv.implies(inr, sv.cmp("==", v, g_spec(inp, ab, raw, k))), [raw], "count")
            # rewrite with the assumed invariant N = sum_a N_a (so that e.g. N_1 = N is available to the normaliser for K = 1)
            gn = z3.substitute(gn, (inp["N"].t, sv.znum(_sum(inp["Na"]))))
            yield f"{name}:normalisation", gn, {"ring_only": True}
        # file: the frame handed to to_csv is the returned frame (same column values), when an output file is given
        writes = [e for e in out.state.trace if e[0] == "to_csv"]
        if inp["outputfile"] is None:
            yield "file=returned", len(writes) == 0
        else:
            good = len(writes) == 1 and writes[0][1] == inp["outputfile"] and writes[0][3] == want_order
            if good:
                eqs = [sv.cmp("==", writes[0][2][nm].get((k,)), c[nm].get((k,))) for nm in want_order]
                yield "file=returned", sv.implies(inr, sv.and_(*eqs)), {"ring_only": True}
            else:
                yield "file=returned", False

    def replay(self, case, clause, model, seed):
        return _replay_gr(self.K, int(case[2]), clause, model, seed, nspecies=6 if case.endswith("species=6") else self.K)


def _replay_gr(K, d, clause, model, seed, nspecies=None, via_getresults=False):
    """real gr(...).getresults()/method on seeded configurations (K species, d dims, orthogonal and triclinic cells) against a
    brute-force ordered-pair histogram"""
    import importlib
    import itertools
    import random

    import numpy as np
    G = importlib.import_module(MOD)
    RUm = importlib.import_module("PyMatterSim.reader.reader_utils")
    rng = np.random.default_rng(seed + 17 * K + d)
    tried = 0
    for trial in range(6):
        nspecies = nspecies or K
        N = int(rng.integers(max(2, nspecies + 1), 16))
        T = int(rng.integers(1, 3))
        L = rng.uniform(3.0, 6.0, size=d)
        H = np.diag(L)
        if trial % 2 == 1:
            H[1, 0] = rng.uniform(-0.4, 0.4) * L[0]
            if d == 3:
                H[2, 0] = rng.uniform(-0.3, 0.3) * L[0]
                H[2, 1] = rng.uniform(-0.3, 0.3) * L[1]
        types = np.array([1 + (i % nspecies) for i in range(N)])
        rng.shuffle(types)
        ppp = np.array([int(rng.integers(0, 2)) for _ in range(d)]) if trial >= 2 else np.ones(d, dtype=int)
        rdelta = float(rng.choice([0.25, 0.4, 0.5]))
        if trial == 3 or trial == 5:
            T = max(T, 2)
        snaps, Hs = [], []
        for s in range(T):
            Hf = H.copy()
            if trial in (3, 5) and s > 0:        # sheared trajectory: the tilt factors change from frame to frame, the box lengths do not
                Hf[1, 0] = rng.uniform(-0.45, 0.45) * L[0]
                if d == 3:
                    Hf[2, 0] = rng.uniform(-0.3, 0.3) * L[0]
                    Hf[2, 1] = rng.uniform(-0.3, 0.3) * L[1]
            Hs.append(Hf)
            frac = rng.uniform(0, 1, size=(N, d))
            pos = frac @ Hf
            snaps.append(RUm.SingleSnapshot(timestep=s, nparticle=N, particle_type=types.copy(), positions=pos, boxlength=L.copy(),
                                            boxbounds=np.column_stack([np.zeros(d), L]), realbounds=np.column_stack([np.zeros(d), L]), hmatrix=Hf.copy()))
        S = RUm.Snapshots(nsnapshots=T, snapshots=snaps)
        try:
            obj = G.gr(S, ppp=ppp, rdelta=rdelta)
            res = obj.getresults() if via_getresults else getattr(obj, METHODS[K])()
        except Exception as e:
            return {"ran": True, "failed": True, "detail": f"raises {type(e).__name__}: {e}", "inputs": {"N": N, "T": T, "K": K, "d": d}}
        tried += 1
        B = int(L.min() / 2.0 / rdelta)
        V = float(np.prod(L))
        edges = np.arange(B + 1) * rdelta
        fac = 4.0 / 3 if d == 3 else 1.0
        shell = fac * np.pi * (edges[1:] ** d - edges[:-1] ** d)
        want_cols = ["r"] + [c for c, _ in columns(K)]
        if list(res.columns) != want_cols or len(res) != B:
            return {"ran": True, "failed": True, "detail": f"columns {list(res.columns)} / {len(res)} rows, expected {want_cols} / {B}"}
        for name, ab in columns(K):
            cnt = np.zeros(B)
            for s in range(T):
                pos = snaps[s].positions
                Hf, Hinv = Hs[s], np.linalg.inv(Hs[s])       # the cell of THIS frame
                for i in range(N):
                    for j in range(N):
                        if i == j:
                            continue
                        if ab is not None and not (types[i] == ab[0] and types[j] == ab[1]):
                            continue
                        m = (pos[j] - pos[i]) @ Hinv
                        m = m - np.rint(m) * ppp
                        r = np.linalg.norm(m @ Hf)
                        if r > B * rdelta:
                            continue
                        b = min(int(r / rdelta), B - 1) if r < B * rdelta else B - 1
                        # guard against edge rounding: skip samples within 1e-9 of an edge
                        if abs(r / rdelta - round(r / rdelta)) < 1e-9:
                            continue
                        cnt[b] += 1
            na = N if ab is None else int((types == ab[0]).sum())
            nb = N if ab is None else int((types == ab[1]).sum())
            want = V / (na * nb) * cnt / (T * shell)
            got = res[name].values
            if not np.allclose(got, want, rtol=1e-9, atol=1e-12):
                kbad = int(np.argmax(np.abs(got - want)))
                return {"ran": True, "failed": True, "searched": tried,
                        "inputs": {"K": K, "d": d, "N": N, "T": T, "types": types.tolist(), "hmatrix_per_frame": [h.tolist() for h in Hs], "ppp": ppp.tolist(), "rdelta": rdelta,
                                   "positions": [sn.positions.tolist() for sn in snaps]},
                        "detail": f"column {name}, bin {kbad}: got {got[kbad]!r}, expected {want[kbad]!r} (ordered-pair histogram V/(N_a N_b) count/(T shell))"}
        if not np.allclose(res["r"].values, edges[1:] - rdelta / 2, rtol=1e-12):
            return {"ran": True, "failed": True, "detail": "r column is not the bin centre"}
    return {"ran": True, "failed": False, "searched": tried}


class Dispatch(Unit):
    """gr.getresults: a system of K distinct types is handled by the K-species method for K = 1..5 and by unary() (total only)
    for more than five species (callee contracts: each method is replaced by a marker of its name)"""
    module = MOD
    qualname = "gr.getresults"
    prop = "C03"
    summaries = {f"{MOD}.gr.{m}": (lambda interp, args, kwargs, m=m: "CALLED:" + m) for m in METHODS.values()}

    def cases(self):
        return [f"K={K}" for K in (1, 2, 3, 4, 5, 6, 9)]

    def setup(self, ctx, case):
        K = int(case[2:])
        o = ctx.obj(MOD, "gr", dict(typenumber=A.from_nested(list(range(1, K + 1)), "int")))
        return [o], {}, {"K": K}

    def clause_names(self, case):
        return ["dispatch-on-number-of-species"]

    def ensures(self, ctx, case, inp, out):
        K = inp["K"]
        yield "dispatch-on-number-of-species", out.value == "CALLED:" + METHODS[K if K <= 5 else 1]

    def replay(self, case, clause, model, seed):
        K = int(case[2:])
        return _replay_gr(K if K <= 5 else 1, 3, clause, model, seed, nspecies=K, via_getresults=True)


class NIdealFac(Unit):
    """utils.funcs.nidealfac(ndim): 4/3 for three dimensions (shell volume 4/3 pi (r_hi^3 - r_lo^3)), 1 for two (area pi (r_hi^2 - r_lo^2)),
    ValueError otherwise"""
    module = "PyMatterSim.utils.funcs"
    qualname = "nidealfac"
    prop = "C03"

    def cases(self):
        return ["ndim=2", "ndim=3", "ndim=other"]

    def setup(self, ctx, case):
        if case == "ndim=other":
            n = ctx.int("ndim")
            ctx.assume(sv.and_(sv.cmp("!=", n, 2), sv.cmp("!=", n, 3)))
        else:
            n = int(case[-1])
        return [n], {}, {"n": n}

    def clause_names(self, case):
        return [] if case == "ndim=other" else ["value"]

    def ensures(self, ctx, case, inp, out):
        if case == "ndim=other":
            yield "raises-ValueError", False       # a returning path violates the contract
        else:
            yield "value", sv.cmp("==", out.value, nidealfac_spec(inp["n"]))

    def raises(self, ctx, case, inp, out):
        return case == "ndim=other" and out.exc == "ValueError"

    def may_only_raise(self, case):
        return case == "ndim=other"

    def replay(self, case, clause, model, seed):
        import importlib
        F = importlib.import_module("PyMatterSim.utils.funcs")
        try:
            if case == "ndim=other":
                for n in (1, 4, 0):
                    try:
                        F.nidealfac(n)
                        return {"ran": True, "failed": True, "detail": f"nidealfac({n}) does not raise"}
                    except ValueError:
                        pass
                return {"ran": True, "failed": False}
            n = int(case[-1])
            got = F.nidealfac(n)
            want = 4.0 / 3 if n == 3 else 1.0
            return {"ran": True, "failed": abs(got - want) > 1e-15, "detail": f"nidealfac({n}) = {got}, expected {want}"}
        except Exception as e:
            return {"ran": True, "failed": True, "detail": f"raises {type(e).__name__}: {e}"}


def lemmas():
    """lemmas on the spec: every pair of types lands in exactly one partial column; the total is the composition-weighted sum"""
    out = []
    ti, tj = sv.integer("ti"), sv.integer("tj")
    for K in (2, 3, 4, 5):
        pairs = [(a, b) for a in range(1, K + 1) for b in range(a, K + 1)]
        n_true = _sum([sv.ite(sel(a, b, ti, tj), 1, 0) for a, b in pairs])
        rng = sv.and_(ti >= 1, ti <= K, tj >= 1, tj <= K)
        out.append((f"lemma:K={K}:every-type-pair-lands-in-exactly-one-partial-column", sv.implies(rng, sv.cmp("==", n_true, 1))))
        # g_total = sum_{a,b} c_a c_b g_ab, given cnt_total = sum_{a<=b} cnt_ab (pointwise partition above + linearity of Σ).
        # Stated without divisions: Y_ab := g_ab N_a N_b and Y_t := g_total N^2 are defined by  Y_ab W = V ordered_ab,
        # Y_t W = 2 V cnt_total  (W = T shell_k != 0);  claim  Y_t = sum_{a,b} Y_ab,  i.e.  g_total = sum_{a,b} (N_a N_b / N^2) g_ab.
        V, W = sv.real("V"), sv.real("W")
        cnt = {ab: sv.real(f"cnt_{ab[0]}{ab[1]}") for ab in pairs}
        Y = {ab: sv.real(f"Y_{ab[0]}{ab[1]}") for ab in pairs}
        Yt = sv.real("Y_total")
        hyp = [sv.cmp("!=", W, 0), sv.cmp("==", sv.mul(Yt, W), sv.mul(sv.mul(2, V), _sum(list(cnt.values()))))]
        for ab in pairs:
            hyp.append(sv.cmp("==", sv.mul(Y[ab], W), sv.mul(V, sv.mul(2, cnt[ab]) if ab[0] == ab[1] else cnt[ab])))
        comp = _sum([Y[(min(a, b), max(a, b))] for a in range(1, K + 1) for b in range(1, K + 1)])
        out.append((f"lemma:K={K}:total=sum_ab-c_a-c_b-g_ab", sv.implies(sv.and_(*hyp), sv.cmp("==", Yt, comp))))
    return out


import contracts.C02 as _C02   # noqa: E402  the minimum-image contract every column relies on is re-verified with this property

UNITS = [Method(K) for K in (1, 2, 3, 4, 5)] + [Dispatch(), NIdealFac()] + list(_C02.UNITS)


def extra_checks(tier, seed, repo):
    from pyvc.vc import prove_lemmas
    return {"obligations": prove_lemmas("C03", _C02.lemmas() + lemmas())}



MANIFEST = {
    "text": "gr.unary/binary/ternary/quarternary/quinary (real ASTs, re-read every run; symbolic frame number T, particle number N >= 2, "
            "bin count and bin index, cell matrices, masks; d in {2,3}; with and without output file): every returned column at an arbitrary "
            "bin k equals V/(N_a N_b) * (ordered a-b pair count in bin k, summed over frames) / (T * shell_k): (count) the Sigma-term "
            "accumulated by the real frame/particle loops and np.histogram equals the sum over every unordered pair i<j exactly once of "
            "[{type_i,type_j}={a,b}][|min-image distance| in bin k] — the code's selector masks are compared with the set equality under "
            "type ids in 1..K at every pair (SMT, Sigma-extensionality); (normalisation) the column is the stated rational function of "
            "that count for any count value (ring normal form); r is the bin centre; columns exist exactly for a <= b <= K in the stated "
            "order; the CSV frame equals the returned frame; unary() with six species = total only; getresults dispatches on the number "
            "of species (1..5, >5); nidealfac; lemmas: every type pair lands in exactly one partial column, total = sum c_a c_b g_ab; "
            "the remove_pbc contract (C02) the distances rely on is re-verified in the same run.",
    "note": "floats as reals (A1); assumed contracts: np.histogram (equal-width bins, last bin closed), np.linalg.norm, np.c_, pandas frame "
            "construction / column update / to_csv, remove_pbc callee contract (proved under C02); the object invariant of gr.__init__ "
            "(typecount sums to N, rhotype = N_a/V, maxbin, nidealfac attribute) is taken as the methods' precondition; Sigma linearity is "
            "used in the total lemma as a trusted rule",
}
