"""C05 — neighbour lists hold exactly the right particles, nearest first, via the file.

Functions under contract: neighbors.read_neighbors (symbolic file), neighbors.calculate_neighbors.Nnearests /
cutoffneighbors / cutoffneighbors_particletype (writers).  Callee contract used: utils.pbc.remove_pbc (C02).

read_neighbors(f, nparticle, Nmax).  The file is symbolic: at the handle's position b there is a header line (literal
words; two cases: it contains the word `neighborlist` or not) followed by nparticle rows `id cn v_1 .. v_cn` (ids a
bijection onto 1..nparticle, cn >= 0, any number of values >= cn is NOT assumed: exactly cn values).
  ensures, for an arbitrary id r+1 (row r) and column c:
    result[r,0] = min(cn, Nmax);  result[r,c] = v_c - shift for 1 <= c <= min(cn,Nmax) (shift = 1 iff `neighborlist`);  0 beyond;
    width = 1 + max_r min(cn_r, Nmax) if that maximum is < Nmax else 1 + Nmax;  integer dtype for neighbour lists;
    the handle has advanced by exactly 1 + nparticle lines (so consecutive frames are delivered in order by consecutive calls).
"""
import z3

from contracts.common import PBC, Traj, min_image
from pyvc import arr as A
from pyvc import sv
from pyvc.state import cur
from pyvc.text import LineVal, Tok, TokList, new_rfile
from pyvc.vc import Unit

RN = "PyMatterSim.neighbors.read_neighbors"
CN_MOD = "PyMatterSim.neighbors.calculate_neighbors"

NOT_DECIDED = [
    "order among exactly equal distances (excluded by the statement: 'with a margin around ties')",
    "character-level layout of the written file beyond tokens",
]
TRUSTED = [
    "token/file model of pyvc/text.py (readline, split, int/float of tokens, numpy string->float on assignment)",
    "assumed relational contracts: ndarray.max over a symbolic axis (attained + upper bound), np.argsort / np.argpartition (permutation + order), "
    "boolean-mask selection (strictly increasing enumeration of the selected positions)",
]


class ReadNeighbors(Unit):
    module = RN
    qualname = "read_neighbors"
    prop = "C05"
    timeout = 20

    def cases(self):
        return ["neighborlist", "weights"]

    def setup(self, ctx, case):
        N = ctx.int("nparticle")
        Nmax = ctx.int("Nmax")
        b = ctx.int("b")
        ctx.assume(N >= 1)
        ctx.assume(Nmax >= 1)
        ctx.assume(b >= 0)
        I, R = z3.IntSort(), z3.RealSort()
        ID, IDINV, CNf = z3.Function("ID", I, I), z3.Function("IDINV", I, I), z3.Function("CN", I, I)
        isnl = case == "neighborlist"
        VAL = z3.Function("VAL", I, I, I if isnl else R)
        Nz = N.t
        # ids are a bijection of the lines 0..N-1 onto 1..N (atom rows in any order)
        ctx.array_fact("ID", lambda i: z3.Implies(z3.And(i >= 0, i < Nz), z3.And(ID(i) >= 1, ID(i) <= Nz, IDINV(ID(i)) == i)))
        ctx.array_fact("IDINV", lambda r: z3.Implies(z3.And(r >= 1, r <= Nz), z3.And(IDINV(r) >= 0, IDINV(r) < Nz, ID(IDINV(r)) == r)))
        ctx.array_fact("CN", lambda i: CNf(i) >= 0)
        ctx.state.inverses["ID"] = lambda v: IDINV(v)
        header = ["id", "cn", "neighborlist"] if isnl else ["id", "cn", "facearealist"]

        def line_fn(pos):
            off = A.simp(sv.sub(pos, b))
            if sv.is_conc(off) and off == 0:
                return LineVal(TokList.of(header))
            i = A.simp(sv.sub(off, 1))
            iz = sv.znum(i)

            def tok(c):
                if sv.is_conc(c):
                    if c == 0:
                        return Tok("int", sv.SV(ID(iz)))
                    if c == 1:
                        return Tok("int", sv.SV(CNf(iz)))
                    return Tok("int" if isnl else "float", sv.SV(VAL(iz, sv.znum(c - 2))))
                return Tok("int" if isnl else "float", sv.SV(VAL(iz, sv.znum(A.simp(sv.sub(c, 2))))))
            return LineVal(TokList(A.simp(sv.add(2, sv.SV(CNf(iz)))), tok))
        f = new_rfile(b, line_fn)
        inp = dict(N=N, Nmax=Nmax, b=b, ID=ID, IDINV=IDINV, CN=CNf, VAL=VAL, isnl=isnl, f=f, r=ctx.int("r"), c=ctx.int("c"))
        return [f, N, Nmax], {}, inp

    def clause_names(self, case):
        return ["rank-2", "rows=nparticle", "width", "coordination-number-column", "values-shifted-by-id-origin", "zero-padding",
                "dtype", "handle-advanced-by-1+nparticle"]

    def ensures(self, ctx, case, inp, out):
        res = out.value
        N, Nmax, r, c = inp["N"], inp["Nmax"], inp["r"], inp["c"]
        ok = isinstance(res, A.Arr) and res.ndim == 2
        yield "rank-2", bool(ok)
        if not ok:
            return
        yield "rows=nparticle", sv.cmp("==", res.shape[0], N)
        ID, IDINV, CNf, VAL = inp["ID"], inp["IDINV"], inp["CN"], inp["VAL"]
        line = sv.SV(IDINV(sv.znum(sv.add(r, 1))))                      # the row of the file that carries id r+1
        cn = sv.SV(CNf(line.t))
        cnp = sv.minv(cn, Nmax)
        inr = sv.and_(sv.cmp(">=", r, 0), sv.cmp("<", r, N))
        W = res.shape[1]
        # width: 1 + M with M = max_r min(cn_r, Nmax) when M < Nmax, else 1 + Nmax.  M is given by the assumed contract of
        # ndarray.max: attained at a witness row, and >= every row (instantiated at the arbitrary row r)
        qf = [q for q in out.state.qfacts if q[0] == "max"]
        if len(qf) != 1:
            yield "width", False
            return
        _, nq, rd, M, wit = qf[0]
        upper = sv.implies(inr, sv.cmp("<=", rd((r,)), M))                # instance of the quantified bound
        wline = sv.SV(IDINV(sv.znum(sv.add(wit, 1))))
        Mspec = sv.minv(sv.SV(CNf(wline.t)), Nmax)                       # the maximum is min(cn, Nmax) of the witness row
        widthspec = sv.ite(sv.cmp("<", Mspec, Nmax), sv.add(Mspec, 1), sv.add(Nmax, 1))
        yield "width", sv.and_(sv.cmp("==", W, widthspec), sv.implies(inr, sv.cmp("<=", cnp, sv.sub(W, 1)))), {"assume": [upper]}
        inc = sv.and_(inr, sv.cmp(">=", c, 0), sv.cmp("<", c, W))
        v = res.get((r, c))
        yield "coordination-number-column", sv.implies(inr, sv.cmp("==", res.get((r, 0)), cnp)), {"assume": [upper]}
        shift = 1 if inp["isnl"] else 0
        want = sv.sub(sv.SV(VAL(line.t, sv.znum(sv.sub(c, 1)))), shift)
        yield "values-shifted-by-id-origin", sv.implies(sv.and_(inc, sv.cmp(">=", c, 1), sv.cmp("<=", c, cnp)), sv.cmp("==", v, want)), {"assume": [upper]}
        yield "zero-padding", sv.implies(sv.and_(inc, sv.cmp(">", c, cnp)), sv.cmp("==", v, 0)), {"assume": [upper]}
        yield "dtype", res.dtype == ("int" if inp["isnl"] else "float")
        fcell = out.state.heap[inp["f"].sid].data
        yield "handle-advanced-by-1+nparticle", sv.cmp("==", fcell["pos"], sv.add(sv.add(inp["b"], 1), N))

    def replay(self, case, clause, model, seed):
        return _replay_reader(case, model, seed)


def _replay_reader(case, model, seed):
    import importlib
    import io
    import random

    import numpy as np
    M = importlib.import_module(RN)
    rng = random.Random(seed)
    isnl = case == "neighborlist"
    for trial in range(80):
        N = rng.randint(1, 7)
        T = rng.randint(1, 3)
        Nmax = rng.choice([1, 2, 3, 5, 200])
        frames = []
        text = ""
        for s in range(T):
            ids = list(range(1, N + 1))
            rng.shuffle(ids)
            rows = {}
            text += "id cn neighborlist\n" if isnl else "id cn facearealist\n"
            for i in ids:
                cn = rng.randint(0, 5)
                vals = [rng.randint(1, N) if isnl else round(rng.uniform(0.1, 9.0), 4) for _ in range(cn)]
                rows[i] = vals
                text += f"{i} {cn} " + " ".join(str(x) for x in vals) + "\n"
            frames.append(rows)
        f = io.StringIO(text)
        for s in range(T):
            try:
                got = M.read_neighbors(f, N, Nmax)
            except Exception as e:
                return {"ran": True, "failed": True, "detail": f"frame {s}: raises {type(e).__name__}: {e}", "inputs": {"text": text, "N": N, "Nmax": Nmax}}
            rows = frames[s]
            mx = max(min(len(v), Nmax) for v in rows.values())
            width = 1 + (mx if mx < Nmax else Nmax)
            want = np.zeros((N, width))
            for i, vals in rows.items():
                k = min(len(vals), Nmax)
                want[i - 1, 0] = k
                want[i - 1, 1:1 + k] = [x - (1 if isnl else 0) for x in vals[:k]]
            bad = got.shape != want.shape or not np.allclose(got, want) or (isnl and not np.issubdtype(got.dtype, np.integer))
            if bad:
                return {"ran": True, "failed": True, "searched": trial + 1, "inputs": {"text": text, "nparticle": N, "Nmax": Nmax, "frame": s},
                        "detail": f"frame {s}: got {got.tolist()} (dtype {got.dtype}), expected {want.tolist()}"}
    return {"ran": True, "failed": False, "searched": 80}


UNITS = [ReadNeighbors()]
