"""C05 — neighbour lists hold exactly the right particles, nearest first, via the file.

Functions under contract: neighbors.read_neighbors (symbolic file), neighbors.calculate_neighbors.Nnearests /
cutoffneighbors / cutoffneighbors_particletype (writers).  Callee contract used: utils.pbc.remove_pbc (C02).

read_neighbors(f, nparticle, Nmax).  The file is symbolic: at the handle's position b there is a header line (literal
words; two cases: it contains the word `neighborlist` or not) followed by nparticle rows `id cn v_1 .. v_cn` (ids a
bijection onto 1..nparticle, cn >= 0, any number of values >= cn is NOT assumed: exactly cn values).
  ensures, for an arbitrary id r+1 (row r) and column c:
    result[r,0] = min(cn, Nmax);  result[r,c] = v_c - shift for 1 <= c <= min(cn,Nmax) (shift = 1 iff `neighborlist`);  0 beyond;
    width = 1 + max_r min(cn_r, Nmax) if that maximum is < Nmax else 1 + Nmax;  integer dtype for neighbour lists;
    the handle has advanced by exactly 1 + nparticle lines (so consecutive frames are delivered in order by consecutive calls).
"""
import z3

from contracts.common import PBC_OPAQUE, Traj, min_image_opaque, register_minimg_facts
from pyvc import arr as A
from pyvc import sv
from pyvc.state import cur
from pyvc.text import LineVal, Tok, TokList, new_rfile
from pyvc.vc import Unit

RN = "PyMatterSim.neighbors.read_neighbors"
CN_MOD = "PyMatterSim.neighbors.calculate_neighbors"

NOT_DECIDED = [
    "order among exactly equal distances (excluded by the statement: 'with a margin around ties')",
    "character-level layout of the written file beyond tokens",
]
TRUSTED = [
    "token/file model of pyvc/text.py (readline, split, int/float of tokens, numpy string->float on assignment)",
    "assumed relational contracts: ndarray.max over a symbolic axis (attained + upper bound), np.argsort / np.argpartition (permutation + order), "
    "boolean-mask selection (strictly increasing enumeration of the selected positions)",
]


class ReadNeighbors(Unit):
    module = RN
    qualname = "read_neighbors"
    prop = "C05"
    timeout = 20

    def cases(self):
        return ["neighborlist", "weights"]

    def setup(self, ctx, case):
        N = ctx.int("nparticle")
        Nmax = ctx.int("Nmax")
        b = ctx.int("b")
        ctx.assume(N >= 1)
        ctx.assume(Nmax >= 1)
        ctx.assume(b >= 0)
        I, R = z3.IntSort(), z3.RealSort()
        ID, IDINV, CNf = z3.Function("ID", I, I), z3.Function("IDINV", I, I), z3.Function("CN", I, I)
        isnl = case == "neighborlist"
        VAL = z3.Function("VAL", I, I, I if isnl else R)
        Nz = N.t
        # ids are a bijection of the lines 0..N-1 onto 1..N (atom rows in any order)
        ctx.array_fact("ID", lambda i: z3.Implies(z3.And(i >= 0, i < Nz), z3.And(ID(i) >= 1, ID(i) <= Nz, IDINV(ID(i)) == i)))
        ctx.array_fact("IDINV", lambda r: z3.Implies(z3.And(r >= 1, r <= Nz), z3.And(IDINV(r) >= 0, IDINV(r) < Nz, ID(IDINV(r)) == r)))
        ctx.array_fact("CN", lambda i: CNf(i) >= 0)
        ctx.state.inverses["ID"] = lambda v: IDINV(v)
        header = ["id", "cn", "neighborlist"] if isnl else ["id", "cn", "facearealist"]

        def line_fn(pos):
            off = A.simp(sv.sub(pos, b))
            if sv.is_conc(off) and off == 0:
                return LineVal(TokList.of(header))
            i = A.simp(sv.sub(off, 1))
            iz = sv.znum(i)

            def tok(c):
                if sv.is_conc(c):
                    if c == 0:
                        return Tok("int", sv.SV(ID(iz)))
                    if c == 1:
                        return Tok("int", sv.SV(CNf(iz)))
                    return Tok("int" if isnl else "float", sv.SV(VAL(iz, sv.znum(c - 2))))
                return Tok("int" if isnl else "float", sv.SV(VAL(iz, sv.znum(A.simp(sv.sub(c, 2))))))
            return LineVal(TokList(A.simp(sv.add(2, sv.SV(CNf(iz)))), tok))
        f = new_rfile(b, line_fn)
        inp = dict(N=N, Nmax=Nmax, b=b, ID=ID, IDINV=IDINV, CN=CNf, VAL=VAL, isnl=isnl, f=f, r=ctx.int("r"), c=ctx.int("c"))
        return [f, N, Nmax], {}, inp

    def clause_names(self, case):
        return ["rank-2", "rows=nparticle", "width", "coordination-number-column", "values-shifted-by-id-origin", "zero-padding",
                "dtype", "handle-advanced-by-1+nparticle"]

    def ensures(self, ctx, case, inp, out):
        res = out.value
        N, Nmax, r, c = inp["N"], inp["Nmax"], inp["r"], inp["c"]
        ok = isinstance(res, A.Arr) and res.ndim == 2
        yield "rank-2", bool(ok)
        if not ok:
            return
        yield "rows=nparticle", sv.cmp("==", res.shape[0], N)
        ID, IDINV, CNf, VAL = inp["ID"], inp["IDINV"], inp["CN"], inp["VAL"]
        line = sv.SV(IDINV(sv.znum(sv.add(r, 1))))                      # the row of the file that carries id r+1
        cn = sv.SV(CNf(line.t))
        cnp = sv.minv(cn, Nmax)
        inr = sv.and_(sv.cmp(">=", r, 0), sv.cmp("<", r, N))
        W = res.shape[1]
        # width: 1 + M with M = max_r min(cn_r, Nmax) when M < Nmax, else 1 + Nmax.  M is given by the assumed contract of
        # ndarray.max: attained at a witness row, and >= every row (instantiated at the arbitrary row r)
        qf = [q for q in out.state.qfacts if q[0] == "max"]
        if len(qf) != 1:
            yield "width", False
            return
        _, nq, rd, M, wit = qf[0]
        upper = sv.implies(inr, sv.cmp("<=", rd((r,)), M))                # instance of the quantified bound
        wline = sv.SV(IDINV(sv.znum(sv.add(wit, 1))))
        Mspec = sv.minv(sv.SV(CNf(wline.t)), Nmax)                       # the maximum is min(cn, Nmax) of the witness row
        widthspec = sv.ite(sv.cmp("<", Mspec, Nmax), sv.add(Mspec, 1), sv.add(Nmax, 1))
        yield "width", sv.and_(sv.cmp("==", W, widthspec), sv.implies(inr, sv.cmp("<=", cnp, sv.sub(W, 1)))), {"assume": [upper]}
        inc = sv.and_(inr, sv.cmp(">=", c, 0), sv.cmp("<", c, W))
        v = res.get((r, c))
        yield "coordination-number-column", sv.implies(inr, sv.cmp("==", res.get((r, 0)), cnp)), {"assume": [upper]}
        shift = 1 if inp["isnl"] else 0
        want = sv.sub(sv.SV(VAL(line.t, sv.znum(sv.sub(c, 1)))), shift)
        yield "values-shifted-by-id-origin", sv.implies(sv.and_(inc, sv.cmp(">=", c, 1), sv.cmp("<=", c, cnp)), sv.cmp("==", v, want)), {"assume": [upper]}
        yield "zero-padding", sv.implies(sv.and_(inc, sv.cmp(">", c, cnp)), sv.cmp("==", v, 0)), {"assume": [upper]}
        yield "dtype", res.dtype == ("int" if inp["isnl"] else "float")
        fcell = out.state.heap[inp["f"].sid].data
        yield "handle-advanced-by-1+nparticle", sv.cmp("==", fcell["pos"], sv.add(sv.add(inp["b"], 1), N))

    def replay(self, case, clause, model, seed):
        return _replay_reader(case, model, seed)


def _replay_reader(case, model, seed):
    import importlib
    import io
    import random

    import numpy as np
    M = importlib.import_module(RN)
    rng = random.Random(seed)
    isnl = case == "neighborlist"
    for trial in range(80):
        N = rng.randint(1, 7)
        T = rng.randint(1, 3)
        Nmax = rng.choice([1, 2, 3, 5, 200])
        frames = []
        text = ""
        for s in range(T):
            ids = list(range(1, N + 1))
            rng.shuffle(ids)
            rows = {}
            text += "id cn neighborlist\n" if isnl else "id cn facearealist\n"
            for i in ids:
                cn = rng.randint(0, 5)
                vals = [rng.randint(1, N) if isnl else round(rng.uniform(0.1, 9.0), 4) for _ in range(cn)]
                rows[i] = vals
                text += f"{i} {cn} " + " ".join(str(x) for x in vals) + "\n"
            frames.append(rows)
        f = io.StringIO(text)
        for s in range(T):
            try:
                got = M.read_neighbors(f, N, Nmax)
            except Exception as e:
                return {"ran": True, "failed": True, "detail": f"frame {s}: raises {type(e).__name__}: {e}", "inputs": {"text": text, "N": N, "Nmax": Nmax}}
            rows = frames[s]
            mx = max(min(len(v), Nmax) for v in rows.values())
            width = 1 + (mx if mx < Nmax else Nmax)
            want = np.zeros((N, width))
            for i, vals in rows.items():
                k = min(len(vals), Nmax)
                want[i - 1, 0] = k
                want[i - 1, 1:1 + k] = [x - (1 if isnl else 0) for x in vals[:k]]
            bad = got.shape != want.shape or not np.allclose(got, want) or (isnl and not np.issubdtype(got.dtype, np.integer))
            if bad:
                return {"ran": True, "failed": True, "searched": trial + 1, "inputs": {"text": text, "nparticle": N, "Nmax": Nmax, "frame": s},
                        "detail": f"frame {s}: got {got.tolist()} (dtype {got.dtype}), expected {want.tolist()}"}
    return {"ran": True, "failed": False, "searched": 80}


UNITS = [ReadNeighbors()]


# =====================================================================================================
# writers


def _sum(xs):
    acc = 0
    for x in xs:
        acc = sv.add(acc, x)
    return acc


def dist_spec(tr, s, i, j, p):
    D = min_image_opaque(tr, s, i, j, p)
    return sv.sqrt(_sum([sv.mul(x, x) for x in D]))


def _written_file(state):
    cells = [c for c in state.heap.values() if c.kind == "file" and c.data.get("mode") == "w"]
    return cells[0].data if len(cells) == 1 else None


def _subst(v, pairs):
    from pyvc.loops import _subst_val
    return _subst_val(v, pairs)


class _Writer(Unit):
    """common part of the three neighbour writers: symbolic trajectory (T frames, N particles, d in {2,3}), symbolic mask"""
    module = CN_MOD
    prop = "C05"
    summaries = PBC_OPAQUE
    timeout = 20

    def cases(self):
        return ["d=2", "d=3"]

    def base_setup(self, ctx, case):
        d = int(case[2])
        tr = Traj(ctx, d)
        p = [ctx.int(f"ppp_{k}") for k in range(d)]
        for k in range(d):
            ctx.assume(sv.or_(sv.cmp("==", p[k], 0), sv.cmp("==", p[k], 1)))
        ppp = A.from_nested(p, "int")
        from contracts.C02 import _inv_spec
        ctx.array_fact("HM", lambda s, a, b: sv.zb(sv.cmp("!=", _inv_spec(tr.Hm(sv.SV(s)), d)[0], 0)))
        register_minimg_facts(ctx, d)
        return tr, p, ppp

    def frame_particle_items(self, out, s, i):
        """-> (header lines, row line tokens) of the written file at frame s, particle i; None if the structure is not
        [for each frame: header text, for each particle: one row]"""
        from pyvc.text import Block, text_lines
        f = _written_file(out.state)
        if f is None or not f.get("closed"):
            return None
        items = f["items"]
        if len(items) != 1 or not isinstance(items[0], Block):
            return None
        outer = items[0]
        fi = outer.at(s)
        blocks = [x for x in fi if isinstance(x, Block)]
        texts = [x for x in fi if not isinstance(x, Block)]
        if len(blocks) != 1 or fi[-1] is not blocks[0] and False:
            return None
        inner = blocks[0]
        return outer, inner, texts, fi


class CutoffNeighbors(_Writer):
    qualname = "cutoffneighbors"

    def setup(self, ctx, case):
        tr, p, ppp = self.base_setup(ctx, case)
        rc = ctx.real("r_cut")
        ctx.assume(rc >= 0)
        snaps = tr.snapshots()
        inp = dict(tr=tr, p=p, rc=rc, s=ctx.int("s"), i=ctx.int("i"), t=ctx.int("t"), u=ctx.int("u"), j=ctx.int("j"))
        return [snaps, rc, ppp, "nb.dat"], {}, inp

    def clause_names(self, case):
        return ["file-structure:per-frame-header-then-one-row-per-particle", "row:id-and-count-tokens", "row:every-listed-particle-is-within-cutoff-and-not-self",
                "row:every-other-particle-within-cutoff-is-listed", "row:sorted-by-distance", "row:no-duplicates", "row:self-sorts-first(dropped-by-[1:])"]

    def cutoff(self, inp, s, i, j):
        return inp["rc"]

    def ensures(self, ctx, case, inp, out):
        from pyvc.text import Block, Run, Tok, text_lines
        tr, p, s, i, t, u, j = inp["tr"], inp["p"], inp["s"], inp["i"], inp["t"], inp["u"], inp["j"]
        T, N = tr.T, tr.N
        names = self.clause_names(case)
        got = self.frame_particle_items(out, s, i)
        ok = got is not None
        if ok:
            outer, inner, texts, fi = got
            ok = (sv.is_conc(outer.lo) and outer.lo == 0 and A.dim_eq_syntactic(outer.hi, T) and sv.is_conc(inner.lo) and inner.lo == 0
                  and A.dim_eq_syntactic(inner.hi, N) and isinstance(fi[0], type(texts[0])) and fi[-1] is inner)
        if ok:
            hl = text_lines(texts)
            ok = hl == [["id", "cn", "neighborlist"], []]
        if ok:
            row = text_lines(inner.at(i))
            ok = len(row) == 2 and row[1] == [] and len(row[0]) == 3 and isinstance(row[0][0], Tok) and isinstance(row[0][1], Tok) \
                and isinstance(row[0][2], Run) and row[0][0].kind == "int" and row[0][1].kind == "int" and row[0][2].kind == "int" and row[0][2].sep == " "
        yield names[0], bool(ok)
        if not ok:
            return
        idtok, cntok, run = row[0]
        ins = sv.and_(sv.cmp(">=", s, 0), sv.cmp("<", s, T), sv.cmp(">=", i, 0), sv.cmp("<", i, N))
        CN = cntok.value
        # relational facts of this iteration (mask selection, argsort), instantiated with the symbolic frame / particle
        pairs = [(outer.var, sv.znum(s)), (inner.var, sv.znum(i))]
        qs = [q for q in out.state.qfacts if q[0] == "argsort"]
        qsel = [q for q in out.state.qfacts if q[0] == "select-increasing"]
        if not qs or not qsel:
            for nme in names[1:]:
                yield nme, False
            return
        _, m, key, P, PINV = qs[0]
        _, cnt, SEL, RANK = qsel[0]
        key_at = lambda x: _subst(key(x), pairs)
        P_at = lambda x: _subst(P(x), pairs)
        PINV_at = lambda x: _subst(PINV(x), pairs)
        SEL_at = lambda x: _subst(SEL(x), pairs)
        RANK_at = lambda x: _subst(RANK(x), pairs)
        m_at = _subst(m, pairs)
        ident = lambda x: sv.sub(run.fn(x), 1)                 # zero-based particle listed at position x of the row
        dsp = lambda jj: dist_spec(tr, s, i, jj, p)
        rcut = lambda jj: self.cutoff(inp, s, i, jj)

        def nocoinc(jj):     # precondition of the statement: distinct particles do not coincide modulo the lattice (instantiated where used)
            return sv.implies(sv.and_(sv.cmp(">=", jj, 0), sv.cmp("<", jj, N), sv.cmp("!=", jj, i)), sv.cmp(">", dsp(jj), 0))

        def sorted_inst(a, b):   # instance of argsort's order: key(P(a)) <= key(P(b)) for 0 <= a <= b < m
            return sv.implies(sv.and_(sv.cmp("<=", 0, a), sv.cmp("<=", a, b), sv.cmp("<", b, m_at)), sv.cmp("<=", key_at(P_at(a)), key_at(P_at(b))))
        # the centre itself sorts first (distance 0, no coincident particle): the sorted selection starts with i
        head = SEL_at(P_at(0))
        selffirst = sv.implies(ins, sv.cmp("==", head, i))
        yield names[1], sv.implies(ins, sv.and_(sv.cmp("==", idtok.value, sv.add(i, 1)), sv.cmp("==", run.n, CN), sv.cmp(">=", CN, 0))), {"assume": [selffirst]}
        yield "row:self-sorts-first(dropped-by-[1:])", selffirst, {"assume": [sorted_inst(0, PINV_at(RANK_at(i))), nocoinc(head)]}
        int_t = sv.and_(sv.cmp(">=", t, 0), sv.cmp("<", t, CN))
        listed = ident(t)
        yield names[2], sv.implies(sv.and_(ins, int_t), sv.and_(sv.cmp(">=", listed, 0), sv.cmp("<", listed, N), sv.cmp("!=", listed, i),
                                                           sv.cmp("<=", dsp(listed), rcut(listed)))), {"assume": [selffirst]}
        inj = sv.and_(sv.cmp(">=", j, 0), sv.cmp("<", j, N), sv.cmp("!=", j, i), sv.cmp("<=", dsp(j), rcut(j)))
        tw = sv.sub(PINV_at(RANK_at(j)), 1)                    # witness: the position of j in the written row
        yield names[3], sv.implies(sv.and_(ins, inj), sv.and_(sv.cmp(">=", tw, 0), sv.cmp("<", tw, CN), sv.cmp("==", ident(tw), j))), {"assume": [selffirst]}
        int_u = sv.and_(sv.cmp(">=", u, 0), sv.cmp("<", u, CN), sv.cmp("<=", t, u))
        yield names[4], sv.implies(sv.and_(ins, int_t, int_u), sv.cmp("<=", dsp(ident(t)), dsp(ident(u)))), {"assume": [sorted_inst(sv.add(t, 1), sv.add(u, 1))]}
        yield names[5], sv.implies(sv.and_(ins, int_t, int_u, sv.cmp("!=", t, u)), sv.cmp("!=", ident(t), ident(u)))

    def replay(self, case, clause, model, seed):
        return _replay_writer(self.qualname, int(case[2]), seed)


def _replay_writer(fn_name, d, seed):
    import importlib
    import os
    import shutil
    import tempfile

    import numpy as np
    M = importlib.import_module(CN_MOD)
    RUm = importlib.import_module("PyMatterSim.reader.reader_utils")
    RD = importlib.import_module(RN)
    rng = np.random.default_rng(seed + d)
    tmp = tempfile.mkdtemp(prefix="pyvc-replay-")
    try:
        for trial in range(12):
            N = int(rng.integers(3, 12))
            T = int(rng.integers(1, 4))
            K = int(rng.integers(1, 4))
            types = np.array([1 + (q % K) for q in range(N)])
            rng.shuffle(types)
            ppp = np.array([int(rng.integers(0, 2)) for _ in range(d)]) if trial % 3 else np.ones(d, dtype=int)
            snaps, Hs = [], []
            for s in range(T):
                L = rng.uniform(3.0, 6.0, size=d)
                H = np.diag(L)
                if trial % 2:
                    H[1, 0] = rng.uniform(-0.4, 0.4) * L[0]
                    if d == 3:
                        H[2, 0] = rng.uniform(-0.3, 0.3) * L[0]
                        H[2, 1] = rng.uniform(-0.3, 0.3) * L[1]
                pos = rng.uniform(0, 1, size=(N, d)) @ H
                Hs.append(H)
                snaps.append(RUm.SingleSnapshot(timestep=s, nparticle=N, particle_type=types.copy(), positions=pos, boxlength=L.copy(),
                                                boxbounds=np.column_stack([np.zeros(d), L]), realbounds=None, hmatrix=H))
            S = RUm.Snapshots(nsnapshots=T, snapshots=snaps)
            path = os.path.join(tmp, f"nb{trial}.dat")
            kw = {}
            if fn_name == "Nnearests":
                Nn = int(rng.integers(1, N - 1))
                args = (S, Nn, ppp, path)
            elif fn_name == "cutoffneighbors":
                rc = float(rng.uniform(0.8, 2.5))
                args = (S, rc, ppp, path)
            else:
                rcm = rng.uniform(0.8, 2.5, size=(K, K))      # deliberately not symmetric
                args = (S, rcm, ppp, path)
            try:
                getattr(M, fn_name)(*args)
            except Exception as e:
                return {"ran": True, "failed": True, "detail": f"raises {type(e).__name__}: {e}", "inputs": {"N": N, "T": T, "d": d}}
            with open(path) as f:
                for s in range(T):
                    got = RD.read_neighbors(f, N, 200)
                    pos, H = snaps[s].positions, Hs[s]
                    Hinv = np.linalg.inv(H)
                    for i in range(N):
                        m = (pos - pos[i]) @ Hinv
                        m = m - np.rint(m) * ppp
                        dist = np.linalg.norm(m @ H, axis=1)
                        others = [q for q in range(N) if q != i]
                        if fn_name == "Nnearests":
                            want = sorted(others, key=lambda q: dist[q])[:Nn]
                        elif fn_name == "cutoffneighbors":
                            want = sorted([q for q in others if dist[q] <= rc], key=lambda q: dist[q])
                        else:
                            want = sorted([q for q in others if dist[q] <= rcm[types[i] - 1, types[q] - 1]], key=lambda q: dist[q])
                        cn = int(got[i, 0])
                        lst = [int(x) for x in got[i, 1:1 + cn]]
                        if lst != want:
                            return {"ran": True, "failed": True, "searched": trial + 1,
                                    "inputs": {"function": fn_name, "d": d, "N": N, "T": T, "frame": s, "particle": i, "ppp": ppp.tolist(), "hmatrix": H.tolist(),
                                               "positions": pos.tolist(), "types": types.tolist(), "args": [str(a) for a in args[1:2]]},
                                    "detail": f"frame {s}, particle {i}: file lists {lst}, expected {want} (nearest first, zero-based)"}
        return {"ran": True, "failed": False, "searched": 12}
    finally:
        shutil.rmtree(tmp, ignore_errors=True)


class CutoffNeighborsParticleType(CutoffNeighbors):
    """cutoff chosen by the centre's type (row) and the neighbour's type (column) of the K x K matrix r_cut"""
    qualname = "cutoffneighbors_particletype"

    def cases(self):
        return [f"d={d}/K={K}" for d in (2, 3) for K in (1, 2, 3)]

    def setup(self, ctx, case):
        d, K = int(case[2]), int(case[-1])
        tr = Traj(ctx, d, same_types=True)         # species are a property of the particle: the same in every frame
        self._finish_base(ctx, tr, d)
        p = [ctx.int(f"ppp_{k}") for k in range(d)]
        for k in range(d):
            ctx.assume(sv.or_(sv.cmp("==", p[k], 0), sv.cmp("==", p[k], 1)))
        ppp = A.from_nested(p, "int")
        ctx.array_fact("TYPE", lambda s, i: z3.And(tr.TYPE(s, i) >= 1, tr.TYPE(s, i) <= K))
        rcm = [[ctx.real(f"rc_{a+1}{b+1}") for b in range(K)] for a in range(K)]
        for a in range(K):
            for b in range(K):
                ctx.assume(rcm[a][b] >= 0)
        rc = A.from_nested(rcm, "float")
        snaps = tr.snapshots()
        inp = dict(tr=tr, p=p, rcm=rcm, K=K, s=ctx.int("s"), i=ctx.int("i"), t=ctx.int("t"), u=ctx.int("u"), j=ctx.int("j"))
        return [snaps, rc, ppp, "nb.dat"], {}, inp

    def _finish_base(self, ctx, tr, d):
        from contracts.C02 import _inv_spec
        ctx.array_fact("HM", lambda s, a, b: sv.zb(sv.cmp("!=", _inv_spec(tr.Hm(sv.SV(s)), d)[0], 0)))
        register_minimg_facts(ctx, d)

    def cutoff(self, inp, s, i, j):
        tr, K, rcm = inp["tr"], inp["K"], inp["rcm"]
        ti, tj = tr.typ(s, i), tr.typ(s, j)
        rows = [A._pick([sv.norm(x) for x in rcm[a]], sv.sub(tj, 1)) for a in range(K)]
        return A._pick(rows, sv.sub(ti, 1))

    def raises(self, ctx, case, inp, out):
        # documented input validation: the matrix must have one row per species present in the first frame
        return out.exc == "IOError" and "atom_type_number" in (out.msg or "")


class NNearests(_Writer):
    """Nnearests(snapshots, N, ppp, fnfile): per frame the header line and one row per particle `id N n_1 .. n_N` (np.array2string table):
    the N other particles of smallest minimum-image distance, nearest first.  Requires 1 <= N <= nparticle - 1."""
    qualname = "Nnearests"

    def setup(self, ctx, case):
        tr, p, ppp = self.base_setup(ctx, case)
        Nn = ctx.int("Nn")
        ctx.assume(Nn >= 1)
        ctx.assume(sv.cmp("<=", Nn, sv.sub(tr.N, 1)))
        snaps = tr.snapshots()
        inp = dict(tr=tr, p=p, Nn=Nn, s=ctx.int("s"), i=ctx.int("i"), t=ctx.int("t"), u=ctx.int("u"), j=ctx.int("j"))
        return [snaps, Nn, ppp, "nb.dat"], {}, inp

    def clause_names(self, case):
        return ["file-structure:per-frame-header-then-table-of-nparticle-rows", "row:id-and-count-columns", "row:self-is-among-the-N+1-smallest-and-sorts-first",
                "row:listed-particles-are-others", "row:sorted-by-distance", "row:no-duplicates", "row:no-unlisted-particle-is-closer"]

    def ensures(self, ctx, case, inp, out):
        from pyvc.text import Block, Rows, Text, text_lines
        tr, p, s, i, t, u, j, Nn = inp["tr"], inp["p"], inp["s"], inp["i"], inp["t"], inp["u"], inp["j"], inp["Nn"]
        T, N = tr.T, tr.N
        names = self.clause_names(case)
        f = _written_file(out.state)
        ok = f is not None and f.get("closed") and len(f["items"]) == 1 and isinstance(f["items"][0], Block)
        rows = None
        if ok:
            outer = f["items"][0]
            fi = outer.at(s)
            ok = sv.is_conc(outer.lo) and outer.lo == 0 and A.dim_eq_syntactic(outer.hi, T) and len(fi) == 2 \
                and text_lines([fi[0]]) == [["id", "cn", "neighborlist"], []] and isinstance(fi[1], Text)
        if ok:
            pieces = [x for x in fi[1].pieces if not (isinstance(x, str) and x.strip() == "")]
            ok = len(pieces) == 1 and isinstance(pieces[0], Rows) and all((not isinstance(x, str)) or x.strip() == "" for x in fi[1].pieces) \
                and isinstance(fi[1].pieces[-1], str) and fi[1].pieces[-1].endswith("\n")
        if ok:
            rows = pieces[0]
            ok = A.dim_eq_syntactic(rows.n, N) and A.dim_eq_syntactic(rows.width, sv.add(2, Nn))
        yield names[0], bool(ok)
        if not ok:
            return
        ins = sv.and_(sv.cmp(">=", s, 0), sv.cmp("<", s, T), sv.cmp(">=", i, 0), sv.cmp("<", i, N))
        yield names[1], sv.implies(ins, sv.and_(sv.cmp("==", rows.fn(i, 0), sv.add(i, 1)), sv.cmp("==", rows.fn(i, 1), Nn)))
        # relational facts of the iteration that produced row i: the loop is summarised, so the row content is the closed form
        # of the scatter store with the loop variable replaced by i; the argpartition / argsort applications inside are the lifted
        # functions of that iteration.  We recover them from the qfacts of the discovery run and substitute (frame, particle).
        qa = [q for q in out.state.qfacts if q[0] == "argpartition"]
        qs = [q for q in out.state.qfacts if q[0] == "argsort"]
        if not qa or not qs:
            for nme in names[2:]:
                yield nme, False
            return
        from pyvc.sigma import free_consts
        _, m1, key1, P1, P1INV, kth = qa[0]
        _, m2, key2, P2, P2INV = qs[0]
        # the loop constants of the discovery run: those integer constants of P1(0) that are not symbols of this contract
        mine = {"T", "N", "Nn", "s", "i", "t", "u", "j"} | {f"ppp_{k}" for k in range(tr.d)}
        loopc = [c for c in free_consts(sv.znum(P1(0))) if z3.is_int(c) and c.decl().name() not in mine]
        # order of creation: frame loop variable first, then the particle loop variable
        loopc = sorted(loopc, key=lambda c: int(c.decl().name().split("!")[-1]) if c.decl().name().split("!")[-1].isdigit() else 0)
        if len(loopc) != 2:
            for nme in names[2:]:
                yield nme, False
            return
        pairs = [(loopc[0], sv.znum(s)), (loopc[1], sv.znum(i))]
        k1 = lambda x: _subst(key1(x), pairs)
        Pa = lambda x: _subst(P1(x), pairs)
        PaI = lambda x: _subst(P1INV(x), pairs)
        k2 = lambda x: _subst(key2(x), pairs)
        Pb = lambda x: _subst(P2(x), pairs)
        PbI = lambda x: _subst(P2INV(x), pairs)
        kth_ = _subst(kth, pairs)
        dsp = lambda jj: dist_spec(tr, s, i, jj, p)
        listed = lambda x: sv.sub(rows.fn(i, sv.add(2, x)), 1)           # zero-based particle at position x of row i
        sel = lambda x: Pa(Pb(x))                                         # the sorted selection: position x -> particle

        def nocoinc(jj):
            return sv.implies(sv.and_(sv.cmp(">=", jj, 0), sv.cmp("<", jj, N), sv.cmp("!=", jj, i)), sv.cmp(">", dsp(jj), 0))

        def part_le(a):     # key(P1(a)) <= key(P1(kth)) for 0 <= a <= kth
            return sv.implies(sv.and_(sv.cmp("<=", 0, a), sv.cmp("<=", a, kth_)), sv.cmp("<=", k1(Pa(a)), k1(Pa(kth_))))

        def part_ge(b):     # key(P1(kth)) <= key(P1(b)) for kth <= b < n
            return sv.implies(sv.and_(sv.cmp("<=", kth_, b), sv.cmp("<", b, N)), sv.cmp("<=", k1(Pa(kth_)), k1(Pa(b))))

        def sorted2(a, b):  # key2(P2(a)) <= key2(P2(b)) for 0 <= a <= b <= Nn
            return sv.implies(sv.and_(sv.cmp("<=", 0, a), sv.cmp("<=", a, b), sv.cmp("<=", b, Nn)), sv.cmp("<=", k2(Pb(a)), k2(Pb(b))))
        posi = PaI(i)                                                     # position of the centre in the partition
        in_sel = sv.cmp("<=", posi, Nn)
        selffirst = sv.implies(ins, sv.and_(in_sel, sv.cmp("==", sel(0), i)))
        yield names[2], selffirst, {"assume": [part_le(0), part_le(posi), part_ge(posi), nocoinc(Pa(kth_)), nocoinc(Pa(0)), nocoinc(sel(0)),
                                               sorted2(0, PbI(posi))]}
        int_t = sv.and_(sv.cmp(">=", t, 0), sv.cmp("<", t, Nn))
        int_u = sv.and_(sv.cmp(">=", u, 0), sv.cmp("<", u, Nn), sv.cmp("<=", t, u))
        lt = listed(t)
        yield names[3], sv.implies(sv.and_(ins, int_t), sv.and_(sv.cmp(">=", lt, 0), sv.cmp("<", lt, N), sv.cmp("!=", lt, i),
                                                               sv.cmp("==", lt, sel(sv.add(t, 1))))), {"assume": [selffirst]}
        yield names[4], sv.implies(sv.and_(ins, int_t, int_u), sv.cmp("<=", dsp(listed(t)), dsp(listed(u)))), {"assume": [sorted2(sv.add(t, 1), sv.add(u, 1))]}
        yield names[5], sv.implies(sv.and_(ins, int_t, int_u, sv.cmp("!=", t, u)), sv.cmp("!=", listed(t), listed(u)))
        # every particle j that is neither the centre nor listed is at least as far as every listed one
        pj = PaI(j)                                                       # position of j in the partition
        unl = sv.and_(sv.cmp(">=", j, 0), sv.cmp("<", j, N), sv.cmp("!=", j, i), sv.cmp(">", pj, Nn))     # j outside the first N+1 entries
        yield names[6], sv.implies(sv.and_(ins, int_t, unl), sv.cmp("<=", dsp(listed(t)), dsp(j))), \
            {"assume": [selffirst, part_le(Pb(sv.add(t, 1))), part_ge(pj), part_le(Nn), part_ge(Nn)]}

    def replay(self, case, clause, model, seed):
        return _replay_writer(self.qualname, int(case[2]), seed)


UNITS = [ReadNeighbors(), CutoffNeighbors(), CutoffNeighborsParticleType(), NNearests()]


def lemmas():
    """lemmas over contracts"""
    from contracts.C02 import _inv_spec, pbc_spec_row
    from contracts.common import minimg_row
    out = []
    for d in (2, 3):
        Hm = [[sv.real(f"H_{a}{b}") for b in range(d)] for a in range(d)]
        det, G = _inv_spec(Hm, d)
        p = [sv.integer(f"p_{k}") for k in range(d)]
        zero = pbc_spec_row([0] * d, Hm, G, p, d)
        # the fact used for the opaque minimum image: remove_pbc maps the zero row to the zero row (C02's formula)
        out.append((f"lemma:d={d}:remove_pbc(0)=0", sv.and_(*[sv.cmp("==", z, 0) for z in zero])))
        # symmetry of the global-cutoff relation: |D(i,j)| = |D(j,i)| from the oddness clause (e) of C02
        r = [sv.real(f"r_{c}") for c in range(d)]
        a = minimg_row(r, Hm, p, d)
        b = minimg_row([sv.neg(x) for x in r], Hm, p, d)
        odd = sv.and_(*[sv.cmp("==", b[c], sv.neg(a[c])) for c in range(d)])
        n2a = _sum([sv.mul(x, x) for x in a])
        n2b = _sum([sv.mul(x, x) for x in b])
        out.append((f"lemma:d={d}:|D(i,j)|=|D(j,i)|-hence-the-global-cutoff-relation-is-symmetric", sv.implies(odd, sv.cmp("==", sv.sqrt(n2a), sv.sqrt(n2b)))))
    return out


import contracts.C02 as _C02   # noqa: E402  (the minimum-image contract the distances rely on is re-verified with this property)

UNITS = UNITS + list(_C02.UNITS)


def extra_checks(tier, seed, repo):
    from pyvc.vc import prove_lemmas
    return {"obligations": prove_lemmas("C05", _C02.lemmas() + lemmas())}


MANIFEST = {
    "text": "read_neighbors on a symbolic file (symbolic particle number, Nmax, file position; rows in any id order; neighbour-list and "
            "weight headers): row id-1 = [min(cn,Nmax), v_1-shift .. ] zero padded, shift 1 only for neighbour lists, width 1+max cn or 1+Nmax, "
            "integer dtype for neighbour lists, handle advanced by exactly 1+nparticle lines (consecutive frames from one open handle). "
            "Nnearests / cutoffneighbors / cutoffneighbors_particletype (real ASTs; symbolic frame number, particle number, cells, mask, N, "
            "cutoffs; d in {2,3}; type-pair matrix for K=1..3): the written file is, per frame, the header line and one row per particle in id "
            "order; at an arbitrary frame and particle the row is [i+1, count, ids...] where the listed particles are exactly the other "
            "particles within the (global / type-pair, inclusive) cutoff resp. the N others such that no unlisted particle is closer, "
            "never the particle itself, without duplicates, ordered by non-decreasing minimum-image distance, count = number listed; "
            "lemmas: the global-cutoff relation is symmetric (|D(i,j)| = |D(j,i)| from C02's oddness), remove_pbc(0) = 0; "
            "the remove_pbc contract (C02) is re-verified in the same run. The written rows have the layout the reader's precondition "
            "states (header words, id, count, values), so reading the written file back gives the zero-based lists per id.",
    "note": "floats as reals (A1); token/file model of pyvc/text.py (assumed); relational contracts assumed for boolean-mask selection, "
            "np.argsort, np.argpartition, ndarray.max, np.unique, np.array2string (pyvc/relops.py, pyvc/lib.py); distinct particles do not "
            "coincide modulo the lattice and exact distance ties are excluded as in the statement; species are the same in every frame "
            "for the type-pair variant; the minimum image enters the writer proofs as an uninterpreted function of (row, cell, mask) "
            "with remove_pbc(0)=0 (C02)",
}
