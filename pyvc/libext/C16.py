"""Assumed library contracts added for C16 (coarse graining).

open(path, mode): returns a file handle = heap cell of kind 'file' with the abstract read position `pos`
    (number of records consumed so far by contract-level readers; 0 after open).  Nothing else of the file API is
    modelled here: the only reader applied to the handle in C16 is PyMatterSim.neighbors.read_neighbors, which is
    used through its callee contract (contracts/C16.py: read_neighbors_contract) and advances `pos` by one frame.
"""
from pyvc.interp import LibFunc, Ref
from pyvc.state import Content, cur
from pyvc.sv import EngineError


def _open(interp, path, mode="r", *a, **k):
    from pyvc import text
    try:
        return text.open_file(interp, path, mode)
    except EngineError:
        pass
    if mode not in ("r", "rt"):
        raise EngineError(f"open() with mode {mode!r}")
    return Ref(cur().alloc(Content("file", {"path": path, "mode": mode, "pos": 0})), "file")


def register(lib):
    from pyvc import lib as L
    L.BUILTINS["open"] = LibFunc("open", _open)
