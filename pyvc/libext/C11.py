"""Assumed library contracts needed by C11 (Hessian): np.linalg.eigh."""
import z3

from pyvc import arr as A
from pyvc import axioms, sv
from pyvc.interp import LibFunc
from pyvc.sigma import Sum
from pyvc.state import cur
from pyvc.sv import SV, EngineError


def np_eigh(interp, a, UPLO="L"):
    """ASSUMED contract of np.linalg.eigh(a) for a real symmetric n x n matrix (n may be symbolic): returns (w, V),
    w of shape (n,) ascending, V of shape (n, n), fresh arrays, with  a V[:,k] = w[k] V[:,k]  and  V^T V = I.
    No closed form exists, so the result is a pair of fresh uninterpreted functions w(k), V(b, k) (relational contract).
    The only fact handed to the solver is the normalisation  sum_b V(b,k)^2 = 1  (instantiated for every column k that
    occurs in a query); the eigen-equation and the ordering are part of the assumed meaning of the result but no proof
    under contract uses them.  Requires a square matrix; symmetry of the argument is NOT required by numpy (the lower
    triangle is used) and is proved separately where the property needs it."""
    if not isinstance(a, A.Arr):
        raise EngineError("eigh of a non-array")
    if a.ndim != 2:
        raise EngineError("eigh rank")
    n = a.shape[0]
    A.require_dim_eq(a.shape[0], a.shape[1], "eigh-square")
    wname, vname = sv.fresh_name("eigh_w"), sv.fresh_name("eigh_V")
    w = z3.Function(wname, z3.IntSort(), z3.RealSort())
    V = z3.Function(vname, z3.IntSort(), z3.IntSort(), z3.RealSort())
    evals = A.new_arr((n,), lambda idx: SV(w(sv.znum(idx[0]))), "float")
    evecs = A.new_arr((n, n), lambda idx: SV(V(sv.znum(idx[0]), sv.znum(idx[1]))), "float")
    nz = sv.znum(n)

    def norm_fact(app, V=V, n=n):
        k = SV(app.arg(1))
        s = Sum(0, n, lambda t: sv.mul(SV(V(sv.znum(t), k.t)), SV(V(sv.znum(t), k.t))))
        return [z3.Implies(z3.And(k.t >= 0, k.t < nz), sv.zb(sv.cmp("==", s, 1)))]
    axioms.QFACTS[vname] = norm_fact
    cur().trace.append(("np.linalg.eigh", A.copy(a), evals, evecs, w, V, cur().where))
    return (evals, evecs)


def register(lib):
    lib.np["linalg.eigh"] = LibFunc("np.linalg.eigh", np_eigh)
