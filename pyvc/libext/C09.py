"""Assumed library contracts used by property C09 (3-D bond-orientational order).

* ``np.arctan2(y, x)``: element-wise atan2 (uninterpreted, axioms of pyvc/axioms.py: r cos = x, r sin = y, in (-pi, pi]).
* ``np.concatenate(seq, axis=0)`` of equally shaped 2-D arrays: the rows of the items one after the other.
* ``sympy.physics.wigner.wigner_3j(j1,j2,j3,m1,m2,m3)`` and ``.evalf()``: the value of the 3-j symbol as an
  uninterpreted real function W3J of its six integer arguments (the numbers themselves are trusted, see NOT_DECIDED).
* ``str * n`` for a symbolic integer n and ``+`` of such strings (``RepStr``: literal pieces with repetition counts), and
  ``np.savetxt(path, X, fmt=RepStr)``: numpy's requirement "one % format per column" becomes a side obligation.
* ``int(x)`` of a real scalar that is syntactically a float copy of an integer (ToReal / if-then-else of ToReal): that integer.
* ``open(path, mode, ...)`` (installed per unit by contracts/C09.py, not globally): an opaque handle that counts the frames
  consumed from it; the only thing done with a handle is passing it to ``read_neighbors`` (callee contract) and ``close()``.
"""
import z3

from pyvc import arr as A
from pyvc import sv
from pyvc.interp import LibFunc, new_obj
from pyvc.lib import _arr
from pyvc.sv import EngineError, is_conc, norm

W3J = z3.Function("W3J", *([z3.IntSort()] * 6), z3.RealSort())


def w3j(j1, j2, j3, m1, m2, m3):
    return sv.SV(W3J(*[sv.znum(x) for x in (j1, j2, j3, m1, m2, m3)]))


def _np_arctan2(interp, y, x):
    ys, xs = norm(y), norm(x)
    return A.ew(sv.atan2, ys if sv.is_scalar(ys) else _arr(ys, interp), xs if sv.is_scalar(xs) else _arr(xs, interp), dtype="float")


def _np_concatenate(interp, seq, axis=0):
    """rows of equally shaped (n, c) items stacked: result[(r, c)] = item(r div n)[r mod n, c]"""
    if not (is_conc(axis) and axis == 0):
        raise EngineError("np.concatenate: only axis=0")
    from pyvc.interp import Ref
    data = interp.to_py(seq) if isinstance(seq, Ref) else seq
    if isinstance(data, A.SeqVal):
        q = sv.fresh_int("pos")
        probe = data.fn(q)
        if not isinstance(probe, A.Arr) or probe.ndim != 2:
            raise EngineError("np.concatenate of a symbolic list: 2-D items expected")
        n, c = probe.shape
        for dd in (n, c):
            if not is_conc(dd) and A._mentions_index(dd, q):
                raise EngineError("np.concatenate: item shape depends on the position")

        def fn(idx, data=data, n=n):
            if is_conc(n):
                t = sv.floordiv(idx[0], n)
                r = sv.sub(idx[0], sv.mul(t, n))
                return data.fn(t).get((r, idx[1]))
            # symbolic item length n: a row index written as  t*n + r  with 0 <= r < n  is row r of item t (Euclidean division);
            # the decomposition is read off the index term, the side condition guards the value (otherwise: unconstrained)
            t, r = _split_multiple(idx[0], n)
            ok = sv.and_(sv.cmp(">=", r, 0), sv.cmp("<", r, n))
            val = data.fn(t).get((r, idx[1]))
            # any other row index: item q, row idx - q*n with q the Euclidean quotient of the index by the item length (uninterpreted
            # function EUCLID_QUOT with its characterising axiom 0 <= idx - q*n < n for n > 0, instantiated per application)
            q = _euclid_quot(idx[0], n)
            other = data.fn(q).get((A.simp(sv.sub(idx[0], sv.mul(q, n))), idx[1]))
            return sv.ite(ok, val, other)
        return A.new_arr((sv.mul(data.length, n), c), A._memo(fn), probe.dtype)
    items = [_arr(x, interp) for x in data]
    if not items or any(x.ndim != items[0].ndim for x in items):
        raise EngineError("np.concatenate: ragged")
    if all(is_conc(x.shape[0]) for x in items):
        offs = [0]
        for x in items:
            offs.append(offs[-1] + int(x.shape[0]))
        readers = [x.reader() for x in items]

        def fn2(idx):
            vals = []
            if is_conc(idx[0]):
                for k, x in enumerate(items):
                    if offs[k] <= idx[0] < offs[k + 1]:
                        return readers[k]((idx[0] - offs[k],) + tuple(idx[1:]))
                raise EngineError("np.concatenate: index out of range")
            acc = None
            for k in range(len(items) - 1, -1, -1):
                v = readers[k]((sv.sub(idx[0], offs[k]),) + tuple(idx[1:]))
                acc = v if acc is None else sv.ite(sv.cmp("<", idx[0], offs[k + 1]), v, acc)
            return acc
        return A.new_arr((offs[-1],) + tuple(items[0].shape[1:]), A._memo(fn2), A.promote(*[x.dtype for x in items]))
    raise EngineError("np.concatenate of arrays with symbolic lengths in a concrete list")


EUCLID_QUOT = z3.Function("EUCLID_QUOT", z3.IntSort(), z3.IntSort(), z3.IntSort())


def _euclid_quot(r, n):
    """floor quotient of r by n > 0 as an uninterpreted function; ASSUMED axiom (Euclidean division): 0 <= r - q n < n"""
    from pyvc.state import cur
    st = cur()
    if not any(name == "EUCLID_QUOT" for name, _ in st.array_facts):
        st.array_facts.append(("EUCLID_QUOT", lambda a, b: z3.Implies(b > 0, z3.And(a - EUCLID_QUOT(a, b) * b >= 0, a - EUCLID_QUOT(a, b) * b < b))))
    return sv.SV(EUCLID_QUOT(z3.simplify(sv.znum(r)), z3.simplify(sv.znum(n))))


def _split_multiple(r, n):
    """r = t*n + rest, read syntactically off the simplified term (t = 0 if no addend is a multiple of n)"""
    rz, nz = z3.simplify(sv.znum(r)), z3.simplify(sv.znum(n))
    adds = list(rz.children()) if z3.is_add(rz) else [rz]
    for a in adds:
        co = None
        if a.eq(nz):
            co = z3.IntVal(1)
        elif z3.is_mul(a):
            ch = list(a.children())
            for k, c in enumerate(ch):
                if c.eq(nz):
                    rest = ch[:k] + ch[k + 1:]
                    co = rest[0] if len(rest) == 1 else z3.Product(*rest)
                    break
        if co is not None:
            return sv.wrap(z3.simplify(co)), sv.wrap(z3.simplify(rz - a))
    return 0, sv.wrap(rz)


class RepStr:
    """a string built from literal pieces repeated a (possibly symbolic) number of times: parts = [(literal, count)], e.g.
    "%d " * 2 + "%.6f " * max_neighbors  ->  [("%d %d ", 1), ("%.6f ", max_neighbors)].  Python: s * n is the empty string for n <= 0."""
    __slots__ = ("parts",)

    def __init__(self, parts):
        self.parts = [(s_, n) for s_, n in parts if s_ != ""]

    def count(self, ch):
        """number of occurrences of the single character ch (a character cannot straddle two pieces)"""
        tot = 0
        for s_, n in self.parts:
            c = s_.count(ch)
            if c:
                tot = sv.add(tot, sv.mul(c, sv.maxv(n, 0)))
        return A.simp(tot)

    def __repr__(self):
        return "RepStr(" + " + ".join(f"{s_!r}*{n}" for s_, n in self.parts) + ")"


def _str_binop(prev):
    """ASSUMED: str * n for a symbolic integer n (n copies, none for n <= 0) and concatenation of such strings"""
    def str_binop(interp, op, a, b):
        a_, b_ = (a if isinstance(a, (str, RepStr)) else norm(a)), (b if isinstance(b, (str, RepStr)) else norm(b))
        if op == "*" and isinstance(a_, str) and isinstance(b_, sv.SV) and b_.is_int:
            return RepStr([(a_, b_)])
        if op == "*" and isinstance(b_, str) and isinstance(a_, sv.SV) and a_.is_int:
            return RepStr([(b_, a_)])
        if op == "+" and (isinstance(a_, RepStr) or isinstance(b_, RepStr)) and isinstance(a_, (str, RepStr)) and isinstance(b_, (str, RepStr)):
            pa = a_.parts if isinstance(a_, RepStr) else [(a_, 1)]
            pb = b_.parts if isinstance(b_, RepStr) else [(b_, 1)]
            return RepStr(list(pa) + list(pb))
        return prev(interp, op, a, b)
    return str_binop


def _np_savetxt(prev):
    """np.savetxt(path, X, fmt=<one multi-format string>, ...): numpy requires exactly one % format per column of X
    (ValueError 'fmt has wrong number of % formats' otherwise): side obligation; the write event is the base one"""
    def savetxt(interp, path, a, **k):
        from pyvc.state import cur
        fmt = k.get("fmt")
        if isinstance(fmt, RepStr):
            arr = _arr(a, interp)
            ncol = arr.shape[1] if arr.ndim == 2 else 1
            cur().require(sv.cmp("==", fmt.count("%"), ncol), "np.savetxt:one-%-format-per-column")
        return prev.fn(interp, path, a, **k)
    return savetxt


def _int_valued(t):
    """the integer term x when the real term t is ToReal(x), an integral numeral, or an if-then-else of such terms (else None)"""
    if z3.is_int(t):
        return t
    if z3.is_rational_value(t):
        return z3.IntVal(t.numerator_as_long()) if t.denominator_as_long() == 1 else None
    if z3.is_app(t):
        k = t.decl().kind()
        if k == z3.Z3_OP_TO_REAL:
            return t.arg(0)
        if k == z3.Z3_OP_ITE:
            a, b = _int_valued(t.arg(1)), _int_valued(t.arg(2))
            if a is not None and b is not None:
                return z3.If(t.arg(0), a, b)
    return None


def _b_int(prev):
    """int(x) of a real scalar that is syntactically integer-valued (a float copy of integers, e.g. the coordination-number column
    of a float table): the integer itself (exact: trunc(ToReal(k)) = k); everything else: the base contract (truncation)"""
    def b_int(interp, v=0, *a):
        x = norm(v)
        if isinstance(x, A.Arr) and x.shape == ():
            x = norm(x.get(()))
        if isinstance(x, sv.SV) and x.is_real and not a:
            k = _int_valued(x.t)
            if k is not None:
                return sv.wrap(k)
        return prev.fn(interp, v, *a)
    return b_int


def open_handle(interp, path, mode="r", *a, **k):
    """ASSUMED: open() returns a handle; reading position = number of frames consumed so far (0 after opening)"""
    return new_obj(None, {"path": path, "mode": mode, "frames_read": 0,
                          "close": LibFunc("file.close", lambda interp_, *aa, **kk: None)})


def install_open():
    from pyvc import lib as L
    L.BUILTINS["open"] = LibFunc("open", open_handle)


def register(lib):
    from pyvc import lib as L
    L.BUILTINS["int"] = LibFunc("int", _b_int(L.BUILTINS["int"]))
    lib.str_binop = _str_binop(lib.str_binop)
    lib.np["savetxt"] = LibFunc("np.savetxt", _np_savetxt(lib.np["savetxt"]))
    lib.np["arctan2"] = LibFunc("np.arctan2", _np_arctan2)
    if "concatenate" not in lib.np:
        lib.np["concatenate"] = LibFunc("np.concatenate", _np_concatenate)
    if "ravel" not in lib.np:
        lib.np["ravel"] = LibFunc("np.ravel", lambda interp, a: lib.reshape(interp, _arr(a, interp), [-1]))     # row-major flattening
    lib.extern["sympy.physics.wigner.wigner_3j"] = LibFunc("sympy.wigner_3j", lambda interp, *a: w3j(*a))
