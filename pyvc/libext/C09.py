"""Assumed library contracts used by property C09 (3-D bond-orientational order).

* ``np.arctan2(y, x)``: element-wise atan2 (uninterpreted, axioms of pyvc/axioms.py: r cos = x, r sin = y, in (-pi, pi]).
* ``np.concatenate(seq, axis=0)`` of equally shaped 2-D arrays: the rows of the items one after the other.
* ``sympy.physics.wigner.wigner_3j(j1,j2,j3,m1,m2,m3)`` and ``.evalf()``: the value of the 3-j symbol as an
  uninterpreted real function W3J of its six integer arguments (the numbers themselves are trusted, see NOT_DECIDED).
* ``open(path, mode, ...)`` (installed per unit by contracts/C09.py, not globally): an opaque handle that counts the frames
  consumed from it; the only thing done with a handle is passing it to ``read_neighbors`` (callee contract) and ``close()``.
"""
import z3

from pyvc import arr as A
from pyvc import sv
from pyvc.interp import LibFunc, new_obj
from pyvc.lib import _arr
from pyvc.sv import EngineError, is_conc, norm

W3J = z3.Function("W3J", *([z3.IntSort()] * 6), z3.RealSort())


def w3j(j1, j2, j3, m1, m2, m3):
    return sv.SV(W3J(*[sv.znum(x) for x in (j1, j2, j3, m1, m2, m3)]))


def _np_arctan2(interp, y, x):
    ys, xs = norm(y), norm(x)
    return A.ew(sv.atan2, ys if sv.is_scalar(ys) else _arr(ys, interp), xs if sv.is_scalar(xs) else _arr(xs, interp), dtype="float")


def _np_concatenate(interp, seq, axis=0):
    """rows of equally shaped (n, c) items stacked: result[(r, c)] = item(r div n)[r mod n, c]"""
    if not (is_conc(axis) and axis == 0):
        raise EngineError("np.concatenate: only axis=0")
    from pyvc.interp import Ref
    data = interp.to_py(seq) if isinstance(seq, Ref) else seq
    if isinstance(data, A.SeqVal):
        q = sv.fresh_int("pos")
        probe = data.fn(q)
        if not isinstance(probe, A.Arr) or probe.ndim != 2:
            raise EngineError("np.concatenate of a symbolic list: 2-D items expected")
        n, c = probe.shape
        for dd in (n, c):
            if not is_conc(dd) and A._mentions_index(dd, q):
                raise EngineError("np.concatenate: item shape depends on the position")

        def fn(idx, data=data, n=n):
            if is_conc(n):
                t = sv.floordiv(idx[0], n)
                r = sv.sub(idx[0], sv.mul(t, n))
                return data.fn(t).get((r, idx[1]))
            # symbolic item length n: a row index written as  t*n + r  with 0 <= r < n  is row r of item t (Euclidean division);
            # the decomposition is read off the index term, the side condition guards the value (otherwise: unconstrained)
            t, r = _split_multiple(idx[0], n)
            ok = sv.and_(sv.cmp(">=", r, 0), sv.cmp("<", r, n))
            val = data.fn(t).get((r, idx[1]))
            other = sv.Cx(sv.fresh_real("cc"), sv.fresh_real("cc")) if isinstance(norm(val), sv.Cx) else \
                (sv.fresh_int("cc") if (isinstance(norm(val), sv.SV) and norm(val).is_int) or isinstance(norm(val), int) else sv.fresh_real("cc"))
            return sv.ite(ok, val, other)
        return A.new_arr((sv.mul(data.length, n), c), A._memo(fn), probe.dtype)
    items = [_arr(x, interp) for x in data]
    if not items or any(x.ndim != items[0].ndim for x in items):
        raise EngineError("np.concatenate: ragged")
    if all(is_conc(x.shape[0]) for x in items):
        offs = [0]
        for x in items:
            offs.append(offs[-1] + int(x.shape[0]))
        readers = [x.reader() for x in items]

        def fn2(idx):
            vals = []
            if is_conc(idx[0]):
                for k, x in enumerate(items):
                    if offs[k] <= idx[0] < offs[k + 1]:
                        return readers[k]((idx[0] - offs[k],) + tuple(idx[1:]))
                raise EngineError("np.concatenate: index out of range")
            acc = None
            for k in range(len(items) - 1, -1, -1):
                v = readers[k]((sv.sub(idx[0], offs[k]),) + tuple(idx[1:]))
                acc = v if acc is None else sv.ite(sv.cmp("<", idx[0], offs[k + 1]), v, acc)
            return acc
        return A.new_arr((offs[-1],) + tuple(items[0].shape[1:]), A._memo(fn2), A.promote(*[x.dtype for x in items]))
    raise EngineError("np.concatenate of arrays with symbolic lengths in a concrete list")


def _split_multiple(r, n):
    """r = t*n + rest, read syntactically off the simplified term (t = 0 if no addend is a multiple of n)"""
    rz, nz = z3.simplify(sv.znum(r)), z3.simplify(sv.znum(n))
    adds = list(rz.children()) if z3.is_add(rz) else [rz]
    for a in adds:
        co = None
        if a.eq(nz):
            co = z3.IntVal(1)
        elif z3.is_mul(a):
            ch = list(a.children())
            for k, c in enumerate(ch):
                if c.eq(nz):
                    rest = ch[:k] + ch[k + 1:]
                    co = rest[0] if len(rest) == 1 else z3.Product(*rest)
                    break
        if co is not None:
            return sv.wrap(z3.simplify(co)), sv.wrap(z3.simplify(rz - a))
    return 0, sv.wrap(rz)


def open_handle(interp, path, mode="r", *a, **k):
    """ASSUMED: open() returns a handle; reading position = number of frames consumed so far (0 after opening)"""
    return new_obj(None, {"path": path, "mode": mode, "frames_read": 0,
                          "close": LibFunc("file.close", lambda interp_, *aa, **kk: None)})


def install_open():
    from pyvc import lib as L
    L.BUILTINS["open"] = LibFunc("open", open_handle)


def register(lib):
    lib.np["arctan2"] = LibFunc("np.arctan2", _np_arctan2)
    if "concatenate" not in lib.np:
        lib.np["concatenate"] = LibFunc("np.concatenate", _np_concatenate)
    if "ravel" not in lib.np:
        lib.np["ravel"] = LibFunc("np.ravel", lambda interp, a: lib.reshape(interp, _arr(a, interp), [-1]))     # row-major flattening
    lib.extern["sympy.physics.wigner.wigner_3j"] = LibFunc("sympy.wigner_3j", lambda interp, *a: w3j(*a))
