"""Assumed library contracts added with C19 (installed only when no other module provided them; statements identical to the
ones of pyvc/libext/C01.py where they overlap)."""
from pyvc import arr as A
from pyvc import sv
from pyvc.interp import LibFunc
from pyvc.sv import EngineError


def np_diag(interp, v, k=0):
    """np.diag: 1-D -> diagonal matrix, 2-D -> its diagonal"""
    from pyvc.lib import _arr
    a = _arr(v, interp)
    if k != 0:
        raise EngineError("np.diag with offset")
    r = a.reader()
    if a.ndim == 1:
        n = a.shape[0]
        zero = 0 if a.dtype in ("int", "bool") else sv.to_frac(0.0)
        return A.new_arr((n, n), lambda idx: sv.ite(sv.cmp("==", idx[0], idx[1]), lambda: r((idx[0],)), zero), a.dtype)
    if a.ndim == 2:
        A.require_dim_eq(a.shape[0], a.shape[1], "diag-square")
        return A.new_arr((a.shape[0],), lambda idx: r((idx[0], idx[0])), a.dtype, readonly=True)      # numpy: a read-only view of the diagonal
    raise EngineError("np.diag rank")


def dc_replace(interp, obj, **changes):
    """dataclasses.replace(obj, **changes): a NEW instance of the same dataclass whose fields are those of obj except the given
    ones (TypeError for a name that is not a field); obj itself is not modified"""
    from pyvc.interp import PyRaise, Ref, new_obj
    from pyvc.state import cur
    if not (isinstance(obj, Ref) and obj.kind == "obj" and obj.cls is not None and obj.cls.is_dataclass):
        raise PyRaise("TypeError", "replace() should be called on dataclass instances")
    names = [f[0] for f in obj.cls.fields]
    for k in changes:
        if k not in names:
            raise PyRaise("TypeError", f"__init__() got an unexpected keyword argument {k!r}")
    attrs = dict(obj.content)
    attrs.update(changes)
    return new_obj(obj.cls, attrs, frozen=cur().heap[obj.sid].meta.get("frozen", False), built_by_contract=cur().heap[obj.sid].meta.get("built_by_contract", False))


def pd_read_csv(interp, path, sep=None, skiprows=None, nrows=None, **kw):
    """ASSUMED contract of pandas.read_csv(path, sep=r"\\s+", skiprows=a, nrows=b) on a whitespace separated text without blank
    or comment lines in the range: the column names are the words of line a (zero-based) of the file, the rows are the b lines
    a+1 .. a+b.  The frame is represented by exactly these data: (path, header line a, first row a+1, number of rows b)."""
    from pyvc.interp import new_obj
    from pyvc.lib import _arr
    if kw or sep != r"\s+":
        raise EngineError("pd.read_csv with options other than sep=r'\\s+', skiprows, nrows")

    def scal(v):
        v = sv.norm(v)
        if isinstance(v, A.Arr) and v.shape == ():
            v = v.get(())
        if not sv.is_scalar(v) or v is None:
            raise EngineError("pd.read_csv: skiprows / nrows must be integers")
        return v
    a, b = scal(skiprows), scal(nrows)
    cur_ = __import__("pyvc.state", fromlist=["cur"]).cur()
    cur_.require(sv.and_(sv.cmp(">=", a, 0), sv.cmp(">=", b, 0)), "read_csv-nonnegative-skiprows-nrows")
    return new_obj(None, dict(kind="csv-frame", path=path, header_line=a, first_row=A.simp(sv.add(a, 1)), nrows=b))


def register(lib):
    lib.mods.setdefault("pandas", {}).setdefault("read_csv", LibFunc("pd.read_csv", pd_read_csv))
    lib.np.setdefault("diag", LibFunc("np.diag", np_diag))
    lib.mods.setdefault("dataclasses", {}).setdefault("replace", LibFunc("dataclasses.replace", dc_replace))
