"""Assumed library contracts added with C01: np.diag (1-D -> diagonal matrix, 2-D -> diagonal), np.vstack."""
from pyvc import arr as A
from pyvc import sv
from pyvc.interp import LibFunc
from pyvc.sv import EngineError


def np_diag(interp, v, k=0):
    from pyvc.lib import _arr
    a = _arr(v, interp)
    if k != 0:
        raise EngineError("np.diag with offset")
    r = a.reader()
    if a.ndim == 1:
        n = a.shape[0]
        zero = 0 if a.dtype in ("int", "bool") else sv.to_frac(0.0)
        return A.new_arr((n, n), lambda idx: sv.ite(sv.cmp("==", idx[0], idx[1]), lambda: r((idx[0],)), zero), a.dtype)
    if a.ndim == 2:
        A.require_dim_eq(a.shape[0], a.shape[1], "diag-square")
        return A.new_arr((a.shape[0],), lambda idx: r((idx[0], idx[0])), a.dtype, readonly=True)      # numpy: a read-only view of the diagonal
    raise EngineError("np.diag rank")


def np_vstack(interp, tup):
    from pyvc.lib import _arr
    parts = [_arr(x, interp) for x in interp.iter_concrete(tup)]
    rows = []
    width = None
    for p in parts:
        if p.ndim == 1:
            p2 = (1, p.shape[0], (lambda r: (lambda i, j: r((j,))))(p.reader()))
        elif p.ndim == 2:
            p2 = (p.shape[0], p.shape[1], (lambda r: (lambda i, j: r((i, j))))(p.reader()))
        else:
            raise EngineError("vstack rank")
        if width is None:
            width = p2[1]
        else:
            A.require_dim_eq(width, p2[1], "vstack-width")
        rows.append(p2)
    if not all(sv.is_conc(r[0]) for r in rows):
        raise EngineError("vstack of symbolic-height blocks")
    offs, total = [], 0
    for r in rows:
        offs.append(total)
        total += int(r[0])
    dt = A.promote(*[p.dtype for p in parts])

    def fn(idx):
        i = idx[0]
        if not sv.is_conc(i):
            raise EngineError("symbolic row index into vstack")
        for (h, w, rd), o in zip(rows, offs):
            if o <= i < o + int(h):
                return A._cast(rd(i - o, idx[1]), dt)
        raise EngineError("vstack index")
    return A.new_arr((total, width), fn, dt)


def register(lib):
    lib.np.setdefault("diag", LibFunc("np.diag", np_diag))
    lib.np.setdefault("vstack", LibFunc("np.vstack", np_vstack))
