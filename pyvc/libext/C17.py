"""Assumed library contracts needed by property C17 (local order parameters).  ASSUMED = trusted base.

np.linalg.eig   real symmetric d x d input, d in {2, 3}: the d eigenvalues are real numbers, functions of the matrix
                entries only (uninterpreted EIG<d>_<k>), and are the roots of the characteristic polynomial with
                multiplicity (Vieta relations: elementary symmetric functions = trace, sum of principal 2x2 minors,
                determinant).  No order is promised.  Symmetry of the input is a *precondition* of this contract
                (side obligation `eig-symmetric-input`); eigenvectors are not modelled.
np.sort         1-D input of concrete length <= 3: ascending order statistics (min / middle / max closed forms).
np.log10        log(x) / log(10).
np.trapz / np.trapezoid (y, x) 1-D: sum_k (x[k+1] - x[k]) (y[k+1] + y[k]) / 2.
np.delete       (a, i) / (a, i, axis=0) for an integer i: row i removed, requires 0 <= i < len(a).
ndarray.max/min over a 1-D array of symbolic length: attained at a witness position, bounds the elements (instances at
                both ends).
np.unique      (a, return_counts=True): U distinct values, multiplicities summing to len(a) (relational).
np.argpartition (a, kth) 1-D, concrete kth: requires 0 <= kth < len(a) (numpy raises ValueError otherwise);
                returns a permutation p of range(len(a)) with a[p[t]] <= a[p[kth]] for t < kth and
                a[p[kth]] <= a[p[u]] for u > kth.  Relational contract: p is a fresh uninterpreted function; the
                a[p[kth]] <= a[p[u]] for u > kth.  Relational contract: p is an uninterpreted function of the position and
                of the array (lambda-lifted over the free symbols of the array content); the facts for the positions
                0..kth are assumed at the call, the universally quantified rest ("every index m is one of p[0..kth] or
                has a[m] >= a[p[kth]]") is available to contracts as an instance generator (argpartition_terms).
"""
from __future__ import annotations

import z3

from pyvc import arr as A
from pyvc import sv
from pyvc.interp import LibFunc
from pyvc.lib import _arr
from pyvc.sigma import Sum
from pyvc.state import cur
from pyvc.sv import SV, EngineError, is_conc, norm

R = z3.RealSort()
_EIG = {}


def eig_fn(d, k):
    key = (d, k)
    if key not in _EIG:
        nent = d * (d + 1) // 2
        _EIG[key] = z3.Function(f"EIG{d}_{k}", *([R] * nent), R)
    return _EIG[key]


def eig_values(M, d):
    """the d eigenvalue terms of the symmetric matrix with upper-triangle entries M[i][j], i <= j"""
    ent = [sv.zr(norm(M[i][j])) for i in range(d) for j in range(i, d)]
    return [SV(eig_fn(d, k)(*ent)) for k in range(d)]


def vieta_facts(M, d, lam):
    """the characteristic-polynomial relations for symmetric M (entries read from the upper triangle)"""
    def m(i, j):
        return M[i][j] if i <= j else M[j][i]
    tr = 0
    for i in range(d):
        tr = sv.add(tr, m(i, i))
    facts = []
    if d == 2:
        det = sv.sub(sv.mul(m(0, 0), m(1, 1)), sv.mul(m(0, 1), m(0, 1)))
        facts.append(sv.cmp("==", sv.add(lam[0], lam[1]), tr))
        facts.append(sv.cmp("==", sv.mul(lam[0], lam[1]), det))
    elif d == 3:
        Ms = [[m(i, j) for j in range(3)] for i in range(3)]
        det = A.det_small(Ms, 3)
        e2 = 0
        for i, j in ((0, 1), (0, 2), (1, 2)):
            e2 = sv.add(e2, sv.sub(sv.mul(m(i, i), m(j, j)), sv.mul(m(i, j), m(i, j))))
        facts.append(sv.cmp("==", sv.add(sv.add(lam[0], lam[1]), lam[2]), tr))
        facts.append(sv.cmp("==", sv.add(sv.add(sv.mul(lam[0], lam[1]), sv.mul(lam[0], lam[2])), sv.mul(lam[1], lam[2])), e2))
        facts.append(sv.cmp("==", sv.mul(sv.mul(lam[0], lam[1]), lam[2]), det))
    else:
        raise EngineError("eig dimension")
    return facts


def np_eig(interp, a):
    a = _arr(a, interp)
    if a.ndim != 2:
        raise EngineError("eig rank")
    d = A.conc_dim(a.shape[0], "eig dimension")
    A.require_dim_eq(a.shape[0], a.shape[1])
    if d not in (2, 3):
        raise EngineError("eig dimension")
    M = A.to_list(a)
    for i in range(d):
        for j in range(i + 1, d):
            cur().require(sv.cmp("==", M[i][j], M[j][i]), "eig-symmetric-input")
    lam = eig_values(M, d)
    for f in vieta_facts(M, d, lam):
        cur().assume(f)
    cur().trace.append(("eig", A.copy(a), list(lam), cur().where))
    return (A.from_nested(lam, "float"), "eigenvectors-not-modelled")


def sort_small(vals):
    n = len(vals)
    if n == 1:
        return list(vals)
    if n == 2:
        return [sv.minv(vals[0], vals[1]), sv.maxv(vals[0], vals[1])]
    if n == 3:
        lo = sv.minv(sv.minv(vals[0], vals[1]), vals[2])
        hi = sv.maxv(sv.maxv(vals[0], vals[1]), vals[2])
        mid = sv.sub(sv.sub(sv.add(sv.add(vals[0], vals[1]), vals[2]), lo), hi)
        return [lo, mid, hi]
    raise EngineError("np.sort of more than 3 symbolic values")


def np_sort(interp, a, **kw):
    a = _arr(a, interp)
    if a.ndim != 1 or not A.dim_conc(a.shape[0]):
        raise EngineError("np.sort: only 1-D arrays of concrete length <= 3 are modelled")
    vals = [a.get((k,)) for k in range(a.shape[0])]
    return A.from_nested(sort_small(vals), a.dtype)


def log10(x):
    return sv.div(sv.log(x), sv.log(10))


def np_log10(interp, x):
    x = norm(x)
    if isinstance(x, A.Arr):
        return A.unop(log10, x, dtype="float")
    return log10(x)


def trapz_spec(yr, xr, n):
    """sum_{k=0}^{n-2} (x[k+1]-x[k]) (y[k+1]+y[k]) / 2 for readers yr, xr over an index"""
    def body(k):
        k1 = A.simp(sv.add(k, 1))
        return sv.div(sv.mul(sv.sub(xr(k1), xr(k)), sv.add(yr(k1), yr(k))), 2)
    return Sum(0, A.simp(sv.sub(n, 1)), body)


def np_trapz(interp, y, x=None, dx=1.0, axis=-1):
    y = _arr(y, interp)
    if y.ndim != 1:
        raise EngineError("trapz of nd array")
    n = y.shape[0]
    yr = y.reader()
    if x is None:
        raise EngineError("trapz without sample points")
    x = _arr(x, interp)
    A.require_dim_eq(x.shape[0], n, "trapz-shape")
    xr = x.reader()
    res = trapz_spec(lambda k: yr((k,)), lambda k: xr((k,)), n)
    return sv.to_real(res) if is_conc(res) else res          # an empty sum (one sample point) is the float 0.0


def np_delete(interp, a, obj, axis=None):
    a = _arr(a, interp)
    obj = norm(obj)
    if isinstance(obj, A.Arr) and obj.shape == ():
        obj = obj.get(())
    if not sv.is_scalar(obj):
        raise EngineError("np.delete with an index array")
    if a.ndim > 1 and (axis is None or not (is_conc(axis) and int(axis) == 0)):
        raise EngineError("np.delete: only axis=0 is modelled for nd arrays")
    n = a.shape[0]
    i = obj
    if is_conc(i) and i < 0:
        i = A.simp(sv.add(n, i))
    cur().require(sv.and_(sv.cmp(">=", i, 0), sv.cmp("<", i, n)), "delete-index-in-range")
    r = a.reader()
    shape = (A.simp(sv.sub(n, 1)),) + tuple(a.shape[1:])

    def fn(idx):
        k = idx[0]
        src = sv.ite(sv.cmp("<", k, i), k, A.simp(sv.add(k, 1)))
        return r((src,) + tuple(idx[1:]))
    return A.new_arr(shape, fn, a.dtype)


_AP = {}        # canonical content of the partitioned array -> (function symbol, number of parameters)
CALLS = []      # kth of every np.argpartition call executed in this process (contracts re-instantiate the assumed facts)


def argpartition_terms(reader, n, kth):
    """the assumed contract of np.argpartition(a, kth) instantiated for the 1-D array a[m] = reader(m) of length n:
    the permutation is a function of the array: AP<k>(t, <free symbols of a's content>) (lambda-lifted like the sums)
    -> dict(first=[p(0..kth)], facts=[...about p(0..kth)], others=instance generator for the remaining positions)"""
    from pyvc.sigma import VAR0, _placeholder, free_consts
    m = z3.Int(sv.fresh_name("apm"))
    body = sv.zr(norm(reader(SV(m))))
    body = z3.simplify(body)
    frees = free_consts(body, exclude=[m])
    ph = [_placeholder(c.sort(), i) for i, c in enumerate(frees)]
    canon = z3.substitute(body, (m, VAR0), *zip(frees, ph)) if frees else z3.substitute(body, (m, VAR0))
    key = (canon.sexpr(), tuple(str(p.sort()) for p in ph))
    if key not in _AP:
        _AP[key] = z3.Function(f"AP{len(_AP)}", z3.IntSort(), z3.IntSort(), *[p.sort() for p in ph], z3.IntSort())
    pf = _AP[key]

    def p(t):
        return SV(pf(sv.znum(t), sv.znum(n), *frees))
    r = lambda x: reader(x)
    P = [p(t) for t in range(kth + 1)]
    facts = []
    for t in range(kth + 1):
        facts.append(sv.and_(sv.cmp(">=", P[t], 0), sv.cmp("<", P[t], n)))
        for u in range(t):
            facts.append(sv.cmp("!=", P[t], P[u]))
    pivot = r(P[kth])
    for t in range(kth):
        facts.append(sv.cmp("<=", r(P[t]), pivot))

    def others(x):
        """instance at index x of: forall x in [0,n): x in {p[0..kth]} or a[x] >= a[p[kth]]"""
        inr = sv.and_(sv.cmp(">=", x, 0), sv.cmp("<", x, n))
        return sv.implies(inr, sv.or_(*([sv.cmp("==", x, y) for y in P] + [sv.cmp(">=", r(x), pivot)])))
    return dict(first=P, facts=facts, others=others, p=p)


def np_argpartition(interp, a, kth, **kw):
    a = _arr(a, interp)
    if a.ndim != 1:
        raise EngineError("argpartition of nd array")
    kth = norm(kth)
    if not is_conc(kth):
        raise EngineError("argpartition with symbolic kth")
    kth = int(kth)
    n = a.shape[0]
    if kth < 0:
        raise EngineError("argpartition with negative kth")
    # numpy: ValueError "kth(=k) out of bounds (n)" unless kth < n
    cur().require(sv.cmp("<", kth, n), "argpartition-kth-in-range")
    rd = a.reader()
    ap = argpartition_terms(lambda x: rd((x,)), n, kth)
    st = cur()
    for f in ap["facts"]:
        st.assume(f)
    CALLS.append(kth)
    P, p = ap["first"], ap["p"]

    def fn(idx):
        t = idx[0]
        if is_conc(t) and int(t) <= kth:
            return P[int(t)]
        return p(t)
    return A.new_arr((n,), fn, "int")


_MM = {}


def symbolic_minmax(a, which):
    """ASSUMED contract of ndarray.max() / .min() over a 1-D array of symbolic length n >= 1: the result is an element
    (at a witness position W in [0, n)) and bounds every element.  Both are functions of the array (lambda-lifted).
    The universal part is assumed at the two end positions 0 and n-1 (instances); other instances: minmax_bound."""
    from pyvc.sigma import VAR0, _placeholder, free_consts
    n = a.shape[0]
    rd = a.reader()
    cur().require(sv.cmp(">=", n, 1), "max-of-empty-array")
    m = z3.Int(sv.fresh_name("mmx"))
    body = z3.simplify(sv.zr(norm(rd((SV(m),)))))
    frees = free_consts(body, exclude=[m])
    ph = [_placeholder(c.sort(), i) for i, c in enumerate(frees)]
    canon = z3.substitute(body, (m, VAR0), *zip(frees, ph)) if frees else z3.substitute(body, (m, VAR0))
    isint = a.dtype in ("int", "bool")       # the extremum of an integer array is an integer (usable as a dimension / index)
    key = (which, isint, canon.sexpr(), tuple(str(p.sort()) for p in ph))
    if key not in _MM:
        k = len(_MM)
        _MM[key] = (z3.Function(f"{which.upper()}{k}", z3.IntSort(), *[p.sort() for p in ph], z3.IntSort() if isint else z3.RealSort()),
                    z3.Function(f"ARG{which.upper()}{k}", z3.IntSort(), *[p.sort() for p in ph], z3.IntSort()))
    vf, wf = _MM[key]
    val = SV(vf(sv.znum(n), *frees))
    W = SV(wf(sv.znum(n), *frees))
    op = "<=" if which == "max" else ">="
    st = cur()
    st.assume(sv.and_(sv.cmp(">=", W, 0), sv.cmp("<", W, n), sv.cmp("==", val, rd((W,)))))
    st.assume(sv.cmp(op, rd((0,)), val))
    st.assume(sv.cmp(op, rd((A.simp(sv.sub(n, 1)),)), val))
    st.trace.append(("minmax", which, val, a))
    return val


def np_unique(interp, a, return_counts=False, **kw):
    """ASSUMED (relational) contract of np.unique(a, return_counts=True) for 1-D a of length n >= 1: U >= 1 distinct
    values and their multiplicities; every multiplicity is >= 1 and they add up to n.  (Which values: not modelled.)"""
    if kw:
        raise EngineError("np.unique options")
    a = _arr(a, interp)
    if a.ndim != 1:
        raise EngineError("np.unique of nd array")
    n = a.shape[0]
    U = sv.fresh_int("nuniq")
    vf = z3.Function(sv.fresh_name("uniqval"), z3.IntSort(), z3.RealSort() if a.dtype == "float" else z3.IntSort())
    cf = z3.Function(sv.fresh_name("uniqcnt"), z3.IntSort(), z3.IntSort())
    st = cur()
    st.assume(sv.and_(sv.cmp(">=", U, 0), sv.cmp("<=", U, n), sv.implies(sv.cmp(">=", n, 1), sv.cmp(">=", U, 1))))
    vals = A.new_arr((U,), lambda idx: SV(vf(sv.znum(idx[0]))), a.dtype)
    if not return_counts:
        return vals
    cnts = A.new_arr((U,), lambda idx: SV(cf(sv.znum(idx[0]))), "int")
    st.assume(sv.cmp("==", Sum(0, U, lambda t: SV(cf(sv.znum(t)))), n))
    return (vals, cnts)


def register(lib):
    lib.np["unique"] = LibFunc("np.unique", np_unique)
    A.SYMBOLIC_MINMAX[0] = symbolic_minmax
    lib.np["linalg.eig"] = LibFunc("np.linalg.eig", np_eig)
    lib.np["sort"] = LibFunc("np.sort", np_sort)
    lib.np["log10"] = LibFunc("np.log10", np_log10)
    lib.np["trapz"] = LibFunc("np.trapz", np_trapz)
    lib.np["trapezoid"] = LibFunc("np.trapezoid", np_trapz)
    lib.np["delete"] = LibFunc("np.delete", np_delete)
    lib.np["argpartition"] = LibFunc("np.argpartition", np_argpartition)
