"""Library contracts assumed for C13 (conditional g(r) / S(q)) — part of the trusted base.

Registered here:
* ``np.iscomplexobj(x)``: True iff x is an array (or scalar) of a complex dtype, of any precision (complex64/complex128).

Stated in the engine core because they are hooks of the array model rather than named library functions (listed in
contracts/C13.py TRUSTED as assumed):
* boolean-mask row selection ``a[mask]`` followed by integer row indexing: ``pyvc.arr.Masked.enumeration`` — the result lists the
  selected rows in increasing index order, i.e. row p is row sel(p) of ``a`` with sel a bijection [0, count) -> {j < n : mask_j};
  the Sigma re-indexing rule  sum_{p<count} g(sel(p)) = sum_{j<n} [mask_j] g(j)  (``pyvc.axioms._reindex_selection``);
* ``np.histogram(..., weights=w)`` with complex weights accumulates real and imaginary parts separately (``pyvc.lib.np_histogram``);
* an input array may carry a reduced-precision numpy dtype name (cell meta ``dtype_name``, e.g. ``complex64``): same value model,
  but ``arr.dtype == "complex128"`` is False for it, as in numpy (``pyvc.lib.arr_attr``).
"""
from pyvc import arr as A
from pyvc import sv
from pyvc.interp import LibFunc


def _iscomplexobj(interp, x):
    x = sv.norm(x) if not isinstance(x, A.Arr) else x
    if isinstance(x, A.Arr):
        return x.dtype == "complex"
    return isinstance(x, sv.Cx)


def register(lib):
    lib.np["iscomplexobj"] = LibFunc("np.iscomplexobj", _iscomplexobj)
    # sel[p] for an integer p: row sel(p) of the enumeration above (the Sigma re-indexing rule is stated on it)
    A.MASKED_ROW[0] = lambda a, k: a.row(k)
