"""Assumed library contracts added for C18 (purity): only what the frame obligation of gyration_tensor needs to reach the end of
the body.  Registered only when no other property registered the name (libext modules load in sorted order: a stronger
contract of C17 wins).  All three are RELATIONAL contracts (fresh result + assumed facts), none writes its argument:

np.sort(a), a 1-D of concrete length n <= 4 : new array s, ascending, every s_k is some a_j, sum(s) = sum(a)   (argument not written)
np.linalg.eig(M), M (d,d), d <= 3            : new (w, V); for symmetric M: M V[:,k] = w_k V[:,k], sum(w) = trace(M)  (argument not written)
np.log10(x)                                  : element-wise uninterpreted LOG10(x)                                   (new array)
freud.box.Box.from_box(boxlength)            : an opaque box object; the argument is not written and not kept
"""
import z3

from pyvc import arr as A
from pyvc import sv
from pyvc.interp import LibFunc
from pyvc.state import cur


def _np_sort(interp, a, axis=-1, **k):
    from pyvc.lib import _arr
    a = _arr(a, interp)
    if a.ndim != 1:
        raise sv.EngineError("np.sort contract: 1-D only")
    n = A.conc_dim(a.shape[0], "np.sort length")
    if n > 4:
        raise sv.EngineError("np.sort contract: length <= 4")
    xs = [a.get((j,)) for j in range(n)]
    ss = [sv.fresh_real("sorted") for _ in range(n)]
    st = cur()
    for k_ in range(n - 1):
        st.assume(sv.cmp("<=", ss[k_], ss[k_ + 1]))
    for s in ss:
        st.assume(sv.or_(*[sv.cmp("==", s, x) for x in xs]))
    tot_s, tot_x = 0, 0
    for s, x in zip(ss, xs):
        tot_s, tot_x = sv.add(tot_s, s), sv.add(tot_x, x)
    st.assume(sv.cmp("==", tot_s, tot_x))
    return A.from_nested(ss, "float")


def _np_eig(interp, m):
    from pyvc.lib import _arr
    m = _arr(m, interp)
    d = A.conc_dim(m.shape[0], "np.linalg.eig dimension")
    if m.ndim != 2 or d > 3:
        raise sv.EngineError("np.linalg.eig contract: (d,d) with d <= 3")
    M = [[m.get((i, j)) for j in range(d)] for i in range(d)]
    w = [sv.fresh_real("eigval") for _ in range(d)]
    V = [[sv.fresh_real("eigvec") for _ in range(d)] for _ in range(d)]
    sym = sv.and_(*[sv.cmp("==", M[i][j], M[j][i]) for i in range(d) for j in range(i + 1, d)]) if d > 1 else True
    st = cur()
    eqs = []
    for k in range(d):
        for i in range(d):
            lhs = 0
            for j in range(d):
                lhs = sv.add(lhs, sv.mul(M[i][j], V[j][k]))
            eqs.append(sv.cmp("==", lhs, sv.mul(w[k], V[i][k])))
    tr, sw = 0, 0
    for k in range(d):
        tr, sw = sv.add(tr, M[k][k]), sv.add(sw, w[k])
    eqs.append(sv.cmp("==", tr, sw))
    st.assume(sv.implies(sym, sv.and_(*eqs)))
    return (A.from_nested(w, "float"), A.from_nested(V, "float"))


_LOG10 = z3.Function("LOG10", z3.RealSort(), z3.RealSort())


def _log10(v):
    return sv.SV(_LOG10(sv.zr(v)))


def register(lib):
    from pyvc.lib import _map
    if "sort" not in lib.np:
        lib.np["sort"] = LibFunc("np.sort", _np_sort)
    if "linalg.eig" not in lib.np:
        lib.np["linalg.eig"] = LibFunc("np.linalg.eig", _np_eig)
    if "log10" not in lib.np:
        lib.np["log10"] = LibFunc("np.log10", _map(_log10, "float"))
    if "freud" not in lib.mods:
        from pyvc.interp import ModVal
        lib.mods["freud"] = {"box": ModVal("freud.box")}
        lib.mods["freud.box"] = {"Box": ModVal("freud.box.Box")}
        lib.mods["freud.box.Box"] = {"from_box": LibFunc("freud.box.Box.from_box", lambda i, b, *a, **k: ModVal("freud.box.Box#instance"))}
