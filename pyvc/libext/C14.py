"""Assumed library contracts added for C14 (time_correlation).

``len(set(s))`` for a sequence ``s`` of symbolic length n (here: ``set(np.diff(timesteps))``): the number of distinct
elements.  It has no closed form; the contract is relational: the result is a fresh integer ``c`` with the facts

    c >= 0,  c <= max(n, 0),  n >= 1 -> c >= 1,  n <= 0 -> c == 0
    (n >= 1 and c != 1)  ->  0 <= w < n and s(w) != s(0)              for a fresh (Skolem) index w
    c == 1               ->  (0 <= j < n -> s(j) == s(0))             for every integer constant j of the current
                                                                       assumptions (instances of the universal fact)

i.e.  c == 1  <=>  n >= 1 and all elements are equal  (the only use the repo makes of it).  All facts are
consequences of the mathematical cardinality of {s(0..n-1)}, so adding them is sound; which instances are added only
affects completeness.
"""
import z3

from pyvc import lib as L
from pyvc import sv
from pyvc.interp import LibFunc
from pyvc.sigma import free_consts
from pyvc.state import cur
from pyvc.sv import norm


def symset_card(s):
    seq = s.seq
    n = norm(seq.length)
    st = cur()
    c = sv.fresh_int("card")
    w = sv.fresh_int("wit")
    e0 = norm(seq.fn(0))
    st.assume(sv.cmp(">=", c, 0))
    st.assume(sv.implies(sv.cmp(">=", n, 1), sv.and_(sv.cmp(">=", c, 1), sv.cmp("<=", c, n))))
    st.assume(sv.implies(sv.cmp("<=", n, 0), sv.cmp("==", c, 0)))
    st.assume(sv.implies(sv.and_(sv.cmp(">=", n, 1), sv.cmp("!=", c, 1)),
                         sv.and_(sv.cmp(">=", w, 0), sv.cmp("<", w, n), sv.cmp("!=", norm(seq.fn(w)), e0))))
    seen, terms = set(), []
    for f in list(st.facts) + list(st.pc):
        for k in free_consts(f):
            if z3.is_int(k) and k.get_id() not in seen and not k.eq(c.t) and not k.eq(w.t):
                seen.add(k.get_id())
                terms.append(k)
    for k in terms[:24]:
        j = sv.SV(k)
        st.assume(sv.implies(sv.and_(sv.cmp("==", c, 1), sv.cmp(">=", j, 0), sv.cmp("<", j, n)),
                             sv.cmp("==", norm(seq.fn(j)), e0)))
    return c


def register(lib):
    old = L.BUILTINS["len"]
    if getattr(old, "_c14_symset", False):
        return

    def _len(interp, v):
        v = norm(v)
        if isinstance(v, L.SymSet) and sv.is_scalar(norm(v.seq.fn(sv.fresh_int("sp")))):
            return symset_card(v)       # (sets of non-scalar elements: the base model's SymSetLen)
        return old.fn(interp, v)
    f = LibFunc("len", _len)
    f._c14_symset = True
    L.BUILTINS["len"] = f
