"""Assumed library contracts added with C20: freud (Box.from_box, locality.Voronoi), np.unique on the first column of a
freud neighbour list, np.save argument check, np.linalg.inv of a matrix of symbolic size (opaque).

freud.locality.Voronoi().compute((box, points)) — RELATIONAL contract (facts about freud, not about /repo; ASSUMED).
  requires  points of shape (N, 3); in a 2-D box every z is 0 (freud raises ValueError otherwise)
  The result is a family of uninterpreted functions of the SYSTEM (box lengths, dimensionality, N, the point coordinates):
  λ-lifted over the free symbols of the system like Σ-terms (sigma.py / relops.py), so that the same system computed twice
  gives the same symbols.  With CN(i) the number of bonds of particle i, S(i) = Σ_{k<i} CN(k), M = S(N):
    every particle present        0 <= i < N  ->  CN(i) >= 1
    neighbour list layout         nlist has M rows; rows sorted by i: row i occupies [S(i), S(i)+CN(i)) within [0, M);
                                  nlist[S(i)+r] = (i, NBR(i,r)),  weights[S(i)+r] = WGT(i,r)      (0 <= r < CN(i))
                                  (stated with the decoding functions ROW(t), COL(t):  t = S(ROW(t)) + COL(t))
    symmetric with multiplicity   j = NBR(i,r), q = REV(i,r):  0 <= j < N, 0 <= q < CN(j), NBR(j,q) = i, REV(j,q) = r
    weights                       WGT(i,r) > 0,  WGT(j,q) = WGT(i,r)
    volumes                       VOL(i) > 0,  Σ_{i<N} VOL(i) = box volume (Lx Ly in 2-D, Lx Ly Lz in 3-D)
    compute returns the object itself; nlist / volumes before compute raise AttributeError.
np.unique(x, return_counts=True) where x = ROW(.) + c is the first column of such a list (non-decreasing, every particle
present): values c, c+1, .., c+N-1 and counts CN(.) — the composition of the layout above with numpy's sorted-distinct-values
contract (ASSUMED, stated in closed form because the counting argument is an induction the SMT layer does not do).
"""
import z3

from pyvc import arr as A
from pyvc import sv
from pyvc.interp import LibFunc, ModVal, PyRaise
from pyvc.sigma import Sum
from pyvc.state import Content, cur
from pyvc.sv import SV, EngineError, is_conc, norm, znum

I, R = z3.IntSort(), z3.RealSort()

SYSTEMS = {}      # ROW function name -> VoroSystemLift


# ----------------------------------------------------------------------------------------------------
# canonical form of piecewise array contents (so that x += d; x -= 2d; x += d and x are the same system)


def _ite_atoms(t, out, seen):
    if t.get_id() in seen:
        return
    seen.add(t.get_id())
    if z3.is_app(t):
        if t.decl().kind() == z3.Z3_OP_ITE:
            c = t.arg(0)
            if not any(c.eq(x) for x in out):
                out.append(c)
        for ch in t.children():
            _ite_atoms(ch, out, seen)


def canon_piecewise(t, max_atoms=4):
    """logically equal term: the if-then-else conditions are decided one after the other (ordered by their text) and the
    leaves are simplified; equal branches are merged"""
    t = z3.simplify(t)
    atoms = []
    _ite_atoms(t, atoms, set())
    if not atoms or len(atoms) > max_atoms:
        return t
    atoms = sorted(atoms, key=lambda a: a.sexpr())

    def build(term, k):
        term = z3.simplify(term)
        if k == len(atoms):
            return term
        a = atoms[k]
        yes = build(z3.substitute(term, (a, z3.BoolVal(True))), k + 1)
        no = build(z3.substitute(term, (a, z3.BoolVal(False))), k + 1)
        if yes.eq(no):
            return yes
        if z3.is_eq(a):
            # If(u == v, X, Y) with X[u:=v] identical to Y[u:=v]: under the condition X = Y, so the term is Y
            # (a coordinate that was displaced and moved back: If(t == i, P(i), P(t)) is P(t))
            l, r = a.children()
            for u, v in ((l, r), (r, l)):
                if z3.is_const(u) and u.decl().kind() == z3.Z3_OP_UNINTERPRETED:
                    if z3.simplify(z3.substitute(yes, (u, v))).eq(z3.simplify(z3.substitute(no, (u, v)))):
                        return no
        return z3.If(a, yes, no)
    return build(t, 0)


# ----------------------------------------------------------------------------------------------------
# freud.box.Box


class FreudBox:
    def __init__(self, L):
        self.L = list(L)
        self.dims = len(self.L)

    def pyvc_getattr(self, interp, name):
        if name in ("Lx", "Ly", "Lz"):
            k = "xyz".index(name[1])
            return self.L[k] if k < self.dims else sv.to_frac(0.0)
        if name == "is2D":
            return self.dims == 2
        if name == "dimensions":
            return self.dims
        if name == "L":
            return A.from_nested(self.L + ([0] if self.dims == 2 else []), "float")
        if name == "volume":
            v = 1
            for x in self.L:
                v = sv.mul(v, x)
            return v
        raise EngineError(f"freud Box.{name}")

    def volume(self):
        v = 1
        for x in self.L:
            v = sv.mul(v, x)
        return v


def box_from_box(interp, box, dimensions=None, **kw):
    """freud.box.Box.from_box(lengths): 2 lengths -> 2-D box, 3 lengths -> 3-D orthorhombic box (ASSUMED)"""
    from pyvc.lib import _arr
    if isinstance(box, FreudBox):
        return box
    a = _arr(box, interp)
    if a.ndim != 1 or not A.dim_conc(a.shape[0]):
        raise EngineError("Box.from_box of a non 1-D / symbolic-length value")
    n = a.shape[0]
    if n not in (2, 3):
        raise EngineError("Box.from_box with tilt factors")
    return FreudBox([a.get((k,)) for k in range(n)])


# ----------------------------------------------------------------------------------------------------
# freud.locality.Voronoi


def _zsub(t, pairs):
    return z3.substitute(t, *pairs) if pairs else t


class VoroSystem:
    """the lifted result functions of one tessellated system, applied to the parameters `ps` of this occurrence"""

    def __init__(self, lift, ps):
        self.lift, self.ps = lift, list(ps)

    # applications
    def CN(self, i):
        return SV(self.lift.f["CN"](znum(i), *self.ps))

    def NBR(self, i, r):
        return SV(self.lift.f["NBR"](znum(i), znum(r), *self.ps))

    def WGT(self, i, r):
        return SV(self.lift.f["WGT"](znum(i), znum(r), *self.ps))

    def REV(self, i, r):
        return SV(self.lift.f["REV"](znum(i), znum(r), *self.ps))

    def VOL(self, i):
        return SV(self.lift.f["VOL"](znum(i), *self.ps))

    def ROW(self, t):
        return SV(self.lift.f["ROW"](znum(t), *self.ps))

    def COL(self, t):
        return SV(self.lift.f["COL"](znum(t), *self.ps))

    def S(self, i):
        return sv.wrap(z3.simplify(self.lift.S_at(znum(i), self.ps)))

    @property
    def N(self):
        return sv.wrap(z3.simplify(self.lift.N_at(self.ps)))

    @property
    def M(self):
        return self.S(self.N)

    def boxvol(self):
        return sv.wrap(z3.simplify(self.lift.boxvol_at(self.ps)))

    def volsum(self):
        return sv.wrap(z3.simplify(self.lift.volsum_at(self.ps)))


class VoroLift:
    """one distinct (canonical) system: function symbols + the assumed facts, registered as array facts"""

    def __init__(self, L, frees, dims):
        self.L, self.dims = L, dims
        names = ["CN", "NBR", "WGT", "REV", "VOL", "ROW", "COL"]
        self.f = dict(zip(names, L.fns))
        # templates over the creating occurrence's free symbols; other occurrences substitute their parameters
        self.frees = list(frees)
        k = z3.Int("vs!k")
        self.k = k
        CN = self.f["CN"]
        self.S_tmpl = znum(Sum(0, SV(k), lambda x: SV(CN(znum(x), *self.frees))))
        VOL = self.f["VOL"]
        # data layout: [p0, p1, p2, N, L0, L1, (L2)]
        self.N_tmpl = self._data_tmpl(3)
        self.L_tmpl = [self._data_tmpl(4 + c) for c in range(dims)]
        self.volsum_tmpl = znum(Sum(0, SV(self.N_tmpl), lambda x: SV(VOL(znum(x), *self.frees))))
        self.S_decl = self.S_tmpl.decl().name() if z3.is_app(self.S_tmpl) and self.S_tmpl.num_args() >= 2 else None

    def _data_tmpl(self, pos):
        return self.L.data_at(z3.IntVal(0), self.frees)[pos]

    def _pairs(self, ps):
        return [(a, b) for a, b in zip(self.frees, ps) if not a.eq(b)]

    def S_at(self, i, ps):
        return z3.substitute(self.S_tmpl, (self.k, i), *self._pairs(ps))

    def N_at(self, ps):
        return _zsub(self.N_tmpl, self._pairs(ps))

    def boxvol_at(self, ps):
        v = None
        for t in self.L_tmpl:
            t = _zsub(t, self._pairs(ps))
            v = t if v is None else v * t
        return v

    def volsum_at(self, ps):
        return _zsub(self.volsum_tmpl, self._pairs(ps))

    # ---- the assumed facts (instances for one application; see module docstring)
    def fact_cn(self, i, *ps):
        f = self.f
        N, M = self.N_at(ps), self.S_at(self.N_at(ps), ps)
        Si = self.S_at(i, ps)
        return z3.Implies(z3.And(i >= 0, i < N), z3.And(f["CN"](i, *ps) >= 1, Si >= 0, Si + f["CN"](i, *ps) <= M))

    def fact_nbr(self, i, r, *ps):
        f = self.f
        N = self.N_at(ps)
        j, q = f["NBR"](i, r, *ps), f["REV"](i, r, *ps)
        return z3.Implies(z3.And(i >= 0, i < N, r >= 0, r < f["CN"](i, *ps)),
                          z3.And(j >= 0, j < N, q >= 0, q < f["CN"](j, *ps), f["NBR"](j, q, *ps) == i, f["REV"](j, q, *ps) == r,
                                 f["WGT"](i, r, *ps) > 0, f["WGT"](j, q, *ps) == f["WGT"](i, r, *ps)))

    def fact_vol(self, i, *ps):
        f = self.f
        N = self.N_at(ps)
        return z3.And(z3.Implies(z3.And(i >= 0, i < N), f["VOL"](i, *ps) > 0), self.volsum_at(ps) == self.boxvol_at(ps))

    def fact_rowcol(self, t, *ps):
        f = self.f
        N, M = self.N_at(ps), self.S_at(self.N_at(ps), ps)
        row, col = f["ROW"](t, *ps), f["COL"](t, *ps)
        out = [z3.Implies(z3.And(t >= 0, t < M),
                          z3.And(row >= 0, row < N, col >= 0, col < f["CN"](row, *ps), t == self.S_at(row, ps) + col))]
        # the packing is a bijection: index S(i) + r with 0 <= r < CN(i) decodes to (i, r); instantiated for the prefix sums
        # S(i) that occur in the index term
        for app in _apps_named(t, self.S_decl):
            if not z3.is_int_value(app.arg(0)) or app.arg(0).as_long() != 0:
                continue
            if not all(a.eq(b) for a, b in zip([app.arg(k) for k in range(2, app.num_args())], self._S_param_order(ps))):
                continue
            i = app.arg(1)
            r = z3.simplify(t - app)
            out.append(z3.Implies(z3.And(i >= 0, i < N, r >= 0, r < f["CN"](i, *ps)), z3.And(row == i, col == r)))
        return z3.And(*out)

    def _S_param_order(self, ps):
        """the argument list (after lo, hi) of S applied to the parameters ps"""
        t = self.S_at(z3.Int("vs!probe"), ps)
        return [t.arg(k) for k in range(2, t.num_args())]

    def fact_S(self, lo, hi, *sps):
        # parameters of the Σ-function are the free symbols of CN(., ps) in first-occurrence order, i.e. ps itself
        ps = list(sps)
        if len(ps) != len(self.frees):
            return z3.BoolVal(True)
        f = self.f
        N = self.N_at(ps)
        M = self.S_at(N, ps)
        e = self.S_at(hi, ps)
        return z3.Implies(z3.And(lo == 0, hi >= 0, hi <= N), z3.And(e >= 0, e <= M, z3.Implies(hi < N, e + f["CN"](hi, *ps) <= M)))


def _apps_named(t, name):
    out, seen, stack = [], set(), [t]
    if name is None:
        return out
    while stack:
        e = stack.pop()
        if e.get_id() in seen:
            continue
        seen.add(e.get_id())
        if z3.is_app(e):
            if e.decl().kind() == z3.Z3_OP_UNINTERPRETED and e.decl().name() == name:
                out.append(e)
            stack.extend(e.children())
    return out


def _add_fact(fname, fact):
    st = cur()
    if not any(n == fname and getattr(f, "_c20", None) == fname for n, f in st.array_facts):
        def g(*a, fact=fact):
            return fact(*a)
        g._c20 = fname
        st.array_facts.append((fname, g))


_QUIET = [False]


def _assume_once(t):
    """instance of an assumed library fact, added to the current path (so that branch decisions see it)"""
    if _QUIET[0]:
        return
    st = cur()
    t = z3.simplify(t)
    if z3.is_true(t):
        return
    i = t.get_id()
    for f in st.pc[-400:]:
        if f.get_id() == i:
            return
    st.pc.append(t)


def voro_system(box, pts_reader, N):
    """-> VoroSystem for (box, points): lifted over the free symbols of the system"""
    from pyvc.relops import lift
    dims = box.dims

    def data(t):
        out = []
        for c in range(3):
            v = norm(pts_reader((t, c)))
            out.append(sv.wrap(canon_piecewise(sv.zr(v))) if isinstance(v, SV) else sv.to_real(v))
        out.append(N)
        out.extend(sv.to_real(x) for x in box.L)
        return out
    outs = [("CN", [I], I), ("NBR", [I, I], I), ("WGT", [I, I], R), ("REV", [I, I], I), ("VOL", [I], R), ("ROW", [I], I), ("COL", [I], I)]
    L, frees = lift(f"VORO{dims}D", data, outs)
    vl = getattr(L, "_voro", None)
    if vl is None:
        vl = VoroLift(L, frees, dims)
        L._voro = vl
        SYSTEMS[vl.f["ROW"].name()] = vl
    f = vl.f
    _add_fact(f["CN"].name(), vl.fact_cn)
    _add_fact(f["NBR"].name(), vl.fact_nbr)
    _add_fact(f["WGT"].name(), vl.fact_nbr)
    _add_fact(f["REV"].name(), vl.fact_nbr)
    _add_fact(f["VOL"].name(), vl.fact_vol)
    _add_fact(f["ROW"].name(), vl.fact_rowcol)
    _add_fact(f["COL"].name(), vl.fact_rowcol)
    if vl.S_decl:
        _add_fact(vl.S_decl, vl.fact_S)
    return VoroSystem(vl, frees)


def _raw_arr(shape, fn, dtype, **meta):
    """array cell without memoisation (its reader adds fact instances to whichever path reads it)"""
    shape = tuple(A.simp(d) for d in shape)
    m = {"shape": shape}
    m.update(meta)
    return A.Arr(cur().alloc(Content("arr", fn, m)), None, dtype)


class NList:
    def __init__(self, sysm):
        self.sys = sysm

    def _decode(self, t):
        s = self.sys
        _assume_once(s.lift.fact_rowcol(znum(t), *s.ps))
        return s.ROW(t), s.COL(t)

    def pyvc_array(self, interp, dtype=None):
        s = self

        def fn(idx):
            t, c = idx[0], idx[1]
            row, col = s._decode(t)
            nb = s.sys.NBR(row, col)
            _assume_once(s.sys.lift.fact_nbr(znum(row), znum(col), *s.sys.ps))
            if is_conc(c):
                return row if int(c) == 0 else nb
            return sv.ite(sv.cmp("==", c, 0), row, nb)
        return _raw_arr((self.sys.M, 2), fn, "int", freud="nlist")

    def pyvc_getattr(self, interp, name):
        s = self
        if name == "weights":
            def fn(idx):
                row, col = s._decode(idx[0])
                _assume_once(s.sys.lift.fact_nbr(znum(row), znum(col), *s.sys.ps))
                return s.sys.WGT(row, col)
            return _raw_arr((self.sys.M,), fn, "float", freud="weights")
        if name == "shape":
            return (self.sys.M, 2)
        raise EngineError(f"freud NeighborList.{name}")


class Voronoi:
    def __init__(self):
        self.sys = None

    def pyvc_getattr(self, interp, name):
        if name == "compute":
            return LibFunc("freud.locality.Voronoi.compute", self.compute)
        if self.sys is None:
            raise PyRaise("AttributeError", f"Voronoi.{name}: call compute() first")
        if name == "nlist":
            return NList(self.sys)
        if name == "volumes":
            s = self.sys

            def fn(idx):
                _assume_once(s.lift.fact_vol(znum(idx[0]), *s.ps))
                return s.VOL(idx[0])
            return _raw_arr((s.N,), fn, "float", freud="volumes")
        raise EngineError(f"freud Voronoi.{name}")

    def compute(self, interp, system, **kw):
        items = interp.iter_concrete(system)
        if len(items) != 2:
            raise EngineError("Voronoi.compute of a non (box, points) system")
        box, pts = items
        if not isinstance(box, FreudBox):
            box = box_from_box(interp, box)
        from pyvc.lib import _arr
        pts = _arr(pts, interp)
        if pts.ndim != 2 or not A.dim_conc(pts.shape[1]) or pts.shape[1] != 3:
            raise PyRaise("ValueError", f"freud: array.shape= {tuple(pts.shape)}; expected shape = (..., 3)")
        rd = pts.reader()
        N = pts.shape[0]
        if box.dims == 2:
            t = sv.fresh_int("vz")
            cur().require(sv.implies(sv.and_(sv.cmp(">=", t, 0), sv.cmp("<", t, N)), sv.cmp("==", rd((t, 2)), 0)),
                          "call:freud.Voronoi.compute:pre:z==0-in-a-2D-box")
        self.sys = voro_system(box, rd, N)
        self.box = box
        return self


def voronoi_ctor(interp, *a, **k):
    return Voronoi()


# ----------------------------------------------------------------------------------------------------
# numpy


def _match_row_column(a):
    """x = ROW(., ps) + c over the whole list?  -> (VoroSystem, c)"""
    if a.ndim != 1 or a.dtype != "int":
        return None
    t0 = z3.Int("uq!t")
    r = a.reader()
    _QUIET[0] = True
    try:
        e = norm(r((SV(t0),)))
    finally:
        _QUIET[0] = False
    if not isinstance(e, SV):
        return None
    e = z3.simplify(e.t)
    for name, vl in SYSTEMS.items():
        for app in _apps_named(e, name):
            if not app.arg(0).eq(t0):
                continue
            c = z3.simplify(e - app)
            if not z3.is_int_value(c):
                continue
            ps = [app.arg(k) for k in range(1, app.num_args())]
            s = VoroSystem(vl, ps)
            if A.dim_eq_syntactic(a.shape[0], s.M):
                return s, c.as_long()
    return None


def make_np_unique(prev):
    def np_unique(interp, x, return_counts=False, **kw):
        from pyvc.lib import _arr
        try:
            a = _arr(x, interp)
            m = _match_row_column(a) if not kw else None
        except EngineError:
            m = None
        if m is None:
            if prev is None:
                raise EngineError("np.unique")
            return prev.fn(interp, x, return_counts=return_counts, **kw)
        s, c = m
        vals = A.new_arr((s.N,), lambda idx: sv.add(idx[0], c), "int")
        if not return_counts:
            return vals

        def cnt(idx):
            _assume_once(s.lift.fact_cn(znum(idx[0]), *s.ps))
            return s.CN(idx[0])
        return (vals, _raw_arr((s.N,), cnt, "int"))
    return np_unique


def make_np_save(prev):
    def np_save(interp, file, arr=None, **kw):
        if isinstance(file, (A.Arr, A.Masked)):
            raise PyRaise("TypeError", "np.save: expected str, bytes or os.PathLike object, not ndarray")
        if arr is None:
            raise PyRaise("TypeError", "np.save() missing required argument 'arr'")
        return prev.fn(interp, file, arr, **kw)
    return np_save


def make_np_inv(prev):
    def np_inv(interp, a):
        """np.linalg.inv of an n x n matrix with symbolic n: an uninterpreted function of the matrix (no property assumed
        beyond the shape); small concrete sizes keep the adjugate formula of pyvc/lib.py"""
        from pyvc.lib import _arr
        from pyvc.relops import lift
        m = _arr(a, interp)
        if m.ndim == 2 and not A.dim_conc(m.shape[0]):
            A.require_dim_eq(m.shape[0], m.shape[1], "inv-square")
            r = m.reader()
            x = z3.Int("inv!x")
            L, frees = lift("INVN", lambda t: [r((t, SV(x))), m.shape[0]], [("", [I, I], R)])
            frees = [f for f in frees]
            fn = L.fns[0]
            # λ-lifting treats the second index x as a free symbol: drop it from the parameters by fixing it
            ps = [f if not f.eq(x) else z3.IntVal(0) for f in frees]
            return A.new_arr((m.shape[0], m.shape[0]), lambda idx: SV(fn(znum(idx[0]), znum(idx[1]), *ps)), "float")
        return prev.fn(interp, a)
    return np_inv


def register(lib):
    lib.mods.setdefault("freud", {})
    lib.mods["freud"].update({"box": ModVal("freud.box"), "locality": ModVal("freud.locality")})
    lib.mods["freud.box"] = {"Box": ModVal("freud.box.Box")}
    lib.mods["freud.box.Box"] = {"from_box": LibFunc("freud.box.Box.from_box", box_from_box)}
    lib.mods["freud.locality"] = {"Voronoi": LibFunc("freud.locality.Voronoi", voronoi_ctor)}
    lib.np["unique"] = LibFunc("np.unique", make_np_unique(lib.np.get("unique")))
    lib.np["save"] = LibFunc("np.save", make_np_save(lib.np["save"]))
    lib.np["linalg.inv"] = LibFunc("np.linalg.inv", make_np_inv(lib.np["linalg.inv"]))
