"""Library contracts assumed for C04 (trusted base)."""
import z3

from pyvc import arr as A
from pyvc import sv
from pyvc.interp import LibFunc
from pyvc.sigma import Sum
from pyvc.state import cur
from pyvc.sv import EngineError


def np_unique(interp, x, return_counts=False, **kw):
    """np.unique(x, return_counts=True) for a 1-D array of length n: (vals, counts) of a common length U (0 <= U <= n, U >= 1 when
    n >= 1); vals strictly ascending; counts[k] = #{t < n : x[t] == vals[k]}; every element is one of the values, i.e. the counts
    sum to n.  (Relational contract: U and vals are fresh symbols constrained by these facts.)"""
    from pyvc.lib import _arr
    if kw:
        raise EngineError("np.unique with options other than return_counts")
    a = _arr(x, interp)
    if a.ndim != 1:
        raise EngineError("np.unique of an n-d array")
    if a.dtype not in ("int", "float"):
        raise EngineError("np.unique of a non-numeric array")
    n = a.shape[0]
    r = a.reader()
    tag = sv.fresh_name("uniq")
    U = sv.integer(f"U_{tag}")
    sort = z3.IntSort() if a.dtype == "int" else z3.RealSort()
    VAL = z3.Function(f"VAL_{tag}", z3.IntSort(), sort)
    st = cur()
    st.assume(sv.cmp(">=", U, 0))
    st.assume(sv.cmp("<=", U, n))
    st.assume(sv.implies(sv.cmp(">=", n, 1), sv.cmp(">=", U, 1)))
    uz = sv.znum(U)
    st.array_facts.append((f"VAL_{tag}", lambda k: z3.Implies(z3.And(k >= 0, k + 1 < uz), VAL(k) < VAL(k + 1))))

    def val(k):
        return sv.SV(VAL(sv.znum(k)))

    def count(k):
        return Sum(0, n, lambda t: sv.ite(sv.cmp("==", r((t,)), val(k)), 1, 0))
    vals = A.new_arr((U,), lambda idx: val(idx[0]), a.dtype)
    if not return_counts:
        return vals
    counts = A.new_arr((U,), lambda idx: count(idx[0]), "int")
    st.assume(sv.cmp("==", Sum(0, U, count), n))
    return (vals, counts)


def register(lib):
    lib.np["unique"] = LibFunc("np.unique", np_unique)


def math_modf(interp, x):
    """math.modf(x) -> (fractional part, integral part), x = integral + fractional, integral = trunc(x).
    For x = sqrt(k) with k a non-negative integer (k < 2**52) the fractional part is zero exactly when k is a perfect square:
    in the engine sqrt of a perfect square is the exact rational root, every other root is c*sqrt(m) with m > 1 square-free,
    which is irrational, hence has a non-zero fractional part (assumed: the correctly rounded float root of a non-square is not an integer)."""
    from fractions import Fraction

    from pyvc.sv import _split_coeff, is_conc, norm, zr
    x = norm(x)
    if is_conc(x):
        f = Fraction(x)
        ip = int(f)
        return (f - ip, Fraction(ip))
    ip = sv.to_real(sv.trunc(x))
    frac = sv.sub(x, ip)
    q, rest = _split_coeff(z3.simplify(zr(x)))
    if rest is not None and z3.is_app(rest) and rest.decl().name() == "sqrt" and z3.is_rational_value(rest.arg(0)) and q != 0:
        cur().assume(sv.cmp("!=", frac, 0))
    return (frac, ip)


_reg0 = register


def register(lib):       # noqa: F811
    _reg0(lib)
    lib.mods["math"]["modf"] = LibFunc("math.modf", math_modf)
