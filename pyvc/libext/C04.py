"""Library contracts assumed for C04 (trusted base)."""
import z3

from pyvc import arr as A
from pyvc import sv
from pyvc.interp import LibFunc
from pyvc.sigma import Sum
from pyvc.state import cur
from pyvc.sv import EngineError


def np_unique(interp, x, return_counts=False, **kw):
    """np.unique(x, return_counts=True) for a 1-D array of length n: (vals, counts) of a common length U (0 <= U <= n, U >= 1 when
    n >= 1); vals strictly ascending; counts[k] = #{t < n : x[t] == vals[k]}; every element is one of the values, i.e. the counts
    sum to n.  (Relational contract: U and vals are fresh symbols constrained by these facts.)"""
    from pyvc.lib import _arr
    if kw:
        raise EngineError("np.unique with options other than return_counts")
    a = _arr(x, interp)
    if a.ndim != 1:
        raise EngineError("np.unique of an n-d array")
    if a.dtype not in ("int", "float"):
        raise EngineError("np.unique of a non-numeric array")
    n = a.shape[0]
    r = a.reader()
    tag = sv.fresh_name("uniq")
    U = sv.integer(f"U_{tag}")
    sort = z3.IntSort() if a.dtype == "int" else z3.RealSort()
    VAL = z3.Function(f"VAL_{tag}", z3.IntSort(), sort)
    st = cur()
    st.assume(sv.cmp(">=", U, 0))
    st.assume(sv.cmp("<=", U, n))
    st.assume(sv.implies(sv.cmp(">=", n, 1), sv.cmp(">=", U, 1)))
    uz = sv.znum(U)
    st.array_facts.append((f"VAL_{tag}", lambda k: z3.Implies(z3.And(k >= 0, k + 1 < uz), VAL(k) < VAL(k + 1))))

    def val(k):
        return sv.SV(VAL(sv.znum(k)))

    def count(k):
        return Sum(0, n, lambda t: sv.ite(sv.cmp("==", r((t,)), val(k)), 1, 0))
    vals = A.new_arr((U,), lambda idx: val(idx[0]), a.dtype)
    if not return_counts:
        return vals
    counts = A.new_arr((U,), lambda idx: count(idx[0]), "int")
    st.assume(sv.cmp("==", Sum(0, U, count), n))
    return (vals, counts)


def register(lib):
    lib.np["unique"] = LibFunc("np.unique", np_unique)


PSQ = z3.Function("PSQ", z3.IntSort(), z3.BoolSort())      # PSQ(k): the integer k is a perfect square (k = m*m for an integer m)


def is_perfect_square(k):
    """PSQ(k) for an integer value k (concrete: decided; symbolic: the uninterpreted predicate the modf contract speaks about)"""
    import math

    from pyvc.sv import is_conc, norm
    k = norm(k)
    if is_conc(k):
        k = int(k)
        return k >= 0 and math.isqrt(k) ** 2 == k
    return sv.SV(PSQ(z3.simplify(sv.znum(k))))


def _int_form(a):
    """an Int-sorted term equal to the Real-sorted term a when a is built from integer terms by + - * (None otherwise)"""
    if z3.is_int(a):
        return a
    if z3.is_rational_value(a):
        return z3.IntVal(a.numerator_as_long()) if a.denominator_as_long() == 1 else None
    if not z3.is_app(a):
        return None
    k = a.decl().kind()
    if k == z3.Z3_OP_TO_REAL:
        return a.arg(0)
    if k in (z3.Z3_OP_ADD, z3.Z3_OP_MUL, z3.Z3_OP_SUB, z3.Z3_OP_UMINUS):
        kids = [_int_form(c) for c in a.children()]
        if any(c is None for c in kids):
            return None
        if k == z3.Z3_OP_UMINUS:
            return -kids[0]
        r = kids[0]
        for c in kids[1:]:
            r = (r + c) if k == z3.Z3_OP_ADD else (r * c) if k == z3.Z3_OP_MUL else (r - c)
        return r
    return None


def math_modf(interp, x):
    """math.modf(x) -> (fractional part, integral part), x = integral + fractional, integral = trunc(x).
    For x = sqrt(k) with k a non-negative integer (k < 2**52) the fractional part is zero exactly when k is a perfect square:
    in the engine sqrt of a perfect square is the exact rational root, every other root is c*sqrt(m) with m > 1 square-free,
    which is irrational, hence has a non-zero fractional part (assumed: the correctly rounded float root of a non-square is not an integer).
    For a symbolic integer term k the same statement is the assumed fact  (modf(sqrt(k))[0] == 0) <=> PSQ(k)  with the uninterpreted
    predicate PSQ ("k is a perfect square"); over the reals it is a theorem (sqrt(k) is an integer iff k is a square), for floats it is
    the assumption above."""
    from fractions import Fraction

    from pyvc.sv import _split_coeff, is_conc, norm, zr
    x = norm(x)
    if is_conc(x):
        f = Fraction(x)
        ip = int(f)
        return (f - ip, Fraction(ip))
    ip = sv.to_real(sv.trunc(x))
    frac = sv.sub(x, ip)
    xt = z3.simplify(zr(x))
    q, rest = _split_coeff(xt)
    if rest is not None and z3.is_app(rest) and rest.decl().name() == "sqrt" and z3.is_rational_value(rest.arg(0)) and q != 0:
        cur().assume(sv.cmp("!=", frac, 0))
    elif z3.is_app(xt) and xt.decl().name() == "sqrt":
        k = _int_form(xt.arg(0))
        if k is not None:
            k = z3.simplify(k)
            fact = sv.zb(sv.cmp("==", frac, 0)) == PSQ(k)
            # (math.sqrt of a negative number raises: the fact speaks about k >= 0 only; a sum of squares is >= 0 by its form)
            cur().assume(sv.SV(fact if _sum_of_squares(k) else z3.Implies(k >= 0, fact)))
    return (frac, ip)


def _sum_of_squares(k):
    """syntactically a sum of even powers with non-negative coefficients (hence >= 0 for all integer values)"""
    if z3.is_int_value(k):
        return k.as_long() >= 0
    if z3.is_app(k) and k.decl().kind() == z3.Z3_OP_ADD:
        return all(_sum_of_squares(c) for c in k.children())
    if z3.is_app(k) and k.decl().kind() == z3.Z3_OP_MUL:
        coef, count = 1, {}
        for c in k.children():
            if z3.is_int_value(c):
                coef *= c.as_long()
            else:
                count[c.get_id()] = count.get(c.get_id(), 0) + 1
        return coef >= 0 and all(v % 2 == 0 for v in count.values())
    return False


_reg0 = register


def register(lib):       # noqa: F811
    _reg0(lib)
    lib.mods["math"]["modf"] = LibFunc("math.modf", math_modf)
