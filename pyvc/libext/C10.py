"""Assumed library contracts added for C10 (2-D bond-orientational order).

* ``np.arctan2(y, x)``: element-wise two-argument arctangent — the uninterpreted ``atan2`` of pyvc.sv with the axiom of
  pyvc.axioms (r cos(phi) = x, r sin(phi) = y, r = sqrt(x^2 + y^2), -pi < phi <= pi when (x, y) != (0, 0)).
* ``np.angle(z)``: element-wise ``atan2(Im z, Re z)``.
* DataFrame arithmetic ``df op df``, ``df op scalar``, ``scalar op df`` (op in + - * /): element-wise per column; two frames must have
  the same columns in the same order and the same length (side obligation); the result is a new frame (pandas aligns on labels,
  both frames carry the default RangeIndex).
* ``open(path, mode, encoding=...)``: returns an opaque text-file handle.  Nothing is assumed about the content; the handle only
  carries its path, whether it is closed, and a *read position counter* (a 0-d integer cell on the engine heap) that callee
  contracts of reader functions (``read_neighbors``) advance: "consecutive calls on the same handle deliver consecutive
  frames".  ``handle.close()`` marks the handle closed (a reader contract requires an open handle).
"""
from __future__ import annotations

from .. import arr as A
from .. import sv
from ..interp import LibFunc, PyRaise, Ref
from ..state import Content, cur
from ..sv import Cx, EngineError, norm


def _arctan2(interp, y, x, **kw):
    from ..lib import _arr
    y, x = norm(y), norm(x)
    if sv.is_scalar(y) and sv.is_scalar(x):
        return sv.atan2(y, x)
    ya = y if sv.is_scalar(y) else _arr(y, interp)
    xa = x if sv.is_scalar(x) else _arr(x, interp)
    return A.ew(sv.atan2, ya, xa, dtype="float")


def _angle_scalar(v):
    v = norm(v)
    if isinstance(v, Cx):
        return sv.atan2(v.im, v.re)
    return sv.atan2(0, v)


def _angle(interp, z, **kw):
    from ..lib import _arr
    z = norm(z)
    if sv.is_scalar(z):
        return _angle_scalar(z)
    return A.ew(_angle_scalar, _arr(z, interp), dtype="float")


FILE_KIND = "file"


def open_handle(interp, path, mode="r", *a, **k):
    """opaque handle: heap cell of kind 'file' {path, mode, closed, pos: 0-d int array cell (number of frames consumed)}"""
    if not isinstance(path, str):
        raise EngineError("open() of a symbolic path")
    pos = A.new_arr((), lambda idx: 0, "int")
    cur().heap[pos.sid].meta["dtype"] = "int"
    sid = cur().alloc(Content(FILE_KIND, {"path": path, "mode": mode, "closed": False, "pos": pos, "opaque": True}))
    cur().trace.append(("open", path, mode, cur().where))
    return Ref(sid, FILE_KIND)


def handle_info(h):
    if not (isinstance(h, Ref) and h.kind == FILE_KIND):
        return None
    d = cur().heap[h.sid].data
    if not (isinstance(d, dict) and d.get("opaque")):
        return None
    return d


def _df_binop(lib, prev):
    def value_binop(interp, op, a, b):
        from ..pandas_model import df_content, new_df
        da = isinstance(a, Ref) and a.kind == "df"
        db = isinstance(b, Ref) and b.kind == "df"
        if not (da or db) or op not in ("+", "-", "*", "/"):
            return prev(interp, op, a, b)
        if (not da and not sv.is_scalar(norm(a))) or (not db and not sv.is_scalar(norm(b))):
            return prev(interp, op, a, b)
        ca = df_content(a) if da else None
        cb = df_content(b) if db else None
        ref = ca or cb
        if da and db:
            if list(ca["order"]) != list(cb["order"]):
                raise EngineError("DataFrame arithmetic on frames with different columns")
            A.require_dim_eq(ca["n"], cb["n"], "dataframe-arithmetic-equal-length")
        cols = {}
        for name in ref["order"]:
            x = ca["cols"][name] if da else a
            y = cb["cols"][name] if db else b
            cols[name] = A.binop(op, x, y)
        return new_df(cols, ref["order"], ref["n"])
    return value_binop


def _symset_eq(lib, prev):
    """len({e(i) for i in <symbolic range>}) == 1 when the element term does not depend on the index (and the range is non-empty):
    the set then has exactly one element.  Any other use stays outside the model (EngineError -> UNDECIDED)."""
    def value_eq(interp, a, b):
        from ..lib import SymSetLen
        if isinstance(b, SymSetLen) and not isinstance(a, SymSetLen):
            a, b = b, a
        if isinstance(a, SymSetLen) and sv.is_conc(norm(b)) and int(norm(b)) == 1:
            seq = a.s.seq if hasattr(a.s, "seq") else None
            if seq is not None:
                p, q = sv.fresh_int("sp"), sv.fresh_int("sq")
                same = interp.py_eq(seq.fn(p), seq.fn(q))
                if isinstance(same, sv.SV):
                    import z3
                    same = True if z3.is_true(z3.simplify(sv.zb(same))) else same
                if same is True and interp.decide(sv.cmp(">=", seq.length, 1)):
                    return True
            raise EngineError("len(set(symbolic sequence)) == 1 with index-dependent elements")
        return prev(interp, a, b)
    return value_eq


def register(lib):
    from .. import lib as L
    from .. import text as T
    lib.value_eq = _symset_eq(lib, lib.value_eq)
    lib.value_binop = _df_binop(lib, lib.value_binop)
    lib.np["arctan2"] = LibFunc("np.arctan2", _arctan2)
    lib.np["angle"] = LibFunc("np.angle", _angle)
    if not getattr(T.open_file, "_c10", False):
        prev_open = T.open_file
        prev_method = T.file_method

        def open_file(interp, path, mode="r", **kw):
            m = mode if isinstance(mode, str) else "r"
            reg = getattr(cur(), "files", None) or {}
            key = path if isinstance(path, str) else repr(path)
            if "w" in m or "a" in m or key in reg:
                return prev_open(interp, path, mode)
            # a file opened for reading that no contract gave a line model: the opaque frame-counting handle of this module
            return open_handle(interp, path, mode)
        open_file._c10 = True

        def file_method(interp, f, meth, args, kwargs):
            d = handle_info(f)
            if d is not None and meth == "close":
                nd = dict(d)
                nd["closed"] = True
                c = cur().heap[f.sid]
                cur().heap[f.sid] = Content(c.kind, nd, c.meta)
                cur().trace.append(("close", d["path"], cur().where))
                return None
            return prev_method(interp, f, meth, args, kwargs)
        # the builtin `open` of lib.py and the file-method dispatcher look these up at call time
        T.open_file = open_file
        T.file_method = file_method
