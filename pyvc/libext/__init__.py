"""Library contracts added per property (ASSUMED, trusted base).  Every module here defines
``register(lib)`` which adds entries to ``lib.np`` (numpy names, e.g. lib.np["histogram"]), ``lib.mods[<module>]``
(other modules: 'math', 'pandas', ...), or ``lib.extern['pkg.mod.name']`` (targets of ``from pkg.mod import name``).

Loaded by pyvc.lib.Lib._build.  The table is built **per property** (`pyvc.vc.lib_for(prop)`, chosen by `unit.prop`):
  * the modules of the *other* properties are loaded first, in sorted order, and may only ADD names (a name that the base
    table or an earlier module already defines is left as it is) and may not install engine hooks;
  * the property's own module is loaded last and may override names and install hooks.
So the contract of a library function that a unit sees is the base contract, or the one its own property states; a contract
written for another property never silently replaces it."""
import importlib
import pkgutil

# global single-element cells through which a libext module may replace an engine default (module, attribute)
HOOK_CELLS = [("pyvc.arr", "SYMBOLIC_MINMAX"), ("pyvc.arr", "MASKED_ROW")]


def _cells():
    out = {}
    for modname, attr in HOOK_CELLS:
        mod = importlib.import_module(modname)
        if hasattr(mod, attr):
            out[f"{modname}.{attr}"] = getattr(mod, attr)
    return out


def set_hooks(hooks):
    for name, cell in _cells().items():
        cell[0] = hooks.get(name)


def _dict_attrs(lib):
    return {k: v for k, v in vars(lib).items() if isinstance(v, dict) and k != "hooks"}


def _snapshot(lib):
    snap = {}
    for k, d in _dict_attrs(lib).items():
        snap[k] = {kk: (dict(vv) if isinstance(vv, dict) else vv) for kk, vv in d.items()}
    return snap


def _keep_additions_only(lib, snap):
    for k, d in _dict_attrs(lib).items():
        old = snap.get(k)
        if old is None:
            continue
        for kk in list(d):
            if kk in old:
                if isinstance(d[kk], dict) and isinstance(old[kk], dict):
                    sub = d[kk]
                    for k3 in list(sub):
                        if k3 in old[kk]:
                            sub[k3] = old[kk][k3]
                else:
                    d[kk] = old[kk]


def load_all(lib, prop=None):
    mods = sorted(pkgutil.iter_modules(__path__), key=lambda x: x.name)
    cells = _cells()
    for c in cells.values():
        c[0] = None
    own = [m for m in mods if m.name == prop]
    for m in [m for m in mods if m.name != prop] + own:
        mod = importlib.import_module(f"{__name__}.{m.name}")
        if not hasattr(mod, "register"):
            continue
        if m.name == prop:
            mod.register(lib)
            lib.hooks = {name: c[0] for name, c in cells.items() if c[0] is not None}
        else:
            snap = _snapshot(lib)
            mod.register(lib)
            _keep_additions_only(lib, snap)
            for c in cells.values():
                c[0] = None
    for c in cells.values():
        c[0] = None
