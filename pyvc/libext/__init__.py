"""Library contracts added per property (ASSUMED, trusted base).  Every module here defines
``register(lib)`` which adds entries to ``lib.np`` (numpy names, e.g. lib.np["histogram"]), ``lib.mods[<module>]``
(other modules: 'math', 'pandas', ...), or ``lib.extern['pkg.mod.name']`` (targets of ``from pkg.mod import name``).
Loaded by pyvc.lib.Lib._build in sorted order."""
import importlib
import pkgutil


def load_all(lib):
    for m in sorted(pkgutil.iter_modules(__path__), key=lambda x: x.name):
        mod = importlib.import_module(f"{__name__}.{m.name}")
        if hasattr(mod, "register"):
            mod.register(lib)
