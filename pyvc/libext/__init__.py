"""Library contracts added per property (ASSUMED, trusted base).  Every module here defines
``register(lib)`` which adds entries to ``lib.np`` (numpy names, e.g. lib.np["histogram"]), ``lib.mods[<module>]``
(other modules: 'math', 'pandas', ...), or ``lib.extern['pkg.mod.name']`` (targets of ``from pkg.mod import name``); some
replace a builtin (``pyvc.lib.BUILTINS``), a dispatcher method of the table (``lib.value_eq`` ...) or an engine default
(the patchable globals listed in ``GLOBALS``).

Loaded by pyvc.lib.Lib._build.  The table is built **per property** (`pyvc.vc.lib_for(prop)`, chosen by `unit.prop`):
  * the modules of the *other* properties are loaded first, in sorted order, and may only ADD names (a name that the base
    table or an earlier module already defines is left as it is); whatever else they patch (builtins, dispatcher methods,
    engine defaults) is reverted;
  * the property's own module is loaded last and may override names and patch engine defaults.
The state of the patchable globals after loading is stored with the table and installed by ``lib.activate()`` before a
unit of that property runs.  So the contract of a library function that a unit sees is the base contract, or the one its own
property states; a contract written for another property never silently replaces it."""
import importlib
import pkgutil

# patchable engine globals: (module, attribute, kind)   kind: cell = one-element list, dict = module-level dict, attr = function
GLOBALS = [
    ("pyvc.arr", "SYMBOLIC_MINMAX", "cell"),
    ("pyvc.arr", "MASKED_ROW", "cell"),
    ("pyvc.lib", "BUILTINS", "dict"),
    ("pyvc.text", "open_file", "attr"),
    ("pyvc.text", "file_method", "attr"),
]
_BASE = {}


def _get(g):
    modname, attr, kind = g
    mod = importlib.import_module(modname)
    if not hasattr(mod, attr):
        return None
    v = getattr(mod, attr)
    if kind == "cell":
        return v[0]
    if kind == "dict":
        return dict(v)
    return v


def _set(g, val):
    modname, attr, kind = g
    mod = importlib.import_module(modname)
    if not hasattr(mod, attr):
        return
    if kind == "cell":
        getattr(mod, attr)[0] = val
    elif kind == "dict":
        d = getattr(mod, attr)
        d.clear()
        d.update(val or {})
    else:
        setattr(mod, attr, val)


def _key(g):
    return f"{g[0]}.{g[1]}"


def set_hooks(hooks):
    """install a table's values of the patchable globals (missing ones: the base values)"""
    for g in GLOBALS:
        k = _key(g)
        _set(g, hooks[k] if k in hooks else _BASE.get(k))


def _snapshot(lib):
    snap = {}
    for k, v in vars(lib).items():
        if k == "hooks":
            continue
        if isinstance(v, dict):
            snap[k] = ("dict", {kk: (dict(vv) if isinstance(vv, dict) else vv) for kk, vv in v.items()})
        else:
            snap[k] = ("attr", v)
    return snap


def _keep_additions_only(lib, snap):
    for k in list(vars(lib)):
        if k == "hooks":
            continue
        v = vars(lib)[k]
        if k not in snap:
            if not isinstance(v, dict):
                delattr(lib, k)        # a dispatcher method patched on the instance by another property's module
            continue
        kind, old = snap[k]
        if kind == "attr" or not isinstance(v, dict):
            setattr(lib, k, old if kind == "attr" else v)
            continue
        for kk in list(v):
            if kk in old:
                if isinstance(v[kk], dict) and isinstance(old[kk], dict):
                    sub = v[kk]
                    for k3 in list(sub):
                        if k3 in old[kk]:
                            sub[k3] = old[kk][k3]
                else:
                    v[kk] = old[kk]


def load_all(lib, prop=None):
    mods = sorted(pkgutil.iter_modules(__path__), key=lambda x: x.name)
    if not _BASE:
        for g in GLOBALS:
            _BASE[_key(g)] = _get(g)
    set_hooks({})
    own = [m for m in mods if m.name == prop]
    for m in [m for m in mods if m.name != prop] + own:
        mod = importlib.import_module(f"{__name__}.{m.name}")
        if not hasattr(mod, "register"):
            continue
        if m.name == prop:
            mod.register(lib)
            continue
        snap = _snapshot(lib)
        gsnap = {_key(g): _get(g) for g in GLOBALS}
        mod.register(lib)
        _keep_additions_only(lib, snap)
        for g in GLOBALS:
            k = _key(g)
            if g[2] == "dict":
                now = _get(g) or {}
                old = gsnap[k] or {}
                merged = dict(old)
                for kk, vv in now.items():
                    if kk not in old:
                        merged[kk] = vv
                _set(g, merged)
            else:
                _set(g, gsnap[k])
    lib.hooks = {_key(g): _get(g) for g in GLOBALS}
    set_hooks({})
