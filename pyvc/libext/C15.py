"""Library contracts assumed for C15 (vector-field measures).  ASSUMED, part of the trusted base.

* ``np.cross(a, b)`` for two 3-vectors (or stacks of 3-vectors on the last axis):
  ``(a1 b2 - a2 b1, a2 b0 - a0 b2, a0 b1 - a1 b0)``; for two 2-vectors the scalar ``a0 b1 - a1 b0``.
* ``open(path, mode, ...)``: an opaque file handle (heap cell of kind "file" carrying path, mode and a read
  position).  Nothing is read through it by the engine: the only consumer in the functions under contract is
  ``read_neighbors``, which is replaced by its callee contract (contracts/C15.py: ``read_neighbors_contract``).
  If the token/file model of pyvc.text provides ``open_file`` it is used instead.
"""
from __future__ import annotations

from .. import arr as A
from .. import sv
from ..interp import LibFunc, Ref
from ..state import Content, cur
from ..sv import EngineError


def _np_cross(interp, a, b, **kw):
    from ..lib import _arr
    if kw:
        raise EngineError("np.cross with axis arguments")
    a, b = _arr(a, interp), _arr(b, interp)
    if a.ndim < 1 or b.ndim < 1:
        raise EngineError("np.cross of scalars")
    da, db = a.shape[-1], b.shape[-1]
    if not (A.dim_conc(da) and A.dim_conc(db)) or da != db or da not in (2, 3):
        raise EngineError("np.cross: last axis must be 2 or 3 on both operands")
    lead = A.broadcast_shapes([a.shape[:-1], b.shape[:-1]]) if (a.ndim > 1 or b.ndim > 1) else ()
    nd = len(lead)
    ma, mb = A._bidx(a.shape[:-1], nd), A._bidx(b.shape[:-1], nd)
    ra, rb = a.reader(), b.reader()
    dt = A.promote(a.dtype, b.dtype)

    def comp(idx, p, q):
        ia, ib = ma(idx), mb(idx)
        return sv.sub(sv.mul(ra(ia + (p,)), rb(ib + (q,))), sv.mul(ra(ia + (q,)), rb(ib + (p,))))

    if da == 2:
        if nd == 0:
            return comp((), 0, 1)
        return A.new_arr(lead, lambda idx: comp(tuple(idx), 0, 1), dt)
    pairs = ((1, 2), (2, 0), (0, 1))

    def fn(idx):
        c = idx[-1]
        vals = [comp(tuple(idx[:-1]), p, q) for p, q in pairs]
        return A._pick(vals, c)
    return A.new_arr(tuple(lead) + (3,), fn, dt)


def _open(interp, path, mode="r", *a, **k):
    from .. import text
    try:
        return text.open_file(interp, path, mode)
    except EngineError as e:
        if "open()" not in str(e):
            raise
    return Ref(cur().alloc(Content("file", {"path": path, "mode": mode, "pos": 0})), "file")


def register(lib):
    from .. import lib as L
    lib.np["cross"] = LibFunc("np.cross", _np_cross)
    L.BUILTINS["open"] = LibFunc("open", _open)
