"""Library contracts assumed for C15 (vector-field measures).  ASSUMED, part of the trusted base.

* ``np.cross(a, b)`` for two 3-vectors (or stacks of 3-vectors on the last axis):
  ``(a1 b2 - a2 b1, a2 b0 - a0 b2, a0 b1 - a1 b0)``; for two 2-vectors the scalar ``a0 b1 - a1 b0``.
* ``open(path, mode, ...)``: an opaque file handle (heap cell of kind "file" carrying path, mode and a read
  position).  Nothing is read through it by the engine: the only consumer in the functions under contract is
  ``read_neighbors``, which is replaced by its callee contract (contracts/C15.py: ``read_neighbors_contract``).
  If the token/file model of pyvc.text provides ``open_file`` it is used instead.

Wide frames (vector_fft_corr).  The base pandas model (pyvc/pandas_model.py) is a record of named columns with the default
RangeIndex.  ``vector_fft_corr`` builds frames whose number of columns is the (symbolic) number of wave vectors / frames, with
integer and float column labels and an explicit index.  They are modelled here as heap cells of kind "wdf":

    {"n": rows, "index": None (RangeIndex 0..n-1) | 1-D array of n row labels,
     "pre": {"cols": {name: 1-D array}, "order": [names]}    leading named columns (each its own cell),
     "block": 2-D array (n, m) | None, "labels": 1-D array of the m column labels of the block}

Behaviour assumed (each item checked against pandas 3.0.6 under /venv/bin/python, see design_notes/C15.md):
* ``pd.DataFrame(c, columns=<1-D array, m labels>, index=<1-D array, n labels>)`` with a real scalar c: an n x m block of c, the given
  labels.  The block is modelled over the reals: pandas keeps a dtype per column (int64 for c = 0) and *replaces* a column that is
  assigned an array of another dtype (no cast of the assigned values to the old dtype), so values are exact; the per-column
  dtype itself is not tracked (it is observable through file formats only).
* ``wf[k] = v`` (k an integer): label k must be one of the block labels (otherwise pandas appends a new column: outside the model,
  side obligation ``wide-setitem:label-present``); label lookup is only modelled for *identity labels* ``labels[j] == j``
  (side obligation ``wide-frame:identity-labels``), so label k is position k; v must be 1-D of length n (pandas raises ValueError
  otherwise: side obligation); column k becomes v, exactly.
* ``wf.index = v``: v must have n entries (pandas raises ValueError otherwise); the row labels become v.
* ``wf.T``: block transposed, row labels <-> column labels.
* ``pd.concat([f1, ..., fk], axis=1)``: pandas aligns the ROWS BY LABEL (outer join of the indexes).  Modelled only for identical
  indexes, which is a side obligation, not an assumption: every frame must have n rows and row label i at position i (a frame with
  the default RangeIndex has that by construction; for an explicit index ``index[i] == i`` is required at a symbolic i,
  ``concat-axis1:index-equal``).  Then row i of the result is row i of every input side by side, the result carries the
  RangeIndex, the columns are those of the inputs in order (only the last input may contribute a block).
* ``wf.round(k)``: element-wise decimal rounding (uninterpreted round<k>) of every float column / the block.
* ``wf.values``: (n, p + m) array, the p named columns followed by the block.  Treated as read-only like ``DataFrame.values`` of the base model
  (pandas 3 returns a fresh writeable array for a frame with several blocks; a store through ``.values`` is therefore reported as a raising
  path by the model and left to the replay - no function under contract does that).
* ``wf.shape``, ``wf.columns`` (only for a frame without block), ``wf[k]`` (column k of the block as a Series).
Anything else on a wide frame is outside the model (EngineError -> UNDECIDED).
"""
from __future__ import annotations

from .. import arr as A
from .. import sv
from ..interp import LibFunc, Ref
from ..state import Content, cur
from ..sv import EngineError


def _np_cross(interp, a, b, **kw):
    from ..lib import _arr
    if kw:
        raise EngineError("np.cross with axis arguments")
    a, b = _arr(a, interp), _arr(b, interp)
    if a.ndim < 1 or b.ndim < 1:
        raise EngineError("np.cross of scalars")
    da, db = a.shape[-1], b.shape[-1]
    if not (A.dim_conc(da) and A.dim_conc(db)) or da != db or da not in (2, 3):
        raise EngineError("np.cross: last axis must be 2 or 3 on both operands")
    lead = A.broadcast_shapes([a.shape[:-1], b.shape[:-1]]) if (a.ndim > 1 or b.ndim > 1) else ()
    nd = len(lead)
    ma, mb = A._bidx(a.shape[:-1], nd), A._bidx(b.shape[:-1], nd)
    ra, rb = a.reader(), b.reader()
    dt = A.promote(a.dtype, b.dtype)

    def comp(idx, p, q):
        ia, ib = ma(idx), mb(idx)
        return sv.sub(sv.mul(ra(ia + (p,)), rb(ib + (q,))), sv.mul(ra(ia + (q,)), rb(ib + (p,))))

    if da == 2:
        # numpy >= 2.5 rejects 2-vectors (deprecated since 2.0): "Both input arrays must be (arrays of) 3-dimensional vectors"
        from ..interp import PyRaise
        raise PyRaise("ValueError", "np.cross: both input arrays must be (arrays of) 3-dimensional vectors")
    pairs = ((1, 2), (2, 0), (0, 1))

    def fn(idx):
        c = idx[-1]
        vals = [comp(tuple(idx[:-1]), p, q) for p, q in pairs]
        return A._pick(vals, c)
    return A.new_arr(tuple(lead) + (3,), fn, dt)


def _open(interp, path, mode="r", *a, **k):
    from .. import text
    try:
        return text.open_file(interp, path, mode)
    except EngineError as e:
        if "open()" not in str(e):
            raise
    return Ref(cur().alloc(Content("file", {"path": path, "mode": mode, "pos": 0})), "file")


# ------------------------------------------------------------------------------------------------------------------
# wide frames (module docstring)

WIDE = "wdf"


class WideRef(Ref):
    """reference to a wide-frame cell; attribute / item protocol of pyvc.lib (pyvc_getattr, pyvc_setattr, pyvc_getitem, pyvc_setitem)"""

    def pyvc_getattr(self, interp, name):
        return wide_attr(interp, self, name)

    def pyvc_setattr(self, interp, name, value):
        return wide_setattr(interp, self, name, value)

    def pyvc_getitem(self, interp, key):
        return wide_getitem(interp, self, key)

    def pyvc_setitem(self, interp, key, value):
        return wide_setitem(interp, self, key, value)


def new_wide(n, index, pre_cols, pre_order, block, labels):
    """fresh wide-frame cell; every array is copied into a cell of its own"""
    pre = {"cols": {k: A.copy(pre_cols[k]) for k in pre_order}, "order": list(pre_order)}
    data = {"n": n, "index": None if index is None else A.copy(index), "pre": pre,
            "block": None if block is None else A.copy(block), "labels": None if labels is None else A.copy(labels)}
    return WideRef(cur().alloc(Content(WIDE, data)), WIDE)


def wide_content(w):
    return cur().heap[w.sid].data


def _is_wide(v):
    return isinstance(v, Ref) and v.kind == WIDE


def _label_array(interp, v, what):
    """1-D array of labels (np.arange(...), a numeric array, a range)"""
    from ..lib import RangeVal, SeriesVal, _arr
    v = sv.norm(v)
    if isinstance(v, RangeVal):
        if not (sv.is_conc(v.step) and v.step == 1):
            raise EngineError(f"{what}: range with a step")
        lo, n = v.start, v.length()
        return A.new_arr((n,), lambda idx: A.simp(sv.add(lo, idx[0])), "int")
    if isinstance(v, SeriesVal):
        v = v.arr
    a = _arr(v, interp)
    if a.ndim != 1 or a.dtype not in ("int", "float"):
        raise EngineError(f"{what}: a 1-D numeric label array is required")
    return a


def _dataframe_ctor(prev):
    def ctor(interp, data=None, index=None, columns=None, dtype=None, **kw):
        cols = sv.norm(columns)
        wide = isinstance(cols, A.Arr) and cols.ndim == 1 and not A.dim_conc(cols.shape[0])
        if not wide:
            return prev(interp, data, index=index, columns=columns, dtype=dtype, **kw)
        c = sv.norm(data)
        if dtype is not None or kw or not sv.is_scalar(c) or c is None or isinstance(c, (sv.Cx, bool, str)) or (isinstance(c, sv.SV) and c.is_bool):
            raise EngineError("wide DataFrame: only pd.DataFrame(<real scalar>, columns=<1-D array>, index=<1-D array>) is modelled")
        if index is None:
            raise EngineError("wide DataFrame(scalar) needs an index")
        labels = _label_array(interp, cols, "DataFrame(columns=...)")
        idx = _label_array(interp, index, "DataFrame(index=...)")
        n, m = idx.shape[0], labels.shape[0]
        for x in (n, m):
            if not sv.is_conc(x):
                cur().require(sv.cmp(">=", x, 0), "nonneg-dim")
        cv = sv.to_real(c)
        block = A.new_arr((n, m), lambda ix, cv=cv: cv, "float")
        return new_wide(n, idx, {}, [], block, labels)
    return ctor


def _require_identity_labels(labels, what="wide-frame:identity-labels"):
    m = labels.shape[0]
    j = sv.fresh_int("lb")
    cur().require(sv.implies(sv.and_(sv.cmp(">=", j, 0), sv.cmp("<", j, m)), sv.cmp("==", labels.get((j,)), j)), what)


def _label_position(c, key):
    """position of the block column with label `key` (identity labels only)"""
    k = sv.norm(key)
    if isinstance(k, A.Arr) and k.shape == ():
        k = k.get(())
    if not sv.is_scalar(k) or isinstance(k, (str, bool, sv.Cx)) or k is None or (isinstance(k, sv.SV) and not k.is_int) \
            or (isinstance(k, sv.Fraction) and k.denominator != 1):
        raise EngineError("wide frame: only integer column labels are modelled for item access")
    if c["block"] is None:
        raise EngineError("wide frame without a block")
    _require_identity_labels(c["labels"])
    return int(k) if sv.is_conc(k) else k


def wide_setitem(interp, w, key, value):
    from ..lib import SeriesVal, _arr
    c = wide_content(w)
    k = _label_position(c, key)
    m = c["labels"].shape[0]
    # a label that is not present would make pandas append a new column
    cur().require(sv.and_(sv.cmp(">=", k, 0), sv.cmp("<", k, m)), "wide-setitem:label-present")
    v = sv.norm(value)
    if isinstance(v, SeriesVal):
        raise EngineError("wide frame: a Series assigned to a column is aligned on its index (not modelled)")
    if sv.is_scalar(v):
        if isinstance(v, (sv.Cx, str)) or v is None:
            raise EngineError("wide frame: column value")
        col = sv.to_real(v)
    else:
        a = _arr(v, interp)
        if a.ndim != 1 or a.dtype not in ("int", "float", "bool"):
            raise EngineError("wide frame: a 1-D real array is required as column value")
        A.require_dim_eq(a.shape[0], c["n"], "wide-setitem:length-of-values=number-of-rows")
        col = A.astype(a, "float") if a.dtype != "float" else a
    A.setitem(c["block"], (slice(None), k), col)
    cur().events.append(("df-setcol", w.sid, k, cur().where, list(cur().pc)))


def wide_getitem(interp, w, key):
    from ..lib import SeriesVal
    c = wide_content(w)
    if isinstance(key, str):
        if key in c["pre"]["cols"]:
            return SeriesVal(c["pre"]["cols"][key], key)
        raise PyRaiseKeyError(key)
    k = _label_position(c, key)
    m = c["labels"].shape[0]
    cur().require(sv.and_(sv.cmp(">=", k, 0), sv.cmp("<", k, m)), "wide-getitem:label-present")
    return SeriesVal(A.getitem(c["block"], (slice(None), k)), None)


def PyRaiseKeyError(k):
    from ..interp import PyRaise
    return PyRaise("KeyError", repr(k))


def wide_setattr(interp, w, name, value):
    c = wide_content(w)
    if name != "index":
        raise EngineError(f"wide frame: assignment to attribute {name!r}")
    idx = _label_array(interp, value, "DataFrame.index = ...")
    # pandas: ValueError("Length mismatch") unless the new index has one label per row
    A.require_dim_eq(idx.shape[0], c["n"], "wide-index-assignment:length=number-of-rows")
    d = dict(c)
    d["index"] = A.copy(idx)
    cell = cur().heap[w.sid]
    cur().heap[w.sid] = Content(WIDE, d, cell.meta)
    cur().events.append(("setattr", w.sid, "index", cur().where, list(cur().pc)))


def _index_labels(c):
    """row labels as a 1-D array"""
    if c["index"] is not None:
        return c["index"]
    return A.new_arr((c["n"],), lambda idx: idx[0], "int")


def wide_transpose(w):
    c = wide_content(w)
    if c["pre"]["order"] or c["block"] is None:
        raise EngineError("wide frame: .T of a frame with named columns")
    return new_wide(c["labels"].shape[0], c["labels"], {}, [], A.transpose(c["block"]), _index_labels(c))


def wide_round(w, k):
    from ..pandas_model import _round_cols
    c = wide_content(w)
    pre = _round_cols(c["pre"]["cols"], c["pre"]["order"], k)
    block = c["block"]
    if block is not None and block.dtype in ("float", "complex"):
        r = block.reader()
        block = A.new_arr(block.shape, lambda idx, r=r: sv.round_dec(r(idx), k), block.dtype)
    return new_wide(c["n"], c["index"], pre, c["pre"]["order"], block, c["labels"])


def wide_values(w):
    c = wide_content(w)
    order = c["pre"]["order"]
    p = len(order)
    readers = [c["pre"]["cols"][k].reader() for k in order]
    dts = [c["pre"]["cols"][k].dtype for k in order]
    block = c["block"]
    m = 0
    br = None
    if block is not None:
        br, m = block.reader(), block.shape[1]
        dts.append(block.dtype)
    dt = A.promote(*dts) if dts else "float"

    def fn(idx):
        i, j = idx
        if sv.is_conc(j):
            j = int(j)
            if j < p:
                return A._cast(readers[j]((i,)), dt)
            return A._cast(br((i, j - p)), dt)
        out = (lambda: A._cast(br((i, A.simp(sv.sub(j, p)))), dt)) if br is not None else None
        for q in range(p - 1, -1, -1):
            val = (lambda q=q: A._cast(readers[q]((i,)), dt))
            out = val if out is None else (lambda q=q, val=val, nxt=out: sv.ite(sv.cmp("==", j, q), val, nxt))
        return out()
    return A.new_arr((c["n"], A.simp(sv.add(p, m))), fn, dt, readonly=True)


def wide_attr(interp, w, name):
    c = wide_content(w)
    if name == "T":
        return wide_transpose(w)
    if name == "values":
        return wide_values(w)
    if name == "shape":
        m = c["block"].shape[1] if c["block"] is not None else 0
        return (c["n"], A.simp(sv.add(len(c["pre"]["order"]), m)))
    if name == "index":
        return _index_labels(c)
    if name == "columns":
        if c["block"] is None:
            from ..interp import new_list
            return new_list(list(c["pre"]["order"]))
        if not c["pre"]["order"]:
            return c["labels"]
        raise EngineError("wide frame: .columns of a frame with named columns and a block")
    if name == "round":
        return LibFunc("DataFrame.round", lambda i, k=0, *a, **kw: wide_round(w, int(sv.norm(k))))
    if name == "copy":
        return LibFunc("DataFrame.copy", lambda i, *a, **kw: new_wide(c["n"], c["index"], c["pre"]["cols"], c["pre"]["order"], c["block"], c["labels"]))
    raise EngineError(f"wide frame: attribute {name!r} is outside the model")


def _pd_concat(interp, objs=None, axis=0, **kw):
    """pd.concat([...], axis=1) for frames with identical indexes (module docstring)"""
    from ..pandas_model import df_content
    if kw:
        raise EngineError(f"pd.concat: keyword {sorted(kw)[0]!r} is not modelled")
    ax = sv.norm(axis)
    if not (sv.is_conc(ax) and int(ax) == 1):
        raise EngineError("pd.concat: only axis=1 is modelled")
    items = interp.iter_concrete(objs)
    if not items:
        from ..interp import PyRaise
        raise PyRaise("ValueError", "No objects to concatenate")
    n = None
    cols, order, block, labels = {}, [], None, None
    st = cur()
    for pos, it in enumerate(items):
        if block is not None:
            raise EngineError("pd.concat(axis=1): a frame after a wide block is not modelled")
        if isinstance(it, Ref) and it.kind == "df":
            c = df_content(it)
            ni, idx, pc, po, bl, lb = c["n"], None, c["cols"], c["order"], None, None
        elif _is_wide(it):
            c = wide_content(it)
            ni, idx, pc, po, bl, lb = c["n"], c["index"], c["pre"]["cols"], c["pre"]["order"], c["block"], c["labels"]
        else:
            raise EngineError("pd.concat of something that is not a DataFrame")
        if n is None:
            n = ni
        else:
            # rows are aligned on their labels: all indexes must be the labels 0..n-1 in order
            A.require_dim_eq(ni, n, "concat-axis1:equal-number-of-rows")
        if idx is not None:
            i = sv.fresh_int("ci")
            st.require(sv.implies(sv.and_(sv.cmp(">=", i, 0), sv.cmp("<", i, ni)), sv.cmp("==", idx.get((i,)), i)), "concat-axis1:index-equal")
        for k in po:
            if k in cols:
                raise EngineError(f"pd.concat(axis=1): duplicate column label {k!r}")
            cols[k] = pc[k]
            order.append(k)
        block, labels = bl, lb
    return new_wide(n, None, cols, order, block, labels)


def register(lib):
    from .. import lib as L
    lib.np["cross"] = LibFunc("np.cross", _np_cross)
    L.BUILTINS["open"] = LibFunc("open", _open)
    pdm = lib.mods["pandas"]
    if not getattr(pdm["DataFrame"], "_c15_wide", False):
        f = LibFunc("pd.DataFrame", _dataframe_ctor(pdm["DataFrame"].fn))
        f._c15_wide = True
        pdm["DataFrame"] = f
    pdm["concat"] = LibFunc("pd.concat", _pd_concat)
