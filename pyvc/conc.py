"""Concrete backend with the same function names as pyvc.sv, over python floats / complex.
Used by replay (contracts evaluate their spec functions concretely against the real code)."""
from __future__ import annotations

import cmath
import math


def add(a, b):
    return a + b


def sub(a, b):
    return a - b


def mul(a, b):
    return a * b


def div(a, b):
    return a / b


def neg(a):
    return -a


def power(a, e):
    if isinstance(e, float) and e.is_integer() and abs(e) < 64:
        e = int(e)
    return a ** e


def sqrt(a):
    return math.sqrt(a)


def exp(a):
    return cmath.exp(a) if isinstance(a, complex) else math.exp(a)


def log(a):
    return math.log(a)


def cos(a):
    return math.cos(a)


def sin(a):
    return math.sin(a)


def arccos(a):
    return math.acos(max(-1.0, min(1.0, a)))


def atan2(y, x):
    return math.atan2(y, x)


def absv(a):
    return abs(a)


def ite(c, a, b):
    r = a if c else b
    return r() if callable(r) else r


def cmp(op, a, b):
    return {"<": a < b, "<=": a <= b, ">": a > b, ">=": a >= b, "==": a == b, "!=": a != b}[op]


def and_(*v):
    return all(v)


def or_(*v):
    return any(v)


def not_(v):
    return not v


def implies(a, b):
    return (not a) or b


def minv(a, b):
    return min(a, b)


def maxv(a, b):
    return max(a, b)


def rint(v):
    return float(round(v))   # python round: half to even


def rint_int(v):
    return int(round(v))


def trunc(v):
    return int(v)


def floor(v):
    return math.floor(v)


def to_real(v):
    return float(v) if not isinstance(v, complex) else v


def conj(v):
    return v.conjugate() if isinstance(v, complex) else v


def re(v):
    return v.real if isinstance(v, complex) else v


def im(v):
    return v.imag if isinstance(v, complex) else 0.0


def cx(re_, im_):
    return complex(re_, im_)


def Sum(lo, hi, f):
    acc = 0
    for t in range(int(lo), int(hi)):
        acc = acc + f(t)
    return acc


def round_dec(v, k):
    return round(v, k)


PI = math.pi


def close(a, b, rel=1e-9, abs_=1e-12):
    """float comparison used by replays (relative tolerance unless the clause is exact)"""
    if isinstance(a, complex) or isinstance(b, complex):
        return abs(a - b) <= max(abs_, rel * max(abs(a), abs(b)))
    if a == b:
        return True
    if math.isnan(a) or math.isnan(b):
        return False
    return abs(a - b) <= max(abs_, rel * max(abs(a), abs(b)))
