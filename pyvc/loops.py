"""Loop rule.

* concrete iteration space: unrolled (every iteration is executed);
* symbolic ``for i in range(lo, hi)`` / ``for x in <symbolic-length sequence>``: the loop is
  replaced by a *closed-form summary* state(i) that is checked inductively:
      init:  state(lo)  == pre-state
      step:  executing the body once from state(i) (lo <= i < hi) yields state(i+1)
  and the post-state is state(hi).  The summary comes from the sidecar (written) or is synthesised
  from one symbolic execution of the body from a havocked state for the shapes
      v = v + δ(i)                (sum)
      A[idx] = A[idx] + δ(i,idx)  (element-wise accumulation / scatter-add)
      A[g(i)] = e(i)              (scatter store with affine injective g: i + c)
      v = e(i)                    (last value)
      L.append(e(i))              (sequence)
  Both kinds are checked by the same SMT obligations (`loop:init`, `loop:step`), so soundness does not
  rest on how the summary was found.
"""
from __future__ import annotations

import ast

import z3

from . import arr as A
from . import sv
from .interp import Fork, Frame, PyRaise, Ref, _Break, _Continue, _Return
from .sigma import Sum
from .state import Content, cur, use_state
from .sv import SV, Cx, EngineError, is_conc, ite, norm


def _iter_space(interp, s, frame):
    """-> ('conc', items) | ('sym', lo, hi, item_fn)"""
    from .lib import RangeVal
    itv = interp.eval(s.iter, frame)
    if isinstance(itv, RangeVal):
        if itv.concrete():
            return ("conc", list(itv.to_range()))
        if not (is_conc(itv.step) and itv.step == 1):
            raise EngineError("symbolic range with step")
        return ("sym", itv.start, itv.stop, lambda i: i)
    sym = interp.symbolic_iter(itv)
    if sym is not None:
        n, item = sym
        return ("sym", 0, n, item)
    return ("conc", interp.iter_concrete(itv))


def exec_loop_single(interp, s, frame):
    """loop inside single-path context (nested function / loop body): concrete spaces are unrolled,
    symbolic loops use the summary rule; forks propagate."""
    if isinstance(s, ast.While):
        return _while_single(interp, s, frame)
    space = _iter_space(interp, s, frame)
    if space[0] == "conc":
        for it in space[1]:
            interp.assign(s.target, it, frame)
            try:
                interp.exec_body_single(s.body, frame)
            except _Break:
                return
            except _Continue:
                continue
        if s.orelse:
            interp.exec_body_single(s.orelse, frame)
        return
    _symbolic_for(interp, s, frame, cur(), space)


def _while_single(interp, s, frame):
    n = 0
    while True:
        c = interp.decide(interp.eval(s.test, frame))
        if not c:
            break
        try:
            interp.exec_body_single(s.body, frame)
        except _Break:
            return
        except _Continue:
            pass
        n += 1
        if n > 10000:
            raise EngineError("while loop does not terminate in the engine")


def exec_loop_paths(interp, s, frame, state):
    if isinstance(s, ast.While):
        return _while_paths(interp, s, frame, state)
    fr0, st0 = frame.clone(), state.fork()
    try:
        with use_state(state):
            state.where = f"{frame.fname}:{s.lineno}"
            space = _iter_space(interp, s, frame)
    except Fork as f:
        return interp._split(f, fr0, st0, lambda fr, st: exec_loop_paths(interp, s, fr, st), 0)
    except PyRaise as e:
        return [(frame, state, ("raise", e.exc_type, e.msg))]
    if space[0] == "conc":
        paths = [(frame, state)]
        results = []
        for it in space[1]:
            nxt = []
            for fr, st in paths:
                with use_state(st):
                    interp.assign(s.target, it, fr)
                for fr2, st2, out in interp.exec_block_paths(s.body, fr, st):
                    if out[0] in ("normal", "continue"):
                        nxt.append((fr2, st2))
                    elif out[0] == "break":
                        results.append((fr2, st2, ("normal",)))
                    else:
                        results.append((fr2, st2, out))
            paths = nxt
        for fr, st in paths:
            if s.orelse:
                results.extend(interp.exec_block_paths(s.orelse, fr, st))
            else:
                results.append((fr, st, ("normal",)))
        return results
    try:
        with use_state(state):
            _symbolic_for(interp, s, frame, state, space)
    except Fork as f:
        # an undecided condition about the loop bounds (zero-trip test): split the path and redo the loop on both sides
        return interp._split(f, fr0, st0, lambda fr, st: exec_loop_paths(interp, s, fr, st), 0)
    except PyRaise as e:
        return [(frame, state, ("raise", e.exc_type, e.msg))]
    return [(frame, state, ("normal",))]


def _while_paths(interp, s, frame, state):
    hint = interp.loop_hints.get((frame.fname, "while", s.lineno)) or interp.loop_hints.get((frame.fname, "while"))
    if hint is not None:
        return hint(interp, s, frame, state)
    # bounded unrolling of a while loop with concretely decidable tests
    paths = [(frame, state)]
    results = []
    for _ in range(10000):
        if not paths:
            break
        nxt = []
        for fr, st in paths:
            with use_state(st):
                try:
                    c = interp.decide(interp.eval(s.test, fr))
                except Fork:
                    raise EngineError("while loop with symbolic test needs a written summary")
            if not c:
                results.append((fr, st, ("normal",)))
                continue
            for fr2, st2, out in interp.exec_block_paths(s.body, fr, st):
                if out[0] in ("normal", "continue"):
                    nxt.append((fr2, st2))
                elif out[0] == "break":
                    results.append((fr2, st2, ("normal",)))
                else:
                    results.append((fr2, st2, out))
        paths = nxt
    if paths:
        raise EngineError("while loop: iteration bound exceeded")
    return results


# ----------------------------------------------------------------------------------------------
# symbolic for-loops


def _assigned_names(stmts):
    names = set()
    for n in ast.walk(ast.Module(body=list(stmts), type_ignores=[])):
        if isinstance(n, ast.Name) and isinstance(n.ctx, (ast.Store, ast.Del)):
            names.add(n.id)
    return names


class LoopObligation:
    def __init__(self, kind, goal, assumptions, where):
        self.kind, self.goal, self.assumptions, self.where = kind, goal, assumptions, where


def _havoc_value(v, tag, heap_updates):
    """fresh unconstrained value of the same 'shape' as v"""
    v = norm(v)
    if isinstance(v, Cx):
        return Cx(sv.fresh_real(tag + "re"), sv.fresh_real(tag + "im"))
    if isinstance(v, bool):
        return sv.fresh_bool(tag)
    if isinstance(v, int):
        return sv.fresh_int(tag)
    if isinstance(v, sv.Fraction):
        return sv.fresh_real(tag)
    if isinstance(v, SV):
        return sv.fresh_bool(tag) if v.is_bool else (sv.fresh_int(tag) if v.is_int else sv.fresh_real(tag))
    return v


def _havoc_array_content(shape, dtype, tag):
    nd = len(shape)
    if dtype == "complex":
        fre = z3.Function(sv.fresh_name(tag + "re"), *([z3.IntSort()] * nd), z3.RealSort()) if nd else None
        fim = z3.Function(sv.fresh_name(tag + "im"), *([z3.IntSort()] * nd), z3.RealSort()) if nd else None
        if nd == 0:
            c = Cx(sv.fresh_real(tag), sv.fresh_real(tag))
            return lambda idx: c
        return lambda idx: Cx(SV(fre(*[sv.znum(i) for i in idx])), SV(fim(*[sv.znum(i) for i in idx])))
    sort = {"float": z3.RealSort(), "int": z3.IntSort(), "bool": z3.BoolSort()}.get(dtype)
    if sort is None:
        raise EngineError(f"havoc of array dtype {dtype}")
    if nd == 0:
        c = SV(z3.Const(sv.fresh_name(tag), sort))
        return lambda idx: c
    f = z3.Function(sv.fresh_name(tag), *([z3.IntSort()] * nd), sort)
    return lambda idx: SV(f(*[sv.znum(i) for i in idx]))


def _contains_any(term, consts_ids, funcs_names):
    """does a z3 term mention any of the given constants (by ast id) or function symbols (by name)?"""
    seen = set()
    stack = [term]
    while stack:
        e = stack.pop()
        i = e.get_id()
        if i in seen:
            continue
        seen.add(i)
        if z3.is_app(e):
            d = e.decl()
            if d.kind() == z3.Z3_OP_UNINTERPRETED:
                if d.arity() == 0 and i in consts_ids:
                    return True
                if d.arity() > 0 and d.name() in funcs_names:
                    return True
                # Σ-functions: look into their definition bodies is unnecessary: parameters are explicit args
            stack.extend(e.children())
    return False


def _terms_of(v):
    v = norm(v)
    if isinstance(v, Cx):
        return [t for p in (v.re, v.im) for t in _terms_of(p)]
    if isinstance(v, SV):
        return [v.t]
    return []


def _subst_val(v, pairs):
    v = norm(v)
    if isinstance(v, Cx):
        return Cx(_subst_val(v.re, pairs), _subst_val(v.im, pairs))
    if isinstance(v, SV):
        return sv.wrap(z3.simplify(z3.substitute(v.t, *pairs)))
    return v


def _symbolic_for(interp, s, frame, state, space, promoted=None):
    """apply the summary rule in place (frame/state are updated to the post-state)"""
    _, lo, hi, item_fn = space
    st = state
    where = f"{frame.fname}:{s.lineno}"
    key = (frame.fname, "for", _loop_ordinal(frame, s))
    # zero-trip: split on hi <= lo unless decided
    nonempty = interp.decide(sv.cmp(">", hi, lo))
    if not nonempty:
        if s.orelse:
            interp.exec_body_single(s.orelse, frame)
        return
    written = interp.loop_hints.get(key)
    if written is not None:
        return written(interp, s, frame, st, lo, hi, item_fn)
    side_mark = len(st.side)
    modified = sorted(_assigned_names(s.body) | _assigned_names([ast.Assign(targets=[s.target], value=ast.Constant(0))]))
    target_names = _assigned_names([ast.Assign(targets=[s.target], value=ast.Constant(0))])
    pre_env = dict(frame.env)
    pre_heap = dict(st.heap)
    # ---- dry run from a havocked state to discover what the body does
    i = sv.fresh_int("i")
    hv_consts = set()
    hv_funcs = set()

    def run_body(env_in, heap_in, ivar, extra_assume):
        fr = Frame(frame.module, dict(env_in), frame.fname)
        st2 = st.fork()
        st2.heap = dict(heap_in)
        st2.pc = list(st.pc) + [sv.zb(sv.cmp(">=", ivar, lo)), sv.zb(sv.cmp("<", ivar, hi))] + list(extra_assume)
        st2.events = []
        with use_state(st2):
            interp.assign(s.target, item_fn(ivar), fr)
            outs = interp.exec_block_paths(s.body, fr, st2)
        return outs

    # havoc scalars that are loop-carried (assigned in body and live-in)
    env_h = dict(pre_env)
    scal_h = {}
    for name in modified:
        if name in target_names:
            continue
        if name in pre_env:
            v = pre_env[name]
            if sv.is_scalar(norm(v)):
                hvv = _havoc_value(v, "h_" + name, None)
                env_h[name] = hvv
                scal_h[name] = hvv
                for t in _terms_of(hvv):
                    hv_consts.add(t.get_id())
    # arrays / lists / objects possibly stored into: discover by a first run with *no* heap havoc, record store events
    outs = run_body(env_h, pre_heap, i, [])
    normal = [(fr, st2) for fr, st2, out in outs if out[0] in ("normal", "continue")]
    abnormal = [(fr, st2, out) for fr, st2, out in outs if out[0] not in ("normal", "continue")]
    if len(normal) > 1:
        normal = [merge_paths(normal, lenient=promoted is None)]
    if abnormal:
        kinds = sorted({o[2][0] + (":" + str(o[2][1]) if o[2][0] == "raise" else "") for o in abnormal})
        # a body path that raises/returns/breaks: the raise must be infeasible; handled as a side obligation
        for fr, st2, out in abnormal:
            if out[0] == "raise":
                st.side.append(_side_infeasible(st2, f"loop-body-raises:{out[1]}", where))
            else:
                raise EngineError(f"loop body leaves the loop ({kinds}) — needs a written summary")
    if len(normal) != 1:
        raise EngineError("loop body has no normal path")
    fr1, st1 = normal[0]
    # ---- accumulators initialised with a number (or an integer frame column) that the first iteration turns into an array
    # (``acc = 0; for ...: acc += <array>``): summarise from the promoted pre-state, base case checked after iteration lo
    if promoted is None and _promotion_signals(pre_env, pre_heap, scal_h, fr1, st1):
        side0 = len(st.side)
        outs_p = run_body(pre_env, pre_heap, A.simp(norm(lo)), [])
        normal_p = [(fr, st2) for fr, st2, out in outs_p if out[0] in ("normal", "continue")]
        for fr, st2, out in outs_p:
            if out[0] == "raise":
                st.side.append(_side_infeasible(st2, f"loop-body-raises:{out[1]}", where))
            elif out[0] not in ("normal", "continue"):
                raise EngineError("loop body leaves the loop in its first iteration")
        if not normal_p:
            raise EngineError("first loop iteration has no normal path")
        fr_p, st_p = merge_paths(normal_p, lenient=True) if len(normal_p) > 1 else normal_p[0]
        keep_side = st.side[side0:]
        del st.side[side_mark:]
        prom = _promote(pre_env, pre_heap, fr_p, st_p, st)
        if prom is not None:
            env2, gmap = prom
            frame.env.clear()
            frame.env.update(env2)
            r = _symbolic_for(interp, s, frame, state, space, promoted=(fr_p, st_p, gmap, pre_env, pre_heap))
            st.side.extend(keep_side)
            return r
    touched = sorted({sid for sid in st1.heap if sid in pre_heap and st1.heap[sid] is not pre_heap[sid]})
    heap_h = dict(pre_heap)
    arr_h = {}
    other_touched = []
    for sid in touched:
        c = pre_heap[sid]
        if c.kind == "arr":
            shape = c.meta["shape"]
            dt = _dtype_of_sid(pre_env, sid, st, c)
            fn = _havoc_array_content(shape, dt, f"H{sid}_")
            heap_h[sid] = Content("arr", fn, c.meta)
            arr_h[sid] = (shape, dt, fn)
        else:
            other_touched.append(sid)
    # names of havoc functions
    for sid, (shape, dt, fn) in arr_h.items():
        probe = fn(tuple(sv.fresh_int("p") for _ in shape)) if shape else fn(())
        for t in _terms_of(probe):
            if z3.is_app(t) and t.decl().arity() > 0:
                hv_funcs.add(t.decl().name())
            else:
                hv_consts.add(t.get_id())
    if arr_h or other_touched:
        outs = run_body(env_h, heap_h, i, [])
        normal = [(fr, st2) for fr, st2, out in outs if out[0] in ("normal", "continue")]
        if len(normal) > 1:
            normal = [merge_paths(normal)]
        if len(normal) != 1:
            raise EngineError("loop body has no normal path")
        fr1, st1 = normal[0]
    # collect side obligations of the body run: they were recorded in st.side with pc including i-range → fine.
    iz = i.t
    summary_env = {}
    summary_heap = {}
    # ---- scalars
    for name in modified:
        if name in target_names:
            continue
        post = fr1.env.get(name, _MISSING)
        if post is _MISSING:
            continue
        pre = pre_env.get(name, _MISSING)
        summary_env[name] = _summarise_value(interp, name, pre, post, env_h.get(name, _MISSING), iz, lo, hi, hv_consts, hv_funcs, st1)
    # the loop target keeps its last value
    for name in target_names:
        if name in fr1.env:
            post = fr1.env[name]
            if sv.is_scalar(norm(post)):
                summary_env[name] = ("last", post)
            else:
                summary_env[name] = ("last_obj", post)
    # ---- arrays
    for sid, (shape, dt, hfn) in arr_h.items():
        idx = tuple(sv.fresh_int("x") for _ in shape)
        post_fn = st1.heap[sid].data
        postv = post_fn(idx)
        prev = hfn(idx)
        summary_heap[sid] = _summarise_array(sid, shape, dt, idx, prev, postv, iz, lo, hi, hv_consts, hv_funcs, pre_heap)
    for sid in other_touched:
        summary_heap[sid] = _summarise_cell(interp, sid, pre_heap[sid], heap_h, st1, iz, lo, hi, hv_consts, hv_funcs)
    # ---- build state(k) and check init / step
    def state_at(k):
        env = dict(pre_env)
        heap = dict(pre_heap)
        for name, summ in summary_env.items():
            env[name] = _instantiate(summ, k, iz, lo, pre_env.get(name, _MISSING))
        for sid, summ in summary_heap.items():
            heap[sid] = summ(k)
        return env, heap

    # step check: run body from state(i) and compare with state(i+1)
    # (side obligations of the discovery runs are dropped: the ones that count are those of the step run)
    del st.side[side_mark:]
    i2 = sv.fresh_int("j")
    env_i, heap_i = state_at(i2)
    outs = run_body(env_i, heap_i, i2, [])
    normal2 = [(fr, st2) for fr, st2, out in outs if out[0] in ("normal", "continue")]
    for fr, st2, out in outs:
        if out[0] == "raise":
            st.side.append(_side_infeasible(st2, f"loop-body-raises:{out[1]}", where))
        elif out[0] not in ("normal", "continue"):
            raise EngineError("loop body leaves the loop under the summary")
    if len(normal2) > 1:
        normal2 = [merge_paths(normal2)]
    if len(normal2) != 1:
        raise EngineError("loop step check: no normal path under the summary")
    fr2, st2 = normal2[0]
    env_n, heap_n = state_at(A.simp(sv.add(i2, 1)))
    goals = []
    for name in summary_env:
        a, b = fr2.env.get(name, _MISSING), env_n[name]
        if summary_env[name][0] in ("last_obj", "opaque"):
            continue
        goals.extend(_eq_goals(a, b))
    for sid, summ in summary_heap.items():
        c = pre_heap[sid]
        if c.kind == "arr":
            shape = c.meta["shape"]
            idx = tuple(sv.fresh_int("y") for _ in shape)
            rng = [sv.zb(sv.and_(sv.cmp(">=", x, 0), sv.cmp("<", x, d))) for x, d in zip(idx, shape)]
            a = st2.heap[sid].data(idx)
            b = heap_n[sid].data(idx)
            for g in _eq_goals(a, b):
                goals.append(z3.Implies(z3.And(*rng) if rng else z3.BoolVal(True), g))
        else:
            goals.extend(_cell_eq_goals(st2.heap[sid], heap_n[sid]))
    assum = st2.all_assumptions()
    for g in goals:     # one query per carried variable / array cell (small queries)
        st.side.append(_SideGoal("loop-step", g, assum, where))
    if promoted is not None:
        # base case of the induction at lo+1: the first iteration executed from the true pre-state gives state(lo+1)
        fr_p, st_p, gmap, _, _ = promoted
        env_1, heap_1 = state_at(A.simp(sv.add(lo, 1)))
        goals1 = []
        for name in summary_env:
            if summary_env[name][0] in ("last", "last_obj", "opaque"):
                continue
            goals1.extend(_eq_goals(fr_p.env.get(name, _MISSING), env_1[name]))
        for sid in summary_heap:
            c = pre_heap[sid]
            if c.kind == "arr":
                shape = c.meta["shape"]
                idx = tuple(sv.fresh_int("y") for _ in shape)
                rng = [sv.zb(sv.and_(sv.cmp(">=", x, 0), sv.cmp("<", x, d))) for x, d in zip(idx, shape)]
                real_sid = gmap.get(sid, sid)
                for g in _eq_goals(st_p.heap[real_sid].data(idx), heap_1[sid].data(idx)):
                    goals1.append(z3.Implies(z3.And(*rng) if rng else z3.BoolVal(True), g))
            else:
                goals1.extend(_cell_eq_goals(st_p.heap[sid], heap_1[sid]))
        for g in goals1:
            st.side.append(_SideGoal("loop-init", g, st_p.all_assumptions(), where))
    # init check: state(lo) == pre-state
    env_0, heap_0 = state_at(lo)
    goals0 = []
    for name in summary_env:
        if summary_env[name][0] in ("last", "last_obj", "opaque"):
            continue   # no value before the first iteration is claimed
        goals0.extend(_eq_goals(pre_env.get(name, _MISSING), env_0[name]))
    for sid in summary_heap:
        c = pre_heap[sid]
        if c.kind == "arr":
            shape = c.meta["shape"]
            idx = tuple(sv.fresh_int("y") for _ in shape)
            rng = [sv.zb(sv.and_(sv.cmp(">=", x, 0), sv.cmp("<", x, d))) for x, d in zip(idx, shape)]
            for g in _eq_goals(c.data(idx), heap_0[sid].data(idx)):
                goals0.append(z3.Implies(z3.And(*rng) if rng else z3.BoolVal(True), g))
        else:
            goals0.extend(_cell_eq_goals(c, heap_0[sid]))
    if promoted is None:
        for g in goals0:
            st.side.append(_SideGoal("loop-init", g, st.all_assumptions(), where))
    # ---- post-state
    env_f, heap_f = state_at(hi)
    frame.env.clear()
    frame.env.update(env_f)
    for name, summ in summary_env.items():
        if summ[0] in ("last", "last_obj"):
            frame.env[name] = _instantiate(summ, hi, iz, lo, None)
    for sid, c in heap_f.items():
        if sid in summary_heap:
            st.heap[sid] = c
            st.events.append(("store", sid, where, list(st.pc)))
    # new allocations made by the last iteration that remain referenced by last-value variables
    _import_last_iteration_cells(fr1, st1, st, iz, hi, summary_env, frame)
    if s.orelse:
        interp.exec_body_single(s.orelse, frame)


_MISSING = object()


def _loop_ordinal(frame, s):
    """ordinal of this loop among the loops of its function (by source order)"""
    return getattr(s, "_pyvc_ordinal", s.lineno)


class _SideGoal:
    """side obligation with explicit assumptions (SideOb-compatible)"""
    def __init__(self, kind, cond, pc, where):
        self.kind, self.cond, self.pc, self.where = kind, cond, pc, where
        self.explicit = True


def _side_infeasible(st2, kind, where):
    return _SideGoal(kind, z3.BoolVal(False), st2.all_assumptions(), where)


def _dtype_of_sid(env, sid, st, c):
    for v in env.values():
        if isinstance(v, A.Arr) and v.sid == sid:
            return v.dtype
    dt = c.meta.get("dtype")
    if dt:
        return dt
    # look through object attributes / dataframes
    for cell in st.heap.values():
        if cell.kind == "obj":
            for v in cell.data.values():
                if isinstance(v, A.Arr) and v.sid == sid:
                    return v.dtype
        if cell.kind == "df":
            for v in cell.data["cols"].values():
                if isinstance(v, A.Arr) and v.sid == sid:
                    return v.dtype
        if cell.kind == "list" and not isinstance(cell.data, A.SeqVal):
            for v in cell.data:
                if isinstance(v, A.Arr) and v.sid == sid:
                    return v.dtype
    return "float"


def _eq_goals(a, b):
    if a is _MISSING or b is _MISSING:
        return [z3.BoolVal(a is b)]
    a, b = norm(a), norm(b)
    if isinstance(a, Cx) or isinstance(b, Cx):
        a, b = sv.as_cx(a), sv.as_cx(b)
        return _eq_goals(a.re, b.re) + _eq_goals(a.im, b.im)
    if sv.is_scalar(a) and sv.is_scalar(b):
        r = sv.cmp("==", a, b)
        if is_conc(r):
            return [z3.BoolVal(bool(r))]
        return [r.t]
    if isinstance(a, A.Arr) and isinstance(b, A.Arr):
        if a.sid == b.sid:
            return []
        return [z3.BoolVal(False)]
    if a is b:
        return []
    if isinstance(a, Ref) and isinstance(b, Ref) and a.sid == b.sid:
        return []
    if isinstance(a, (tuple,)) and isinstance(b, tuple) and len(a) == len(b):
        out = []
        for x, y in zip(a, b):
            out.extend(_eq_goals(x, y))
        return out
    if type(a) is type(b) and isinstance(a, (str, type(None))):
        return [z3.BoolVal(a == b)]
    return [z3.BoolVal(False)]


def _summarise_value(interp, name, pre, post, hv, iz, lo, hi, hv_consts, hv_funcs, st1):
    post = norm(post) if sv.is_scalar(norm(post)) else post
    if sv.is_scalar(post):
        pts = _terms_of(post)
        mentions = any(_contains_any(t, hv_consts, hv_funcs) for t in pts)
        if not mentions:
            return ("last", post)
        if hv is _MISSING or not sv.is_scalar(norm(hv)):
            raise EngineError(f"loop variable {name}: depends on loop-carried state in an unsupported way")
        delta = sv.sub(post, hv)
        dts = [z3.simplify(t) for t in _terms_of(delta)]
        if any(_contains_any(t, hv_consts, hv_funcs) for t in dts):
            raise EngineError(f"loop variable {name}: not an accumulation (v' - v depends on loop-carried state)")
        return ("sum", delta)
    # non-scalar: allowed if it does not depend on carried state → last-value object
    return ("last_obj", post)


def _instantiate(summ, k, iz, lo, pre):
    kind = summ[0]
    if kind == "sum":
        delta = summ[1]
        return sv.add(pre, Sum(lo, k, lambda t: _subst_val(delta, [(iz, sv.znum(t))])))
    if kind == "last":
        # value produced by iteration k-1
        return _subst_val(summ[1], [(iz, sv.znum(A.simp(sv.sub(k, 1))))])
    if kind == "last_obj":
        return summ[1]
    raise EngineError(kind)


def _summarise_array(sid, shape, dt, idx, prev, postv, iz, lo, hi, hv_consts, hv_funcs, pre_heap):
    """closed form for the content of an array cell after k iterations"""
    pre_fn = pre_heap[sid].data
    meta = pre_heap[sid].meta
    idz = [x.t for x in idx]
    # (1) accumulation: post - prev free of havoc (the difference is taken inside if-then-else alternatives of joined branches)
    delta = _delta(postv, prev)
    dts = [z3.simplify(t) for t in _terms_of(delta)]
    if not any(_contains_any(t, hv_consts, hv_funcs) for t in dts):
        delta = _subst_val(delta, [])  # simplified

        def at(k):
            def fn(ix, k=k):
                pairs = [(a, sv.znum(b)) for a, b in zip(idz, ix)]
                return sv.add(pre_fn(ix), Sum(lo, k, lambda t: _subst_val(delta, pairs + [(iz, sv.znum(t))])))
            return Content("arr", A._memo(fn), meta)
        return at
    # (2) scatter store: post = ite(cond(i, idx), e(i, idx), prev) with cond selecting idx_k == g_k(i) on some axes
    dec = _decompose_store(postv, prev)
    if dec is not None:
        cond, val = dec   # z3 bool cond(i, idx), value (SV/Cx) not mentioning havoc
        vts = _terms_of(val) + [cond]
        if not any(_contains_any(t, hv_consts, hv_funcs) for t in vts):
            sol = _solve_writer(cond, iz, idz)
            if sol is not None:
                w, residual = sol   # writer iteration as a term over idx; residual condition over idx (with i:=w)

                def at(k):
                    def fn(ix, k=k):
                        pairs = [(a, sv.znum(b)) for a, b in zip(idz, ix)]
                        wk = z3.simplify(z3.substitute(w, *pairs))
                        c = z3.And(wk >= sv.znum(lo), wk < sv.znum(k), z3.substitute(residual, *pairs))
                        v = _subst_val(_subst_val(val, [(iz, w)]), pairs)
                        return ite(sv.wrap(z3.simplify(c)), v, lambda: pre_fn(ix))
                    return Content("arr", A._memo(fn), meta)
                return at
    raise EngineError(f"array #{sid}: loop effect is neither an accumulation nor an affine scatter store — needs a written summary")


def _delta(postv, prev):
    postv, prev = norm(postv), norm(prev)
    if isinstance(postv, Cx) or isinstance(prev, Cx):
        a, b = sv.as_cx(postv), sv.as_cx(prev)
        return Cx(_delta(a.re, b.re), _delta(a.im, b.im))
    if isinstance(postv, SV) and not postv.is_bool and z3.is_app(postv.t) and postv.t.decl().kind() == z3.Z3_OP_ITE:
        c, x, y = postv.t.children()
        return ite(sv.wrap(c), _delta(sv.wrap(x), prev), _delta(sv.wrap(y), prev))
    return sv.sub(postv, prev)


def _decompose_store(postv, prev):
    """post == If(cond, val, prev) (componentwise for complex) -> (cond, val)"""
    postv, prev = norm(postv), norm(prev)
    if isinstance(postv, Cx):
        if not isinstance(prev, Cx):
            return None
        a = _decompose_store(postv.re, prev.re)
        b = _decompose_store(postv.im, prev.im)
        if a is None or b is None:
            return None
        if not a[0].eq(b[0]):
            return None
        return a[0], Cx(a[1], b[1])
    if not isinstance(postv, SV) or not isinstance(prev, SV):
        return None
    t = postv.t
    if z3.is_app(t) and t.decl().kind() == z3.Z3_OP_ITE:
        c, x, y = t.children()
        if y.eq(prev.t):
            return c, sv.wrap(x)
        if x.eq(prev.t):
            return z3.Not(c), sv.wrap(y)
    return None


def _solve_writer(cond, iz, idz):
    """cond(i, idx) contains an equation idx_k == i + c (or i == idx_k + c): return (writer term w(idx), residual)"""
    conj = []

    def flat(c):
        if z3.is_and(c):
            for ch in c.children():
                flat(ch)
        else:
            conj.append(c)
    flat(z3.simplify(cond))
    for n, c in enumerate(conj):
        if z3.is_eq(c):
            a, b = c.children()
            d = z3.simplify(a - b)
            # try: d == i*1 + rest(idx)  -> i = -rest ; or d == -i + rest -> i = rest
            for sign in (1, -1):
                rest = z3.simplify(d - sign * iz)
                if not _mentions(rest, iz):
                    w = z3.simplify(-sign * rest) if sign == 1 else z3.simplify(rest)
                    if z3.is_int(w):
                        others = conj[:n] + conj[n + 1:]
                        residual = z3.And(*others) if others else z3.BoolVal(True)
                        residual = z3.substitute(residual, (iz, w))
                        return w, residual
    return None


def _mentions(t, c):
    cid = c.get_id()
    seen = set()
    stack = [t]
    while stack:
        e = stack.pop()
        if e.get_id() in seen:
            continue
        seen.add(e.get_id())
        if e.get_id() == cid:
            return True
        stack.extend(e.children())
    return False


def _summarise_cell(interp, sid, pre_cell, heap_h, st1, iz, lo, hi, hv_consts, hv_funcs):
    """non-array heap cells touched by the body: python lists (append), dataframes (column updates), objects"""
    post_cell = st1.heap[sid]
    if pre_cell.kind == "list":
        pre, post = pre_cell.data, post_cell.data
        if not isinstance(pre, A.SeqVal) and not isinstance(post, A.SeqVal):
            k0 = len(pre)
            added = post[k0:]
            if tuple(post[:k0]) == tuple(pre) and len(added) >= 1 and all(sv.is_scalar(norm(x)) for x in added):
                m = len(added)
                for x in added:
                    if any(_contains_any(t, hv_consts, hv_funcs) for t in _terms_of(x)):
                        raise EngineError("appended value depends on loop-carried state")

                def at(k, pre=pre, added=added, m=m, k0=k0):
                    n_iter = A.simp(sv.sub(k, lo))
                    length = A.simp(sv.add(k0, sv.mul(m, n_iter)))

                    def fn(p):
                        # p < k0: original; else iteration t = lo + (p-k0)//m, slot (p-k0)%m
                        if is_conc(p) and p < k0:
                            return pre[int(p)]
                        rel = sv.sub(p, k0)
                        if m == 1:
                            t = A.simp(sv.add(lo, rel))
                            v = _subst_val(added[0], [(iz, sv.znum(t))])
                        else:
                            raise EngineError("several appends per iteration")
                        if k0 == 0:
                            return v
                        return ite(sv.cmp("<", p, k0), lambda: A._pick([norm(x) for x in pre], p), v)
                    return Content("list", A.SeqVal(length, fn), pre_cell.meta)
                return at
        raise EngineError("list mutated in a symbolic loop in an unsupported way")
    if pre_cell.kind == "df":
        from .pandas_model import summarise_df_cell
        return summarise_df_cell(interp, sid, pre_cell, post_cell, heap_h, st1, iz, lo, hi, hv_consts, hv_funcs)
    raise EngineError(f"heap cell of kind {pre_cell.kind} modified in a symbolic loop")


def _cell_eq_goals(a, b):
    if a.kind == "list" and b.kind == "list":
        ca, cb = a.data, b.data
        la = ca.length if isinstance(ca, A.SeqVal) else len(ca)
        lb = cb.length if isinstance(cb, A.SeqVal) else len(cb)
        goals = _eq_goals(la, lb)
        p = sv.fresh_int("p")
        fa = ca.fn if isinstance(ca, A.SeqVal) else (lambda q, ca=ca: A._pick([norm(x) for x in ca], q))
        fb = cb.fn if isinstance(cb, A.SeqVal) else (lambda q, cb=cb: A._pick([norm(x) for x in cb], q))
        if (isinstance(ca, A.SeqVal) or len(ca) > 0) and (isinstance(cb, A.SeqVal) or len(cb) > 0):
            rng = sv.zb(sv.and_(sv.cmp(">=", p, 0), sv.cmp("<", p, la)))
            for g in _eq_goals(fa(p), fb(p)):
                goals.append(z3.Implies(rng, g))
        return goals
    if a.kind == "df" and b.kind == "df":
        from .pandas_model import df_cell_eq_goals
        return df_cell_eq_goals(a, b, _eq_goals)
    return [z3.BoolVal(a is b)]


def _import_last_iteration_cells(fr1, st1, st, iz, hi, summary_env, frame):
    """objects allocated by the (symbolic) last iteration and still referenced afterwards: instantiate at i = hi-1"""
    last = sv.znum(A.simp(sv.sub(hi, 1)))
    for name, summ in summary_env.items():
        if summ[0] != "last_obj":
            continue
        v = summ[1]
        frame.env[name] = _rebind_obj(v, st1, st, iz, last)


def _rebind_obj(v, st1, st, iz, last):
    if isinstance(v, A.Arr):
        c = st1.heap.get(v.sid)
        if c is None:
            return v
        if v.sid in st.heap:
            return v      # a cell that exists outside the loop body: its content after the loop is the summary's
        fn = c.data

        def fn2(idx, fn=fn):
            return _subst_val(fn(idx), [(iz, last)])
        meta = dict(c.meta)
        meta["shape"] = tuple(_subst_val(d, [(iz, last)]) for d in meta["shape"])
        sid = st.alloc(Content("arr", A._memo(fn2), meta))
        view = v.view
        if view is not None:
            nb = [spec if spec[0] == "fix" and is_conc(spec[1]) else
                  (("fix", _subst_val(spec[1], [(iz, last)])) if spec[0] == "fix" else ("rng", _subst_val(spec[1], [(iz, last)]), spec[2]))
                  for spec in view.base]
            view = A.View(nb, [_subst_val(d, [(iz, last)]) for d in view.shape])
        return A.Arr(sid, view, v.dtype)
    if isinstance(v, tuple):
        return tuple(_rebind_obj(x, st1, st, iz, last) for x in v)
    if sv.is_scalar(norm(v)):
        return _subst_val(v, [(iz, last)])
    return v


# ----------------------------------------------------------------------------------------------
# join of body paths


def _common_prefix(lists):
    n = min(len(x) for x in lists)
    k = 0
    while k < n and all(x[k].eq(lists[0][k]) for x in lists[1:]):
        k += 1
    return k


def _ite_chain(conds, vals):
    """value of the path whose condition holds; identical alternatives are shared, the most frequent one is the default"""
    groups = []      # (value, [conds])
    for c, v in zip(conds, vals):
        for g in groups:
            if g[0] is v or (sv.is_scalar(v) and sv.is_scalar(g[0]) and _same_scalar(g[0], v)):
                g[1].append(c)
                break
        else:
            groups.append((v, [c]))
    groups.sort(key=lambda g: -len(g[1]))
    out = groups[0][0]
    for v, cs in reversed(groups[1:]):
        cond = sv.wrap(z3.simplify(z3.Or(*cs) if len(cs) > 1 else cs[0]))
        out = ite(cond, v, out)
    return out


def _same_scalar(a, b):
    a, b = norm(a), norm(b)
    if isinstance(a, Cx) or isinstance(b, Cx):
        if not (isinstance(a, Cx) and isinstance(b, Cx)):
            return False
        return _same_scalar(a.re, b.re) and _same_scalar(a.im, b.im)
    if isinstance(a, SV) and isinstance(b, SV):
        return a.t.eq(b.t)
    if isinstance(a, SV) or isinstance(b, SV):
        return False
    return type(a) is type(b) and a == b


def merge_paths(normal, lenient=False):
    """join of the normal paths of one body execution (they partition its pre-state by the branch conditions taken and the
    side conditions assumed): every variable / heap cell becomes an if-then-else over the path conditions"""
    frames = [fr for fr, _ in normal]
    states = [st2 for _, st2 in normal]
    npfx = _common_prefix([st2.pc for st2 in states])
    tails = [st2.pc[npfx:] for st2 in states]
    common_ids = set(t.get_id() for t in tails[0])
    for tl in tails[1:]:
        common_ids &= set(t.get_id() for t in tl)
    common = [t for t in tails[0] if t.get_id() in common_ids]      # side conditions assumed on every branch
    tails = [[t for t in tl if t.get_id() not in common_ids] for tl in tails]
    conds = [z3.And(*tl) if len(tl) > 1 else (tl[0] if tl else z3.BoolVal(True)) for tl in tails]
    base = states[0]
    m = base.fork()
    m._lenient_join = lenient
    m.pc = list(base.pc[:npfx]) + common + [z3.simplify(z3.Or(*conds))]
    m.decisions = {k: v for k, v in base.decisions.items() if all(k in s2.decisions and s2.decisions[k][0] == v[0] for s2 in states[1:])}
    m.fresh = max(s2.fresh for s2 in states)
    ev = []
    seen = set()
    for s2 in states:
        for e in s2.events:
            if id(e) not in seen:
                seen.add(id(e))
                ev.append(e)
    m.events = ev
    t0 = states[0].trace
    for s2 in states[1:]:
        if len(s2.trace) != len(t0) or any(a is not b for a, b in zip(s2.trace, t0)):
            raise EngineError("branches of a loop body differ in their file-write events — needs a written summary")
    # heap
    heap = {}
    sids = []
    for s2 in states:
        for sid in s2.heap:
            if sid not in heap:
                heap[sid] = None
                sids.append(sid)
    m.heap = heap
    later = []
    for sid in sids:
        cells = [s2.heap.get(sid) for s2 in states]
        present = [c for c in cells if c is not None]
        if all(c is present[0] for c in present):
            heap[sid] = present[0]
            continue
        if len(present) != len(cells):
            # allocated on some branches only: reachable only from values of those branches
            raise EngineError("a cell allocated inside a branch is modified differently on several branches")
        if present[0].kind == "arr":
            heap[sid] = _merge_cells(sid, conds, cells, m)
        else:
            heap[sid] = present[0]
            later.append((sid, cells))
    for sid, cells in later:
        heap[sid] = _merge_cells(sid, conds, cells, m)
    # environment
    env = {}
    names = []
    for fr in frames:
        for k in fr.env:
            if k not in env:
                env[k] = None
                names.append(k)
    fr_m = Frame(frames[0].module, {}, frames[0].fname)
    for k in names:
        vals = [fr.env.get(k, _MISSING) for fr in frames]
        if any(v is _MISSING for v in vals):
            continue      # bound on some branches only: unbound after the join (a later read raises NameError)
        fr_m.env[k] = _merge_vals(conds, vals, m)
    return fr_m, m


def _merge_vals(conds, vals, m):
    v0 = vals[0]
    if all(v is v0 for v in vals):
        return v0
    if all(sv.is_scalar(norm(v)) for v in vals):
        return _ite_chain(conds, [norm(v) for v in vals])
    if all(isinstance(v, A.Arr) for v in vals):
        if all(v.sid == v0.sid and v.dtype == v0.dtype and _same_view(v.view, v0.view) for v in vals):
            return v0
        if all(v.view is None and v.dtype == v0.dtype for v in vals):
            shapes = [tuple(m.heap[v.sid].meta["shape"]) for v in vals]
            if all(len(sh) == len(shapes[0]) and all(A.dim_eq_syntactic(a, b) for a, b in zip(sh, shapes[0])) for sh in shapes):
                fns = [m.heap[v.sid].data for v in vals]

                def fn(idx, fns=fns):
                    return _ite_chain(conds, [f(idx) for f in fns])
                sid = m.alloc(Content("arr", A._memo(fn), {"shape": shapes[0]}))
                return A.Arr(sid, None, v0.dtype)
    arrs = [v for v in vals if isinstance(v, A.Arr)]
    if getattr(m, "_lenient_join", False) and arrs and all(isinstance(v, A.Arr) or _is_num(v) for v in vals) and all(v.view is None for v in arrs):
        # discovery / first-iteration probe only: a numeric accumulator that some branches have already turned into an array
        # (number (+) array broadcasts to the array's shape, so the number stands for the constant array)
        shapes = [tuple(m.heap[v.sid].meta["shape"]) for v in arrs]
        if all(len(sh) == len(shapes[0]) and all(A.dim_eq_syntactic(a, b) for a, b in zip(sh, shapes[0])) for sh in shapes):
            dt = A.promote(*[v.dtype if isinstance(v, A.Arr) else A.scalar_dtype(norm(v)) for v in vals])
            fns = [(m.heap[v.sid].data if isinstance(v, A.Arr) else (lambda idx, v=v: norm(v))) for v in vals]

            def fn(idx, fns=fns, dt=dt):
                return _ite_chain(conds, [A._cast(f(idx), dt) for f in fns])
            sid = m.alloc(Content("arr", A._memo(fn), {"shape": shapes[0]}))
            return A.Arr(sid, None, dt)
    if all(isinstance(v, Ref) for v in vals) and all(v.sid == v0.sid for v in vals):
        return v0
    if all(isinstance(v, tuple) for v in vals) and all(len(v) == len(v0) for v in vals):
        return tuple(_merge_vals(conds, [v[k] for v in vals], m) for k in range(len(v0)))
    if all(isinstance(v, (str, type(None))) for v in vals) and all(v == v0 for v in vals):
        return v0
    raise EngineError("branches of a loop body leave values that cannot be joined — needs a written summary")


def _same_view(a, b):
    if a is None or b is None:
        return a is b
    return repr(a.base) == repr(b.base) and repr(a.shape) == repr(b.shape)


def _merge_cells(sid, conds, cells, m):
    c0 = cells[0]
    if any(c.kind != c0.kind for c in cells):
        raise EngineError("heap cell changes kind on a branch")
    if c0.kind == "arr":
        shapes = [tuple(c.meta["shape"]) for c in cells]
        if not all(len(sh) == len(shapes[0]) and all(A.dim_eq_syntactic(a, b) for a, b in zip(sh, shapes[0])) for sh in shapes):
            raise EngineError("array cell changes shape on a branch")
        fns = [c.data for c in cells]

        def fn(idx, fns=fns):
            return _ite_chain(conds, [f(idx) for f in fns])
        return Content("arr", A._memo(fn), c0.meta)
    if c0.kind in ("dict", "obj"):
        keys = list(c0.data.keys())
        if any(list(c.data.keys()) != keys for c in cells):
            raise EngineError("dictionary/object gets different keys on different branches")
        return Content(c0.kind, {k: _merge_vals(conds, [c.data[k] for c in cells], m) for k in keys}, c0.meta)
    if c0.kind == "df":
        o = c0.data["order"]
        if any(c.data["order"] != o for c in cells) or any(c.data["cols"][k].sid != c0.data["cols"][k].sid for c in cells for k in o):
            raise EngineError("DataFrame columns replaced on a branch")
        return c0
    if c0.kind == "list":
        if all(not isinstance(c.data, A.SeqVal) and len(c.data) == len(c0.data) for c in cells):
            return Content("list", tuple(_merge_vals(conds, [c.data[k] for c in cells], m) for k in range(len(c0.data))), c0.meta)
    raise EngineError(f"heap cell of kind {c0.kind} modified differently on several branches")


# ----------------------------------------------------------------------------------------------
# promotion of numeric accumulators


def _is_num(v):
    v = norm(v)
    return isinstance(v, (int, sv.Fraction)) and not isinstance(v, bool)


def _promotion_signals(pre_env, pre_heap, scal_h, fr1, st1):
    for name in scal_h:
        if _is_num(pre_env.get(name)) and isinstance(fr1.env.get(name), A.Arr):
            return True
    for sid, c in pre_heap.items():
        c1 = st1.heap.get(sid)
        if c1 is None or c1 is c:
            continue
        if c.kind == "dict" and c1.kind == "dict":
            for k, v in c.data.items():
                if _is_num(v) and isinstance(c1.data.get(k), A.Arr):
                    return True
        if c.kind == "df" and c1.kind == "df" and c.data["order"] == c1.data["order"]:
            for k in c.data["order"]:
                a, b = c.data["cols"][k], c1.data["cols"][k]
                if a.sid != b.sid and a.dtype != b.dtype:
                    return True
    return False


def _promote(pre_env, pre_heap, fr_p, st_p, st):
    """ghost pre-state in which every numeric accumulator that the first iteration replaced by a fresh array (number (+) array,
    integer frame column (+) float array) already is an array of that shape and dtype holding the same values.
    Returns (env, {ghost sid: sid of the array the first iteration really produced}) or None; st.heap is updated."""
    gmap = {}
    env = dict(pre_env)

    def fresh_arr(v):
        return isinstance(v, A.Arr) and v.view is None and v.sid not in pre_heap

    def ghost_const(c, post):
        shape = tuple(st_p.heap[post.sid].meta["shape"])
        val = A._cast(norm(c), post.dtype)
        sid = st.alloc(Content("arr", (lambda idx, val=val: val), {"shape": shape}))
        gmap[sid] = post.sid
        return A.Arr(sid, None, post.dtype)

    for name, v in pre_env.items():
        post = fr_p.env.get(name)
        if _is_num(v) and fresh_arr(post):
            env[name] = ghost_const(v, post)
    for sid, c in list(pre_heap.items()):
        c1 = st_p.heap.get(sid)
        if c1 is None or c1 is c:
            continue
        if c.kind == "dict" and c1.kind == "dict" and list(c.data.keys()) == list(c1.data.keys()):
            d = dict(c.data)
            ch = False
            for k, v in c.data.items():
                if _is_num(v) and fresh_arr(c1.data[k]):
                    d[k] = ghost_const(v, c1.data[k])
                    ch = True
            if ch:
                st.heap[sid] = Content("dict", d, c.meta)
        elif c.kind == "df" and c1.kind == "df" and c.data["order"] == c1.data["order"] and A.dim_eq_syntactic(c.data["n"], c1.data["n"]):
            cols = dict(c.data["cols"])
            ch = False
            for k in c.data["order"]:
                a, b = c.data["cols"][k], c1.data["cols"][k]
                if a.sid != b.sid and fresh_arr(b) and a.dtype != b.dtype and A.promote(a.dtype, b.dtype) == b.dtype:
                    r = pre_heap[a.sid].data if a.view is None else None
                    if r is None:
                        continue
                    dt = b.dtype
                    gs = st.alloc(Content("arr", A._memo(lambda idx, r=r, dt=dt: A._cast(r(idx), dt)), {"shape": tuple(pre_heap[a.sid].meta["shape"])}))
                    gmap[gs] = b.sid
                    cols[k] = A.Arr(gs, None, dt)
                    ch = True
            if ch:
                st.heap[sid] = Content("df", {"cols": cols, "order": list(c.data["order"]), "n": c.data["n"]}, c.meta)
    if not gmap:
        return None
    return env, gmap
