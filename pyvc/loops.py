"""Loop rule.

* concrete iteration space: unrolled (every iteration is executed);
* symbolic ``for i in range(lo, hi)`` / ``for x in <symbolic-length sequence>``: the loop is
  replaced by a *closed-form summary* state(i) that is checked inductively:
      init:  state(lo)  == pre-state
      step:  executing the body once from state(i) (lo <= i < hi) yields state(i+1)
  and the post-state is state(hi).  The summary comes from the sidecar (written) or is synthesised
  from one symbolic execution of the body from a havocked state for the shapes
      v = v + δ(i)                (sum)
      A[idx] = A[idx] + δ(i,idx)  (element-wise accumulation / scatter-add)
      A[g(i)] = e(i)              (scatter store with affine injective g: i + c)
      v = e(i)                    (last value)
      L.append(e(i))              (sequence)
  Both kinds are checked by the same SMT obligations (`loop:init`, `loop:step`), so soundness does not
  rest on how the summary was found.
"""
from __future__ import annotations

import ast

import z3

from . import arr as A
from . import sv
from .interp import Fork, Frame, PyRaise, Ref, _Break, _Continue, _Return
from .sigma import Sum
from .state import Content, cur, use_state
from .sv import SV, Cx, EngineError, is_conc, ite, norm


def _iter_space(interp, s, frame):
    """-> ('conc', items) | ('sym', lo, hi, item_fn)"""
    from .lib import RangeVal
    itv = interp.eval(s.iter, frame)
    if isinstance(itv, RangeVal):
        if itv.concrete():
            return ("conc", list(itv.to_range()))
        if not (is_conc(itv.step) and itv.step == 1):
            raise EngineError("symbolic range with step")
        return ("sym", itv.start, itv.stop, lambda i: i)
    sym = interp.symbolic_iter(itv)
    if sym is not None:
        n, item = sym
        return ("sym", 0, n, item)
    return ("conc", interp.iter_concrete(itv))


def exec_loop_single(interp, s, frame):
    """loop inside single-path context (nested function / loop body): concrete spaces are unrolled,
    symbolic loops use the summary rule; forks propagate."""
    if isinstance(s, ast.While):
        return _while_single(interp, s, frame)
    space = _iter_space(interp, s, frame)
    if space[0] == "conc":
        for it in space[1]:
            interp.assign(s.target, it, frame)
            try:
                interp.exec_body_single(s.body, frame)
            except _Break:
                return
            except _Continue:
                continue
        if s.orelse:
            interp.exec_body_single(s.orelse, frame)
        return
    _symbolic_for(interp, s, frame, cur(), space)


def _while_single(interp, s, frame):
    n = 0
    while True:
        c = interp.decide(interp.eval(s.test, frame))
        if not c:
            break
        try:
            interp.exec_body_single(s.body, frame)
        except _Break:
            return
        except _Continue:
            pass
        n += 1
        if n > 10000:
            raise EngineError("while loop does not terminate in the engine")


def exec_loop_paths(interp, s, frame, state):
    if isinstance(s, ast.While):
        return _while_paths(interp, s, frame, state)
    fr0, st0 = frame.clone(), state.fork()
    try:
        with use_state(state):
            state.where = f"{frame.fname}:{s.lineno}"
            space = _iter_space(interp, s, frame)
    except Fork as f:
        return interp._split(f, fr0, st0, lambda fr, st: exec_loop_paths(interp, s, fr, st), 0)
    except PyRaise as e:
        return [(frame, state, ("raise", e.exc_type, e.msg))]
    if space[0] == "conc":
        paths = [(frame, state)]
        results = []
        for it in space[1]:
            nxt = []
            for fr, st in paths:
                with use_state(st):
                    interp.assign(s.target, it, fr)
                for fr2, st2, out in interp.exec_block_paths(s.body, fr, st):
                    if out[0] in ("normal", "continue"):
                        nxt.append((fr2, st2))
                    elif out[0] == "break":
                        results.append((fr2, st2, ("normal",)))
                    else:
                        results.append((fr2, st2, out))
            paths = nxt
        for fr, st in paths:
            if s.orelse:
                results.extend(interp.exec_block_paths(s.orelse, fr, st))
            else:
                results.append((fr, st, ("normal",)))
        return results
    try:
        with use_state(state):
            _symbolic_for(interp, s, frame, state, space)
    except Fork as f:
        # an undecided condition about the loop bounds (zero-trip test): split the path and redo the loop on both sides
        return interp._split(f, fr0, st0, lambda fr, st: exec_loop_paths(interp, s, fr, st), 0)
    except PyRaise as e:
        return [(frame, state, ("raise", e.exc_type, e.msg))]
    return [(frame, state, ("normal",))]


def _while_paths(interp, s, frame, state):
    hint = interp.loop_hints.get((frame.fname, "while", s.lineno)) or interp.loop_hints.get((frame.fname, "while"))
    if hint is not None:
        return hint(interp, s, frame, state)
    # bounded unrolling of a while loop with concretely decidable tests
    paths = [(frame, state)]
    results = []
    for _ in range(10000):
        if not paths:
            break
        nxt = []
        for fr, st in paths:
            with use_state(st):
                try:
                    c = interp.decide(interp.eval(s.test, fr))
                except Fork:
                    raise EngineError("while loop with symbolic test needs a written summary")
            if not c:
                results.append((fr, st, ("normal",)))
                continue
            for fr2, st2, out in interp.exec_block_paths(s.body, fr, st):
                if out[0] in ("normal", "continue"):
                    nxt.append((fr2, st2))
                elif out[0] == "break":
                    results.append((fr2, st2, ("normal",)))
                else:
                    results.append((fr2, st2, out))
        paths = nxt
    if paths:
        raise EngineError("while loop: iteration bound exceeded")
    return results


# ----------------------------------------------------------------------------------------------
# symbolic for-loops


def _assigned_names(stmts):
    names = set()
    for n in ast.walk(ast.Module(body=list(stmts), type_ignores=[])):
        if isinstance(n, ast.Name) and isinstance(n.ctx, (ast.Store, ast.Del)):
            names.add(n.id)
    return names


class LoopObligation:
    def __init__(self, kind, goal, assumptions, where):
        self.kind, self.goal, self.assumptions, self.where = kind, goal, assumptions, where


def _havoc_value(v, tag, heap_updates):
    """fresh unconstrained value of the same 'shape' as v"""
    v = norm(v)
    if isinstance(v, Cx):
        return Cx(sv.fresh_real(tag + "re"), sv.fresh_real(tag + "im"))
    if isinstance(v, bool):
        return sv.fresh_bool(tag)
    if isinstance(v, int):
        return sv.fresh_int(tag)
    if isinstance(v, sv.Fraction):
        return sv.fresh_real(tag)
    if isinstance(v, SV):
        return sv.fresh_bool(tag) if v.is_bool else (sv.fresh_int(tag) if v.is_int else sv.fresh_real(tag))
    return v


def _havoc_array_content(shape, dtype, tag):
    nd = len(shape)
    if dtype == "complex":
        fre = z3.Function(sv.fresh_name(tag + "re"), *([z3.IntSort()] * nd), z3.RealSort()) if nd else None
        fim = z3.Function(sv.fresh_name(tag + "im"), *([z3.IntSort()] * nd), z3.RealSort()) if nd else None
        if nd == 0:
            c = Cx(sv.fresh_real(tag), sv.fresh_real(tag))
            return lambda idx: c
        return lambda idx: Cx(SV(fre(*[sv.znum(i) for i in idx])), SV(fim(*[sv.znum(i) for i in idx])))
    sort = {"float": z3.RealSort(), "int": z3.IntSort(), "bool": z3.BoolSort()}.get(dtype)
    if sort is None:
        raise EngineError(f"havoc of array dtype {dtype}")
    if nd == 0:
        c = SV(z3.Const(sv.fresh_name(tag), sort))
        return lambda idx: c
    f = z3.Function(sv.fresh_name(tag), *([z3.IntSort()] * nd), sort)
    return lambda idx: SV(f(*[sv.znum(i) for i in idx]))


def _contains_any(term, consts_ids, funcs_names):
    """does a z3 term mention any of the given constants (by ast id) or function symbols (by name)?"""
    seen = set()
    stack = [term]
    while stack:
        e = stack.pop()
        i = e.get_id()
        if i in seen:
            continue
        seen.add(i)
        if z3.is_app(e):
            d = e.decl()
            if d.kind() == z3.Z3_OP_UNINTERPRETED:
                if d.arity() == 0 and i in consts_ids:
                    return True
                if d.arity() > 0 and d.name() in funcs_names:
                    return True
                # Σ-functions: free constants of the summand are explicit arguments, but function symbols (array contents) stay
                # inside the λ-lifted body: look into the definition
                if d.arity() > 0 and funcs_names:
                    from . import sigma as _sigma
                    sd = _sigma.BY_DECL.get(d.name())
                    if sd is not None:
                        stack.append(sd.body)
            stack.extend(e.children())
    return False


def _terms_of(v):
    v = norm(v)
    if isinstance(v, Cx):
        return [t for p in (v.re, v.im) for t in _terms_of(p)]
    if isinstance(v, SV):
        return [v.t]
    return []


def _subst_val(v, pairs):
    v = norm(v)
    if isinstance(v, Cx):
        return Cx(_subst_val(v.re, pairs), _subst_val(v.im, pairs))
    if isinstance(v, SV):
        return sv.wrap(z3.simplify(z3.substitute(v.t, *pairs)))
    return v


def _symbolic_for(interp, s, frame, state, space):
    """apply the summary rule in place (frame/state are updated to the post-state)"""
    _, lo, hi, item_fn = space
    st = state
    where = f"{frame.fname}:{s.lineno}"
    key = (frame.fname, "for", _loop_ordinal(frame, s))
    # zero-trip: split on hi <= lo unless decided
    nonempty = interp.decide(sv.cmp(">", hi, lo))
    if not nonempty:
        if s.orelse:
            interp.exec_body_single(s.orelse, frame)
        return
    written = interp.loop_hints.get(key)
    if written is not None:
        return written(interp, s, frame, st, lo, hi, item_fn)
    side_mark = len(st.side)
    modified = sorted(_assigned_names(s.body) | _assigned_names([ast.Assign(targets=[s.target], value=ast.Constant(0))]))
    target_names = _assigned_names([ast.Assign(targets=[s.target], value=ast.Constant(0))])
    pre_env = dict(frame.env)
    pre_heap = dict(st.heap)
    # ---- dry run from a havocked state to discover what the body does
    i = sv.fresh_int("i")
    hv_consts = set()
    hv_funcs = set()

    def run_body(env_in, heap_in, ivar, extra_assume):
        fr = Frame(frame.module, dict(env_in), frame.fname)
        st2 = st.fork()
        st2.heap = dict(heap_in)
        st2.pc = list(st.pc) + [sv.zb(sv.cmp(">=", ivar, lo)), sv.zb(sv.cmp("<", ivar, hi))] + list(extra_assume)
        st2.events = []
        with use_state(st2):
            interp.assign(s.target, item_fn(ivar), fr)
            outs = interp.exec_block_paths(s.body, fr, st2)
        return outs

    # havoc scalars that are loop-carried (assigned in body and live-in)
    env_h = dict(pre_env)
    scal_h = {}
    for name in modified:
        if name in target_names:
            continue
        if name in pre_env:
            v = pre_env[name]
            if sv.is_scalar(norm(v)):
                hvv = _havoc_value(v, "h_" + name, None)
                env_h[name] = hvv
                scal_h[name] = hvv
                for t in _terms_of(hvv):
                    hv_consts.add(t.get_id())
    # arrays / lists / objects possibly stored into: discover by a first run with *no* heap havoc, record store events
    outs = run_body(env_h, pre_heap, i, [])
    normal = [(fr, st2) for fr, st2, out in outs if out[0] in ("normal", "continue")]
    abnormal = [(fr, st2, out) for fr, st2, out in outs if out[0] not in ("normal", "continue")]
    if abnormal:
        kinds = sorted({o[2][0] + (":" + str(o[2][1]) if o[2][0] == "raise" else "") for o in abnormal})
        # a body path that raises/returns/breaks: the raise must be infeasible; handled as a side obligation
        for fr, st2, out in abnormal:
            if out[0] == "raise":
                st.side.append(_side_infeasible(st2, f"loop-body-raises:{out[1]}", where))
            else:
                raise EngineError(f"loop body leaves the loop ({kinds}) — needs a written summary")
    if len(normal) != 1:
        if not normal:
            raises = [o for o in abnormal if o[2][0] == "raise"]
            if raises and len(raises) == len(abnormal):
                # every path of the body raises from an arbitrary (havocked) loop state, and the loop is entered (hi > lo was decided):
                # the first iteration raises, so does the loop statement
                del st.side[side_mark:]
                raise PyRaise(raises[0][2][1], f"every path of the loop body raises ({raises[0][2][2]})")
            raise EngineError("loop body has no normal path")
        return _summarise_multi(interp, s, frame, st, lo, hi, item_fn, normal, i, scal_h, pre_env, pre_heap, where)
    fr1, st1 = normal[0]
    st_nh = st1     # post-state of the dry run from the un-havocked pre-heap (content after one iteration as a function of the pre content)
    touched = sorted({sid for sid in st1.heap if sid in pre_heap and st1.heap[sid] is not pre_heap[sid]})
    heap_h = dict(pre_heap)
    arr_h = {}
    other_touched = []
    for sid in touched:
        c = pre_heap[sid]
        if c.kind == "arr":
            shape = c.meta["shape"]
            dt = _dtype_of_sid(pre_env, sid, st, c)
            fn = _havoc_array_content(shape, dt, f"H{sid}_")
            heap_h[sid] = Content("arr", fn, c.meta)
            arr_h[sid] = (shape, dt, fn)
        else:
            other_touched.append(sid)
    # names of havoc functions
    for sid, (shape, dt, fn) in arr_h.items():
        probe = fn(tuple(sv.fresh_int("p") for _ in shape)) if shape else fn(())
        for t in _terms_of(probe):
            if z3.is_app(t) and t.decl().arity() > 0:
                hv_funcs.add(t.decl().name())
            else:
                hv_consts.add(t.get_id())
    if arr_h or other_touched:
        outs = run_body(env_h, heap_h, i, [])
        normal = [(fr, st2) for fr, st2, out in outs if out[0] in ("normal", "continue")]
        if len(normal) != 1:
            return _summarise_multi(interp, s, frame, st, lo, hi, item_fn, normal, i, scal_h, pre_env, pre_heap, where)
        fr1, st1 = normal[0]
    # collect side obligations of the body run: they were recorded in st.side with pc including i-range → fine.
    iz = i.t
    summary_env = {}
    summary_heap = {}
    # ---- staged summarisation: every loop-carried scalar / array cell gets a closed form from the havocked dry run; a cell whose
    # effect mentions the havocked content of *another* carried cell (e.g. a value stored at the position given by a counter) is
    # retried after a new dry run in which the already summarised cells hold their closed form at iteration i instead of a havoc.
    # (The closed forms are candidates only: init/step obligations below check all of them together.)
    pend_scal = [n for n in modified if n not in target_names]
    pend_arr = list(arr_h)
    fr_c, st_c = fr1, st1
    for _stage in range(6):
        errors = []
        progress = False
        for name in list(pend_scal):
            post = fr_c.env.get(name, _MISSING)
            if post is _MISSING:
                pend_scal.remove(name)
                continue
            pre = pre_env.get(name, _MISSING)
            try:
                summary_env[name] = _summarise_value(interp, name, pre, post, env_h.get(name, _MISSING), iz, lo, hi, hv_consts, hv_funcs, st_c)
            except EngineError as e:
                errors.append(e)
                continue
            pend_scal.remove(name)
            progress = True
        for sid in list(pend_arr):
            shape, dt, hfn = arr_h[sid]
            idx = tuple(sv.fresh_int("x") for _ in shape)
            postv = st_c.heap[sid].data(idx)
            prev = hfn(idx)
            try:
                summary_heap[sid] = _summarise_array(sid, shape, dt, idx, prev, postv, iz, lo, hi, hv_consts, hv_funcs, pre_heap,
                                                     nohavoc_post=(st_nh.heap[sid].data if st_nh is not None and sid in st_nh.heap else None))
            except EngineError as e:
                errors.append(e)
                continue
            pend_arr.remove(sid)
            progress = True
        if not errors:
            break
        if not progress or other_touched:
            raise errors[0]
        env2, heap2 = dict(env_h), dict(heap_h)
        for name, summ in summary_env.items():
            if summ[0] == "sum":
                env2[name] = _instantiate(summ, i, iz, lo, pre_env.get(name, _MISSING))
        for sid, summ in summary_heap.items():
            heap2[sid] = summ(i)
        outs = run_body(env2, heap2, i, [])
        normal = [(fr, st2) for fr, st2, out in outs if out[0] in ("normal", "continue")]
        if len(normal) != 1:
            raise errors[0]
        fr_c, st_c = normal[0]
    else:
        raise errors[0]
    fr1, st1 = fr_c, st_c
    # the loop target keeps its last value
    for name in target_names:
        if name in fr1.env:
            post = fr1.env[name]
            if sv.is_scalar(norm(post)):
                summary_env[name] = ("last", post)
            else:
                summary_env[name] = ("last_obj", post)
    for sid in other_touched:
        summary_heap[sid] = _summarise_cell(interp, sid, pre_heap[sid], heap_h, st1, iz, lo, hi, hv_consts, hv_funcs)
    # ---- build state(k) and check init / step
    def state_at(k):
        env = dict(pre_env)
        heap = dict(pre_heap)
        for name, summ in summary_env.items():
            env[name] = _instantiate(summ, k, iz, lo, pre_env.get(name, _MISSING))
        for sid, summ in summary_heap.items():
            heap[sid] = summ(k)
        return env, heap

    # step check: run body from state(i) and compare with state(i+1)
    # (side obligations of the discovery runs are dropped: the ones that count are those of the step run)
    del st.side[side_mark:]
    i2 = sv.fresh_int("j")
    env_i, heap_i = state_at(i2)
    outs = run_body(env_i, heap_i, i2, [])
    normal2 = [(fr, st2) for fr, st2, out in outs if out[0] in ("normal", "continue")]
    for fr, st2, out in outs:
        if out[0] == "raise":
            st.side.append(_side_infeasible(st2, f"loop-body-raises:{out[1]}", where))
        elif out[0] not in ("normal", "continue"):
            raise EngineError("loop body leaves the loop under the summary")
    if len(normal2) != 1:
        raise EngineError("loop step check: body forks under the summary")
    fr2, st2 = normal2[0]
    env_n, heap_n = state_at(A.simp(sv.add(i2, 1)))
    goals = []
    for name in summary_env:
        a, b = fr2.env.get(name, _MISSING), env_n[name]
        if summary_env[name][0] in ("last_obj", "opaque"):
            continue
        goals.extend(_eq_goals(a, b))
    for sid, summ in summary_heap.items():
        c = pre_heap[sid]
        if c.kind == "arr":
            shape = c.meta["shape"]
            idx = tuple(sv.fresh_int("y") for _ in shape)
            rng = [sv.zb(sv.and_(sv.cmp(">=", x, 0), sv.cmp("<", x, d))) for x, d in zip(idx, shape)]
            a = st2.heap[sid].data(idx)
            b = heap_n[sid].data(idx)
            for g in _eq_goals(a, b):
                goals.append(z3.Implies(z3.And(*rng) if rng else z3.BoolVal(True), g))
        else:
            goals.extend(_cell_eq_goals(st2.heap[sid], heap_n[sid]))
    assum = st2.all_assumptions()
    for g in goals:     # one query per carried variable / array cell (small queries)
        st.side.append(_SideGoal("loop-step", g, assum, where))
    # init check: state(lo) == pre-state
    env_0, heap_0 = state_at(lo)
    goals0 = []
    for name in summary_env:
        if summary_env[name][0] in ("last", "last_obj", "opaque"):
            continue   # no value before the first iteration is claimed
        goals0.extend(_eq_goals(pre_env.get(name, _MISSING), env_0[name]))
    for sid in summary_heap:
        c = pre_heap[sid]
        if c.kind == "arr":
            shape = c.meta["shape"]
            idx = tuple(sv.fresh_int("y") for _ in shape)
            rng = [sv.zb(sv.and_(sv.cmp(">=", x, 0), sv.cmp("<", x, d))) for x, d in zip(idx, shape)]
            for g in _eq_goals(c.data(idx), heap_0[sid].data(idx)):
                goals0.append(z3.Implies(z3.And(*rng) if rng else z3.BoolVal(True), g))
        else:
            goals0.extend(_cell_eq_goals(c, heap_0[sid]))
    for g in goals0:
        st.side.append(_SideGoal("loop-init", g, st.all_assumptions(), where))
    # ---- post-state
    env_f, heap_f = state_at(hi)
    frame.env.clear()
    frame.env.update(env_f)
    for name, summ in summary_env.items():
        if summ[0] in ("last", "last_obj"):
            frame.env[name] = _instantiate(summ, hi, iz, lo, None)
    for sid, c in heap_f.items():
        if sid in summary_heap:
            st.heap[sid] = c
            st.events.append(("store", sid, where, list(st.pc)))
    # new allocations made by the last iteration that remain referenced by last-value variables
    _import_last_iteration_cells(fr1, st1, st, iz, hi, summary_env, frame)
    if s.orelse:
        interp.exec_body_single(s.orelse, frame)


_MISSING = object()


def _loop_ordinal(frame, s):
    """ordinal of this loop among the loops of its function (by source order)"""
    return getattr(s, "_pyvc_ordinal", s.lineno)


class _SideGoal:
    """side obligation with explicit assumptions (SideOb-compatible)"""
    def __init__(self, kind, cond, pc, where):
        self.kind, self.cond, self.pc, self.where = kind, cond, pc, where
        self.explicit = True


def _side_infeasible(st2, kind, where):
    return _SideGoal(kind, z3.BoolVal(False), st2.all_assumptions(), where)


def _dtype_of_sid(env, sid, st, c):
    for v in env.values():
        if isinstance(v, A.Arr) and v.sid == sid:
            return v.dtype
    dt = c.meta.get("dtype")
    if dt:
        return dt
    # look through object attributes / dataframes
    for cell in st.heap.values():
        if cell.kind == "obj":
            for v in cell.data.values():
                if isinstance(v, A.Arr) and v.sid == sid:
                    return v.dtype
        if cell.kind == "df":
            for v in cell.data["cols"].values():
                if isinstance(v, A.Arr) and v.sid == sid:
                    return v.dtype
        if cell.kind == "list" and not isinstance(cell.data, A.SeqVal):
            for v in cell.data:
                if isinstance(v, A.Arr) and v.sid == sid:
                    return v.dtype
    return "float"


def _eq_goals(a, b):
    if a is _MISSING or b is _MISSING:
        return [z3.BoolVal(a is b)]
    a, b = norm(a), norm(b)
    if isinstance(a, Cx) or isinstance(b, Cx):
        a, b = sv.as_cx(a), sv.as_cx(b)
        return _eq_goals(a.re, b.re) + _eq_goals(a.im, b.im)
    if sv.is_scalar(a) and sv.is_scalar(b):
        r = sv.cmp("==", a, b)
        if is_conc(r):
            return [z3.BoolVal(bool(r))]
        return [r.t]
    if isinstance(a, A.Arr) and isinstance(b, A.Arr):
        if a.sid == b.sid:
            return []
        return [z3.BoolVal(False)]
    if a is b:
        return []
    if isinstance(a, Ref) and isinstance(b, Ref) and a.sid == b.sid:
        return []
    if isinstance(a, (tuple,)) and isinstance(b, tuple) and len(a) == len(b):
        out = []
        for x, y in zip(a, b):
            out.extend(_eq_goals(x, y))
        return out
    if type(a) is type(b) and isinstance(a, (str, type(None))):
        return [z3.BoolVal(a == b)]
    return [z3.BoolVal(False)]


def _summarise_value(interp, name, pre, post, hv, iz, lo, hi, hv_consts, hv_funcs, st1):
    post = norm(post) if sv.is_scalar(norm(post)) else post
    if sv.is_scalar(post):
        pts = _terms_of(post)
        mentions = any(_contains_any(t, hv_consts, hv_funcs) for t in pts)
        if not mentions:
            return ("last", post)
        if hv is _MISSING or not sv.is_scalar(norm(hv)):
            raise EngineError(f"loop variable {name}: depends on loop-carried state in an unsupported way")
        delta = sv.sub(post, hv)
        dts = [z3.simplify(t) for t in _terms_of(delta)]
        if any(_contains_any(t, hv_consts, hv_funcs) for t in dts):
            raise EngineError(f"loop variable {name}: not an accumulation (v' - v depends on loop-carried state)")
        return ("sum", delta)
    # non-scalar: allowed if it does not depend on carried state → last-value object
    return ("last_obj", post)


def _instantiate(summ, k, iz, lo, pre):
    kind = summ[0]
    if kind == "sum":
        delta = summ[1]
        return sv.add(pre, _iter_sum(lo, k, delta, iz, []))
    if kind == "last":
        # value produced by iteration k-1
        return _subst_val(summ[1], [(iz, sv.znum(A.simp(sv.sub(k, 1))))])
    if kind == "last_obj":
        return summ[1]
    raise EngineError(kind)


def _iter_sum(lo, k, delta, iz, pairs):
    """sum_{t=lo}^{k-1} delta[i:=t]  for a loop summary state(k), lo <= k (k ranges over lo, the iteration variable, its successor, hi).
    A summand that does not depend on the iteration is summed in closed form: delta * (k - lo)  (constant sum, valid for k >= lo)."""
    if not any(_mentions(t, iz) for t in _terms_of(delta)):
        d = _subst_val(delta, pairs) if pairs else delta
        return sv.mul(d, A.simp(sv.sub(k, lo)))
    return Sum(lo, k, lambda t: _subst_val(delta, pairs + [(iz, sv.znum(t))]))


def _summarise_array(sid, shape, dt, idx, prev, postv, iz, lo, hi, hv_consts, hv_funcs, pre_heap, nohavoc_post=None):
    """closed form for the content of an array cell after k iterations"""
    pre_fn = pre_heap[sid].data
    meta = pre_heap[sid].meta
    idz = [x.t for x in idx]
    # (1) accumulation: post - prev free of havoc
    delta = sv.sub(postv, prev)
    dts = [z3.simplify(t) for t in _terms_of(delta)]
    if not any(_contains_any(t, hv_consts, hv_funcs) for t in dts):
        delta = _subst_val(delta, [])  # simplified

        def at(k):
            def fn(ix, k=k):
                pairs = [(a, sv.znum(b)) for a, b in zip(idz, ix)]
                return sv.add(pre_fn(ix), _iter_sum(lo, k, delta, iz, pairs))
            return Content("arr", A._memo(fn), meta)
        return at
    # (2) scatter store: post = ite(cond(i, idx), e(i, idx), prev) with cond selecting idx_k == g_k(i) on some axes
    dec = _decompose_store(postv, prev)
    if dec is not None:
        cond, val = dec   # z3 bool cond(i, idx), value (SV/Cx) not mentioning havoc
        vts = _terms_of(val) + [cond]
        if not any(_contains_any(t, hv_consts, hv_funcs) for t in vts):
            sol = _solve_writer(cond, iz, idz)
            if sol is not None:
                w, residual = sol   # writer iteration as a term over idx; residual condition over idx (with i:=w)

                def at(k):
                    def fn(ix, k=k):
                        pairs = [(a, sv.znum(b)) for a, b in zip(idz, ix)]
                        wk = z3.simplify(z3.substitute(w, *pairs))
                        c = z3.And(wk >= sv.znum(lo), wk < sv.znum(k), z3.substitute(residual, *pairs))
                        v = _subst_val(_subst_val(val, [(iz, w)]), pairs)
                        return ite(sv.wrap(z3.simplify(c)), v, lambda: pre_fn(ix))
                    return Content("arr", A._memo(fn), meta)
                return at
    # (3) in-place map of disjoint regions: A[g(i), ...] = f(A[g(i), ...]) — every cell is written by at most one iteration and an
    # iteration reads only cells no earlier iteration wrote.  Candidate from the dry run on the *un-havocked* pre content:
    # post = ite(cond(i, idx), val(i, idx; pre content), pre)  =>  state(k) = ite(writer(idx) in [lo,k) and residual, val(writer), pre).
    # (candidate only: the step obligation checks it, including the "reads no written cell" part)
    if nohavoc_post is not None:
        pre_v = pre_fn(idx)
        dec = _decompose_store(nohavoc_post(idx), pre_v)
        if dec is not None:
            cond, val = dec
            if not any(_contains_any(t, hv_consts, hv_funcs) for t in _terms_of(val) + [cond]):
                sol = _solve_writer(cond, iz, idz)
                if sol is not None:
                    w, residual = sol

                    def at(k):
                        def fn(ix, k=k):
                            pairs = [(a, sv.znum(b)) for a, b in zip(idz, ix)]
                            wk = z3.simplify(z3.substitute(w, *pairs))
                            c = z3.And(wk >= sv.znum(lo), wk < sv.znum(k), z3.substitute(residual, *pairs))
                            v = _subst_val(_subst_val(val, [(iz, w)]), pairs)
                            return ite(sv.wrap(z3.simplify(c)), v, lambda: pre_fn(ix))
                        return Content("arr", A._memo(fn), meta)
                    return at
    raise EngineError(f"array #{sid}: loop effect is neither an accumulation nor an affine scatter store — needs a written summary")


def _decompose_store(postv, prev):
    """post == If(cond, val, prev) (componentwise for complex) -> (cond, val)"""
    postv, prev = norm(postv), norm(prev)
    if isinstance(postv, Cx):
        if not isinstance(prev, Cx):
            return None
        a = _decompose_store(postv.re, prev.re)
        b = _decompose_store(postv.im, prev.im)
        if a is None or b is None:
            return None
        if not a[0].eq(b[0]):
            return None
        return a[0], Cx(a[1], b[1])
    if not isinstance(postv, SV) or not isinstance(prev, SV):
        return None
    t = postv.t
    if z3.is_app(t) and t.decl().kind() == z3.Z3_OP_ITE:
        c, x, y = t.children()
        if y.eq(prev.t):
            return c, sv.wrap(x)
        if x.eq(prev.t):
            return z3.Not(c), sv.wrap(y)
    return None


def _solve_writer(cond, iz, idz):
    """cond(i, idx) contains an equation idx_k == i + c (or i == idx_k + c): return (writer term w(idx), residual)"""
    conj = []

    def flat(c):
        if z3.is_and(c):
            for ch in c.children():
                flat(ch)
        else:
            conj.append(c)
    flat(z3.simplify(cond))
    for n, c in enumerate(conj):
        if z3.is_eq(c):
            a, b = c.children()
            d = z3.simplify(a - b)
            # try: d == i*1 + rest(idx)  -> i = -rest ; or d == -i + rest -> i = rest
            for sign in (1, -1):
                rest = z3.simplify(d - sign * iz)
                if not _mentions(rest, iz):
                    w = z3.simplify(-sign * rest) if sign == 1 else z3.simplify(rest)
                    if z3.is_int(w):
                        others = conj[:n] + conj[n + 1:]
                        residual = z3.And(*others) if others else z3.BoolVal(True)
                        residual = z3.substitute(residual, (iz, w))
                        return w, residual
    return None


def _mentions(t, c):
    cid = c.get_id()
    seen = set()
    stack = [t]
    while stack:
        e = stack.pop()
        if e.get_id() in seen:
            continue
        seen.add(e.get_id())
        if e.get_id() == cid:
            return True
        stack.extend(e.children())
    return False


def _summarise_cell(interp, sid, pre_cell, heap_h, st1, iz, lo, hi, hv_consts, hv_funcs):
    """non-array heap cells touched by the body: python lists (append), dataframes (column updates), objects"""
    post_cell = st1.heap[sid]
    if pre_cell.kind == "list":
        pre, post = pre_cell.data, post_cell.data
        if not isinstance(pre, A.SeqVal) and not isinstance(post, A.SeqVal):
            k0 = len(pre)
            added = post[k0:]
            if tuple(post[:k0]) == tuple(pre) and len(added) >= 1 and all(sv.is_scalar(norm(x)) for x in added):
                m = len(added)
                for x in added:
                    if any(_contains_any(t, hv_consts, hv_funcs) for t in _terms_of(x)):
                        raise EngineError("appended value depends on loop-carried state")

                def at(k, pre=pre, added=added, m=m, k0=k0):
                    n_iter = A.simp(sv.sub(k, lo))
                    length = A.simp(sv.add(k0, sv.mul(m, n_iter)))

                    def fn(p):
                        # p < k0: original; else iteration t = lo + (p-k0)//m, slot (p-k0)%m
                        if is_conc(p) and p < k0:
                            return pre[int(p)]
                        rel = sv.sub(p, k0)
                        if m == 1:
                            t = A.simp(sv.add(lo, rel))
                            v = _subst_val(added[0], [(iz, sv.znum(t))])
                        else:
                            raise EngineError("several appends per iteration")
                        if k0 == 0:
                            return v
                        return ite(sv.cmp("<", p, k0), lambda: A._pick([norm(x) for x in pre], p), v)
                    return Content("list", A.SeqVal(length, fn), pre_cell.meta)
                return at
        raise EngineError("list mutated in a symbolic loop in an unsupported way")
    if pre_cell.kind == "df":
        from .pandas_model import summarise_df_cell
        return summarise_df_cell(interp, sid, pre_cell, post_cell, heap_h, st1, iz, lo, hi, hv_consts, hv_funcs)
    raise EngineError(f"heap cell of kind {pre_cell.kind} modified in a symbolic loop")


def _cell_eq_goals(a, b):
    if a.kind == "list" and b.kind == "list":
        ca, cb = a.data, b.data
        la = ca.length if isinstance(ca, A.SeqVal) else len(ca)
        lb = cb.length if isinstance(cb, A.SeqVal) else len(cb)
        goals = _eq_goals(la, lb)
        p = sv.fresh_int("p")
        fa = ca.fn if isinstance(ca, A.SeqVal) else (lambda q, ca=ca: A._pick([norm(x) for x in ca], q))
        fb = cb.fn if isinstance(cb, A.SeqVal) else (lambda q, cb=cb: A._pick([norm(x) for x in cb], q))
        if (isinstance(ca, A.SeqVal) or len(ca) > 0) and (isinstance(cb, A.SeqVal) or len(cb) > 0):
            rng = sv.zb(sv.and_(sv.cmp(">=", p, 0), sv.cmp("<", p, la)))
            for g in _eq_goals(fa(p), fb(p)):
                goals.append(z3.Implies(rng, g))
        return goals
    if a.kind == "df" and b.kind == "df":
        from .pandas_model import df_cell_eq_goals
        return df_cell_eq_goals(a, b, _eq_goals)
    return [z3.BoolVal(a is b)]


def _import_last_iteration_cells(fr1, st1, st, iz, hi, summary_env, frame):
    """objects allocated by the (symbolic) last iteration and still referenced afterwards: instantiate at i = hi-1"""
    last = sv.znum(A.simp(sv.sub(hi, 1)))
    for name, summ in summary_env.items():
        if summ[0] != "last_obj":
            continue
        v = summ[1]
        frame.env[name] = _rebind_obj(v, st1, st, iz, last)


def _rebind_obj(v, st1, st, iz, last):
    if isinstance(v, A.Arr):
        c = st1.heap.get(v.sid)
        if c is None:
            return v
        if v.sid in st.heap and st.heap[v.sid] is c:
            return v
        fn = c.data

        def fn2(idx, fn=fn):
            return _subst_val(fn(idx), [(iz, last)])
        meta = dict(c.meta)
        meta["shape"] = tuple(_subst_val(d, [(iz, last)]) for d in meta["shape"])
        sid = st.alloc(Content("arr", A._memo(fn2), meta))
        view = v.view
        if view is not None:
            nb = [spec if spec[0] == "fix" and is_conc(spec[1]) else
                  (("fix", _subst_val(spec[1], [(iz, last)])) if spec[0] == "fix" else ("rng", _subst_val(spec[1], [(iz, last)]), spec[2]))
                  for spec in view.base]
            view = A.View(nb, [_subst_val(d, [(iz, last)]) for d in view.shape])
        return A.Arr(sid, view, v.dtype)
    if isinstance(v, tuple):
        return tuple(_rebind_obj(x, st1, st, iz, last) for x in v)
    if sv.is_scalar(norm(v)):
        return _subst_val(v, [(iz, last)])
    return v


def _summarise_multi(interp, s, frame, st, lo, hi, item_fn, normal, i, scal_h, pre_env, pre_heap, where):
    raise EngineError(f"loop body at {where} forks into {len(normal)} paths — needs a written summary or mergeable branches")
