"""Loop rule.

* concrete iteration space: unrolled (every iteration is executed);
* symbolic ``for i in range(lo, hi)`` / ``for x in <symbolic-length sequence>``: the loop is
  replaced by a *closed-form summary* state(i) that is checked inductively:
      init:  state(lo)  == pre-state
      step:  executing the body once from state(i) (lo <= i < hi) yields state(i+1)
  and the post-state is state(hi).  The summary comes from the sidecar (written) or is synthesised
  from one symbolic execution of the body from a havocked state for the shapes
      v = v + δ(i)                (sum)
      A[idx] = A[idx] + δ(i,idx)  (element-wise accumulation / scatter-add)
      A[g(i)] = e(i)              (scatter store with affine injective g: i + c)
      v = e(i)                    (last value)
      L.append(e(i))              (sequence)
  Both kinds are checked by the same SMT obligations (`loop:init`, `loop:step`), so soundness does not
  rest on how the summary was found.
"""
from __future__ import annotations

import ast
import os

import z3

from . import arr as A
from . import sv
from .interp import Fork, Frame, PyRaise, Ref, _Break, _Continue, _Return
from .sigma import Sum
from .state import Content, cur, use_state
from .sv import SV, Cx, EngineError, is_conc, ite, norm


def _iter_space(interp, s, frame):
    """-> ('conc', items) | ('sym', lo, hi, item_fn)"""
    from .lib import RangeVal
    itv = interp.eval(s.iter, frame)
    if isinstance(itv, RangeVal):
        if itv.concrete():
            return ("conc", list(itv.to_range()))
        if not (is_conc(itv.step) and itv.step == 1):
            raise EngineError("symbolic range with step")
        return ("sym", itv.start, itv.stop, lambda i: i)
    sym = interp.symbolic_iter(itv)
    if sym is not None:
        n, item = sym
        return ("sym", 0, n, item)
    return ("conc", interp.iter_concrete(itv))


def exec_loop_single(interp, s, frame):
    """loop inside single-path context (nested function / loop body): concrete spaces are unrolled,
    symbolic loops use the summary rule; forks propagate."""
    if isinstance(s, ast.While):
        return _while_single(interp, s, frame)
    space = _iter_space(interp, s, frame)
    if space[0] == "conc":
        for it in space[1]:
            interp.assign(s.target, it, frame)
            try:
                interp.exec_body_single(s.body, frame)
            except _Break:
                return
            except _Continue:
                continue
        if s.orelse:
            interp.exec_body_single(s.orelse, frame)
        return
    _symbolic_for(interp, s, frame, cur(), space)


def _while_single(interp, s, frame):
    n = 0
    while True:
        c = interp.decide(interp.eval(s.test, frame))
        if not c:
            break
        try:
            interp.exec_body_single(s.body, frame)
        except _Break:
            return
        except _Continue:
            pass
        n += 1
        if n > 10000:
            raise EngineError("while loop does not terminate in the engine")


def exec_loop_paths(interp, s, frame, state):
    if isinstance(s, ast.While):
        return _while_paths(interp, s, frame, state)
    fr0, st0 = frame.clone(), state.fork()
    try:
        with use_state(state):
            state.where = f"{frame.fname}:{s.lineno}"
            space = _iter_space(interp, s, frame)
    except Fork as f:
        return interp._split(f, fr0, st0, lambda fr, st: exec_loop_paths(interp, s, fr, st), 0)
    except PyRaise as e:
        return [(frame, state, ("raise", e.exc_type, e.msg))]
    if space[0] == "conc":
        paths = [(frame, state)]
        results = []
        for it in space[1]:
            nxt = []
            for fr, st in paths:
                with use_state(st):
                    interp.assign(s.target, it, fr)
                for fr2, st2, out in interp.exec_block_paths(s.body, fr, st):
                    if out[0] in ("normal", "continue"):
                        nxt.append((fr2, st2))
                    elif out[0] == "break":
                        results.append((fr2, st2, ("normal",)))
                    else:
                        results.append((fr2, st2, out))
            paths = nxt
        for fr, st in paths:
            if s.orelse:
                results.extend(interp.exec_block_paths(s.orelse, fr, st))
            else:
                results.append((fr, st, ("normal",)))
        return results
    try:
        with use_state(state):
            _symbolic_for(interp, s, frame, state, space)
    except Fork as f:
        # the zero-trip test (hi > lo) is not decided by the path condition: split on it (taken before any effect)
        return interp._split(f, fr0, st0, lambda fr, st: exec_loop_paths(interp, s, fr, st), 0)
    except PyRaise as e:
        return [(frame, state, ("raise", e.exc_type, e.msg))]
    return [(frame, state, ("normal",))]


def _while_paths(interp, s, frame, state):
    hint = interp.loop_hints.get((frame.fname, "while", s.lineno)) or interp.loop_hints.get((frame.fname, "while"))
    if hint is not None:
        return hint(interp, s, frame, state)
    # bounded unrolling of a while loop with concretely decidable tests
    paths = [(frame, state)]
    results = []
    for _ in range(10000):
        if not paths:
            break
        nxt = []
        for fr, st in paths:
            with use_state(st):
                try:
                    c = interp.decide(interp.eval(s.test, fr))
                except Fork:
                    raise EngineError("while loop with symbolic test needs a written summary")
            if not c:
                results.append((fr, st, ("normal",)))
                continue
            for fr2, st2, out in interp.exec_block_paths(s.body, fr, st):
                if out[0] in ("normal", "continue"):
                    nxt.append((fr2, st2))
                elif out[0] == "break":
                    results.append((fr2, st2, ("normal",)))
                else:
                    results.append((fr2, st2, out))
        paths = nxt
    if paths:
        raise EngineError("while loop: iteration bound exceeded")
    return results


# ----------------------------------------------------------------------------------------------
# symbolic for-loops


def _assigned_names(stmts):
    names = set()
    for n in ast.walk(ast.Module(body=list(stmts), type_ignores=[])):
        if isinstance(n, ast.Name) and isinstance(n.ctx, (ast.Store, ast.Del)):
            names.add(n.id)
    return names


class LoopObligation:
    def __init__(self, kind, goal, assumptions, where):
        self.kind, self.goal, self.assumptions, self.where = kind, goal, assumptions, where


def _havoc_value(v, tag, heap_updates):
    """fresh unconstrained value of the same 'shape' as v"""
    v = norm(v)
    if isinstance(v, Cx):
        return Cx(sv.fresh_real(tag + "re"), sv.fresh_real(tag + "im"))
    if isinstance(v, bool):
        return sv.fresh_bool(tag)
    if isinstance(v, int):
        return sv.fresh_int(tag)
    if isinstance(v, sv.Fraction):
        return sv.fresh_real(tag)
    if isinstance(v, SV):
        return sv.fresh_bool(tag) if v.is_bool else (sv.fresh_int(tag) if v.is_int else sv.fresh_real(tag))
    return v


def _havoc_array_content(shape, dtype, tag):
    nd = len(shape)
    if dtype == "complex":
        fre = z3.Function(sv.fresh_name(tag + "re"), *([z3.IntSort()] * nd), z3.RealSort()) if nd else None
        fim = z3.Function(sv.fresh_name(tag + "im"), *([z3.IntSort()] * nd), z3.RealSort()) if nd else None
        if nd == 0:
            c = Cx(sv.fresh_real(tag), sv.fresh_real(tag))
            return lambda idx: c
        return lambda idx: Cx(SV(fre(*[sv.znum(i) for i in idx])), SV(fim(*[sv.znum(i) for i in idx])))
    sort = {"float": z3.RealSort(), "int": z3.IntSort(), "bool": z3.BoolSort()}.get(dtype)
    if sort is None:
        raise EngineError(f"havoc of array dtype {dtype}")
    if nd == 0:
        c = SV(z3.Const(sv.fresh_name(tag), sort))
        return lambda idx: c
    f = z3.Function(sv.fresh_name(tag), *([z3.IntSort()] * nd), sort)
    return lambda idx: SV(f(*[sv.znum(i) for i in idx]))


def _contains_any(term, consts_ids, funcs_names):
    """does a z3 term mention any of the given constants (by ast id) or function symbols (by name)?"""
    seen = set()
    stack = [term]
    while stack:
        e = stack.pop()
        i = e.get_id()
        if i in seen:
            continue
        seen.add(i)
        if z3.is_app(e):
            d = e.decl()
            if d.kind() == z3.Z3_OP_UNINTERPRETED:
                if d.arity() == 0 and i in consts_ids:
                    return True
                if d.arity() > 0 and d.name() in funcs_names:
                    return True
                # Σ-functions: free constants of the summand are explicit arguments, but function symbols (array contents) stay
                # inside the λ-lifted body: look into the definition
                if d.arity() > 0 and funcs_names:
                    from . import sigma as _sigma
                    sd = _sigma.BY_DECL.get(d.name())
                    if sd is not None:
                        stack.append(sd.body)
            stack.extend(e.children())
    return False


def _terms_of(v):
    v = norm(v)
    if isinstance(v, Cx):
        return [t for p in (v.re, v.im) for t in _terms_of(p)]
    if isinstance(v, SV):
        return [v.t]
    return []


def _subst_val(v, pairs):
    v = norm(v)
    if isinstance(v, Cx):
        return Cx(_subst_val(v.re, pairs), _subst_val(v.im, pairs))
    if isinstance(v, SV):
        return sv.wrap(z3.simplify(z3.substitute(v.t, *pairs)))
    return v


def _symbolic_for(interp, s, frame, state, space, promoted=None):
    """apply the summary rule in place (frame/state are updated to the post-state)"""
    _, lo, hi, item_fn = space
    st = state
    where = f"{frame.fname}:{s.lineno}"
    CONST_SUM_CLOSED[0] = bool((getattr(interp, "loop_opts", None) or {}).get("const_sum_closed"))
    key = (frame.fname, "for", _loop_ordinal(frame, s))
    # zero-trip: split on hi <= lo unless decided
    merged, zero_fork = False, None
    try:
        nonempty = interp.decide(sv.cmp(">", hi, lo))
    except Fork as f:
        # zero-trip not decided.  The closed forms below (sums, accumulations, scatter stores, file positions) also
        # describe the empty loop (they reduce to the pre-state for hi <= lo), so the loop is summarised without a
        # case split when every effect has such a form; variables that only have a last-iteration value become
        # unbound markers (any later use is `unsupported`, never a wrong value).  Otherwise the split is taken.
        if s.orelse or not getattr(interp, "merge_zero_trip", True):
            raise
        merged, zero_fork, nonempty = True, f, True
    if not nonempty:
        if s.orelse:
            interp.exec_body_single(s.orelse, frame)
        return
    written = interp.loop_hints.get(key) or interp.loop_hints.get((frame.fname, "for", ast.unparse(s.iter)))
    if written is None and getattr(item_fn, "guard", None) is not None:
        written = interp.loop_hints.get((frame.fname, "for", "<mask-selection>"))
    if written is not None:
        return written(interp, s, frame, st, lo, hi, item_fn)
    rule = interp.loop_hints.get((frame.fname, "for", "*"))
    if rule is not None:
        # a rule offered for every symbolic loop of the function; it declines with NotImplemented
        if rule(interp, s, frame, st, lo, hi, item_fn) is not NotImplemented:
            return None
    if getattr(item_fn, "guard", None) is not None:
        raise EngineError("loop over a boolean-mask selection needs a written summary (guarded iteration space)")
    side_mark = len(st.side)
    modified = sorted(_assigned_names(s.body) | _assigned_names([ast.Assign(targets=[s.target], value=ast.Constant(0))]))
    target_names = _assigned_names([ast.Assign(targets=[s.target], value=ast.Constant(0))])
    pre_env = dict(frame.env)
    pre_heap = dict(st.heap)
    # ---- dry run from a havocked state to discover what the body does
    i = sv.fresh_int("i")
    hv_consts = set()
    hv_funcs = set()

    def run_body(env_in, heap_in, ivar, extra_assume):
        fr = Frame(frame.module, dict(env_in), frame.fname)
        st2 = st.fork()
        st2.heap = dict(heap_in)
        st2.pc = list(st.pc) + [sv.zb(sv.cmp(">=", ivar, lo)), sv.zb(sv.cmp("<", ivar, hi))] + list(extra_assume)
        st2.events = []
        with use_state(st2):
            interp.assign(s.target, item_fn(ivar), fr)
            outs = interp.exec_block_paths(s.body, fr, st2)
        return outs

    # havoc scalars that are loop-carried (assigned in body and live-in)
    env_h = dict(pre_env)
    scal_h = {}
    for name in modified:
        if name in target_names:
            continue
        if name in pre_env:
            v = pre_env[name]
            if sv.is_scalar(norm(v)):
                hvv = _havoc_value(v, "h_" + name, None)
                env_h[name] = hvv
                scal_h[name] = hvv
                for t in _terms_of(hvv):
                    hv_consts.add(t.get_id())
    # arrays / lists / objects possibly stored into: discover by a first run with *no* heap havoc, record store events
    outs = run_body(env_h, pre_heap, i, [])
    normal = [(fr, st2) for fr, st2, out in outs if out[0] in ("normal", "continue")]
    abnormal = [(fr, st2, out) for fr, st2, out in outs if out[0] not in ("normal", "continue")]
    if abnormal:
        kinds = sorted({o[2][0] + (":" + str(o[2][1]) if o[2][0] == "raise" else "") for o in abnormal})
        # a body path that raises/returns/breaks: the raise must be infeasible; handled as a side obligation
        for fr, st2, out in abnormal:
            if out[0] == "raise":
                st.side.append(_side_infeasible(st2, f"loop-body-raises:{out[1]}", where))
            else:
                raise EngineError(f"loop body leaves the loop ({kinds}) — needs a written summary")
    if len(normal) != 1:
        if not normal:
            raises = [o for o in abnormal if o[2][0] == "raise"]
            if raises and len(raises) == len(abnormal):
                # every path of the body raises from an arbitrary (havocked) loop state, and the loop is entered (hi > lo was decided):
                # the first iteration raises, so does the loop statement
                del st.side[side_mark:]
                # a path that stops at an ENGINE LIMIT (unmodelled library function) is not a raise of the code: if any of the raising
                # paths is one, the loop statement stops at an engine limit too (UNDECIDED), whatever the other paths raise
                limit = [o for o in raises if o[2][1] == "unresolved-callee"]
                if limit:
                    raise PyRaise("unresolved-callee", f"every path of the loop body raises ({limit[0][2][2]})")
                raise PyRaise(raises[0][2][1], f"every path of the loop body raises ({raises[0][2][2]})")
            raise EngineError("loop body has no normal path")
        normal = [_merge_paths(normal, where, lenient=promoted is None)]
    fr1, st1 = normal[0]
    # ---- accumulators initialised with a number (or an integer frame column) that the first iteration turns into an array
    # (``acc = 0; for ...: acc += <array>``): summarise from the promoted pre-state, base case checked after iteration lo
    if promoted is None and _promotion_signals(pre_env, pre_heap, scal_h, fr1, st1):
        if merged:
            raise zero_fork      # the promoted closed form describes >= 1 iterations only: take the zero-trip split
        side0 = len(st.side)
        outs_p = run_body(pre_env, pre_heap, A.simp(norm(lo)), [])
        normal_p = [(fr, st2) for fr, st2, out in outs_p if out[0] in ("normal", "continue")]
        for fr, st2, out in outs_p:
            if out[0] == "raise":
                st.side.append(_side_infeasible(st2, f"loop-body-raises:{out[1]}", where))
            elif out[0] not in ("normal", "continue"):
                raise EngineError("loop body leaves the loop in its first iteration")
        if not normal_p:
            raise EngineError("first loop iteration has no normal path")
        fr_p, st_p = _merge_paths(normal_p, where, lenient=True) if len(normal_p) > 1 else normal_p[0]
        keep_side = st.side[side0:]
        del st.side[side_mark:]
        prom = _promote(pre_env, pre_heap, fr_p, st_p, st)
        if prom is not None:
            env2, gmap = prom
            frame.env.clear()
            frame.env.update(env2)
            r = _symbolic_for(interp, s, frame, state, space, promoted=(fr_p, st_p, gmap, pre_env, pre_heap))
            st.side.extend(keep_side)
            return r
    st_nh = st1     # post-state of the dry run from the un-havocked pre-heap (content after one iteration as a function of the pre content)
    touched = sorted({sid for sid in st1.heap if sid in pre_heap and st1.heap[sid] is not pre_heap[sid]})
    heap_h = dict(pre_heap)
    arr_h = {}
    other_touched = []
    file_h = {}
    for sid in touched:
        c = pre_heap[sid]
        if c.kind == "arr":
            shape = c.meta["shape"]
            dt = _dtype_of_sid(pre_env, sid, st, c)
            fn = _havoc_array_content(shape, dt, f"H{sid}_")
            heap_h[sid] = Content("arr", fn, c.meta)
            arr_h[sid] = (shape, dt, fn)
        else:
            other_touched.append(sid)
            if c.kind == "file" and c.data.get("mode") != "w":
                # abstract read position of an open file handle: loop-carried integer
                hp = sv.fresh_int(f"hpos{sid}_")
                heap_h[sid] = Content("file", dict(c.data, pos=hp), c.meta)
                file_h[sid] = hp
                hv_consts.add(hp.t.get_id())
    # names of havoc functions
    for sid, (shape, dt, fn) in arr_h.items():
        probe = fn(tuple(sv.fresh_int("p") for _ in shape)) if shape else fn(())
        for t in _terms_of(probe):
            if z3.is_app(t) and t.decl().arity() > 0:
                hv_funcs.add(t.decl().name())
            else:
                hv_consts.add(t.get_id())
    # objects whose scalar attributes advance per iteration (e.g. a reading position): their closed form at iteration i is
    # taken from the first run and used as the pre-state of the second one, so that values computed from them are expressed
    # in the loop index (validated, like every summary, by the step obligation)
    obj_summ = {}
    for sid in other_touched:
        if pre_heap[sid].kind == "obj":
            obj_summ[sid] = _summarise_cell(interp, sid, pre_heap[sid], heap_h, st1, iz_early(i), lo, hi, hv_consts, hv_funcs)
            heap_h[sid] = obj_summ[sid](i)
    if arr_h or other_touched:
        outs = run_body(env_h, heap_h, i, [])
        normal = [(fr, st2) for fr, st2, out in outs if out[0] in ("normal", "continue")]
        if len(normal) != 1:
            if not normal:
                raise EngineError("loop body has no normal path")
            normal = [_merge_paths(normal, where)]
        fr1, st1 = normal[0]
    # collect side obligations of the body run: they were recorded in st.side with pc including i-range → fine.
    iz = i.t
    summary_env = {}
    summary_heap = {}
    # ---- derived induction variables: a file position advancing by a loop-invariant amount has the closed form
    #      pos(i) = pos0 + delta (i - lo); it is substituted into the other effects before they are analysed
    #      (the closed forms are checked by the same init/step obligations)
    resolved = []
    for sid, hp in file_h.items():
        postp = st1.heap[sid].data.get("pos")
        d = sv.sub(postp, hp)
        dts = [z3.simplify(t) for t in _terms_of(d)]
        if not any(_contains_any(t, hv_consts, hv_funcs) or _mentions(t, iz) for t in dts):
            closed = sv.add(pre_heap[sid].data["pos"], sv.mul(d, sv.sub(i, lo)))
            resolved.append((hp.t, sv.znum(closed)))
    # ---- staged summarisation: every loop-carried scalar / array cell gets a closed form from the havocked dry run; a cell whose
    # effect mentions the havocked content of *another* carried cell (e.g. a value computed from an array the same loop updates in
    # place) is retried after a new dry run in which the already summarised cells hold their closed form at iteration i instead
    # of a havoc.  (The closed forms are candidates only: the init/step obligations below check all of them together.)
    pend_scal = [n for n in modified if n not in target_names]
    pend_arr = list(arr_h)
    fr_c, st_c = fr1, st1
    for _stage in range(6):
        errors = []
        progress = False
        for name in list(pend_scal):
            post = fr_c.env.get(name, _MISSING)
            if post is _MISSING:
                pend_scal.remove(name)
                continue
            if resolved and sv.is_scalar(norm(post)):
                post = _subst_val(post, resolved)
            pre = pre_env.get(name, _MISSING)
            try:
                summary_env[name] = _summarise_value(interp, name, pre, post, env_h.get(name, _MISSING), iz, lo, hi, hv_consts, hv_funcs, st_c)
            except EngineError as e:
                errors.append(e)
                continue
            pend_scal.remove(name)
            progress = True
        # carried scalars with a closed form (accumulations): their value at the start of iteration i is substituted for the havoc
        # constant in the other effects (array stores, written texts) before those are analysed
        done_res = {a.get_id() for a, _ in resolved}
        for name, summ in summary_env.items():
            if summ[0] == "sum" and name in scal_h and isinstance(scal_h[name], SV) and pre_env.get(name, _MISSING) is not _MISSING \
                    and scal_h[name].t.get_id() not in done_res:
                closed = _instantiate(summ, i, iz, lo, pre_env[name], const_closed=not merged)
                if sv.is_scalar(norm(closed)):
                    resolved.append((scal_h[name].t, sv.znum(closed) if not scal_h[name].is_real else sv.zr(closed)))
        for sid in list(pend_arr):
            shape, dt, hfn = arr_h[sid]
            idx = tuple(sv.fresh_int("x") for _ in shape)
            postv = st_c.heap[sid].data(idx)
            prev = hfn(idx)
            if resolved:
                # (not the cell's own counter: its increment is relative to its own previous content)
                own = {t.get_id() for t in _terms_of(prev)}
                res2 = [(a, b) for a, b in resolved if a.get_id() not in own]
                if res2:
                    postv = _subst_val(postv, res2)
            try:
                summary_heap[sid] = _summarise_array(sid, shape, dt, idx, prev, postv, iz, lo, hi, hv_consts, hv_funcs, pre_heap, interp.loop_opts,
                                                     nohavoc_post=(st_nh.heap[sid].data if sid in st_nh.heap else None))
            except EngineError as e:
                errors.append(e)
                continue
            pend_arr.remove(sid)
            progress = True
        if not errors:
            break
        if not progress or other_touched or _stage == 5:
            raise errors[0]
        env2, heap2 = dict(env_h), dict(heap_h)
        for name, summ in summary_env.items():
            if summ[0] == "sum":
                env2[name] = _instantiate(summ, i, iz, lo, pre_env.get(name, _MISSING))
        for sid, summ in summary_heap.items():
            heap2[sid] = summ(i)
        outs = run_body(env2, heap2, i, [])
        normal = [(fr, st2) for fr, st2, out in outs if out[0] in ("normal", "continue")]
        if len(normal) != 1:
            if not normal:
                raise errors[0]
            normal = [_merge_paths(normal, where)]
        fr_c, st_c = normal[0]
    fr1, st1 = fr_c, st_c
    # the loop target keeps its last value
    for name in target_names:
        if name in fr1.env:
            post = fr1.env[name]
            if sv.is_scalar(norm(post)):
                summary_env[name] = ("last", post)
            else:
                summary_env[name] = ("last_obj", post)
    for sid in other_touched:
        if merged and pre_heap[sid].kind != "file":
            raise zero_fork
        if sid in obj_summ:
            summary_heap[sid] = obj_summ[sid]
            continue
        summary_heap[sid] = _summarise_cell(interp, sid, pre_heap[sid], heap_h, st1, iz, lo, hi, hv_consts, hv_funcs, guarded=merged, resolved=resolved)
    # ---- build state(k) and check init / step
    def state_at(k):
        env = dict(pre_env)
        heap = dict(pre_heap)
        for name, summ in summary_env.items():
            env[name] = _instantiate(summ, k, iz, lo, pre_env.get(name, _MISSING), const_closed=not merged)
        for sid, summ in summary_heap.items():
            heap[sid] = summ(k)
        return env, heap

    # step check: run body from state(i) and compare with state(i+1)
    # (side obligations of the discovery runs are dropped: the ones that count are those of the step run)
    del st.side[side_mark:]
    i2 = sv.fresh_int("j")
    env_i, heap_i = state_at(i2)
    outs = run_body(env_i, heap_i, i2, [])
    normal2 = [(fr, st2) for fr, st2, out in outs if out[0] in ("normal", "continue")]
    for fr, st2, out in outs:
        if out[0] == "raise":
            st.side.append(_side_infeasible(st2, f"loop-body-raises:{out[1]}", where))
        elif out[0] not in ("normal", "continue"):
            raise EngineError("loop body leaves the loop under the summary")
    if len(normal2) != 1:
        if not normal2:
            raise EngineError("loop step check: no normal path")
        normal2 = [_merge_paths(normal2, where)]
    fr2, st2 = normal2[0]
    env_n, heap_n = state_at(A.simp(sv.add(i2, 1)))
    goals = []
    for name in summary_env:
        a, b = fr2.env.get(name, _MISSING), env_n[name]
        if summary_env[name][0] in ("last_obj", "opaque"):
            continue
        goals.extend(_eq_goals(a, b))
    for sid, summ in summary_heap.items():
        c = pre_heap[sid]
        if c.kind == "arr":
            shape = c.meta["shape"]
            idx = tuple(sv.fresh_int("y") for _ in shape)
            rng = [sv.zb(sv.and_(sv.cmp(">=", x, 0), sv.cmp("<", x, d))) for x, d in zip(idx, shape)]
            a = st2.heap[sid].data(idx)
            b = heap_n[sid].data(idx)
            for g in _eq_goals(a, b):
                goals.append(z3.Implies(z3.And(*rng) if rng else z3.BoolVal(True), g))
        else:
            with use_state(st2):
                goals.extend(_cell_eq_goals(st2.heap[sid], heap_n[sid], (st2, st2)))
    assum = st2.all_assumptions()
    import os
    if os.environ.get("PYVC_DEBUG_LOOPS"):
        print("LOOP-DEBUG step goals at", where)
        for g in goals:
            print("   ", z3.simplify(g))
    for g in goals:     # one query per carried variable / array cell (small queries)
        st.side.append(_SideGoal("loop-step", g, assum, where))
    if promoted is not None:
        # base case of the induction at lo+1: the first iteration executed from the true pre-state gives state(lo+1)
        fr_p, st_p, gmap, _, _ = promoted
        env_1, heap_1 = state_at(A.simp(sv.add(lo, 1)))
        goals1 = []
        for name in summary_env:
            if summary_env[name][0] in ("last", "last_obj", "opaque"):
                continue
            goals1.extend(_eq_goals(fr_p.env.get(name, _MISSING), env_1[name]))
        for sid in summary_heap:
            c = pre_heap[sid]
            if c.kind == "arr":
                shape = c.meta["shape"]
                idx = tuple(sv.fresh_int("y") for _ in shape)
                rng = [sv.zb(sv.and_(sv.cmp(">=", x, 0), sv.cmp("<", x, d))) for x, d in zip(idx, shape)]
                real_sid = gmap.get(sid, sid)
                for g in _eq_goals(st_p.heap[real_sid].data(idx), heap_1[sid].data(idx)):
                    goals1.append(z3.Implies(z3.And(*rng) if rng else z3.BoolVal(True), g))
            else:
                goals1.extend(_cell_eq_goals(st_p.heap[sid], heap_1[sid]))
        for g in goals1:
            st.side.append(_SideGoal("loop-init", g, st_p.all_assumptions(), where))
    # init check: state(lo) == pre-state
    env_0, heap_0 = state_at(lo)
    goals0 = []
    for name in summary_env:
        if summary_env[name][0] in ("last", "last_obj", "opaque"):
            continue   # no value before the first iteration is claimed
        goals0.extend(_eq_goals(pre_env.get(name, _MISSING), env_0[name]))
    for sid in summary_heap:
        c = pre_heap[sid]
        if c.kind == "arr":
            shape = c.meta["shape"]
            idx = tuple(sv.fresh_int("y") for _ in shape)
            rng = [sv.zb(sv.and_(sv.cmp(">=", x, 0), sv.cmp("<", x, d))) for x, d in zip(idx, shape)]
            for g in _eq_goals(c.data(idx), heap_0[sid].data(idx)):
                goals0.append(z3.Implies(z3.And(*rng) if rng else z3.BoolVal(True), g))
        else:
            goals0.extend(_cell_eq_goals(c, heap_0[sid]))
    if promoted is None:
        for g in goals0:
            st.side.append(_SideGoal("loop-init", g, st.all_assumptions(), where))
    # ---- post-state
    env_f, heap_f = state_at(hi)
    frame.env.clear()
    frame.env.update(env_f)
    for name, summ in summary_env.items():
        if summ[0] in ("last", "last_obj"):
            frame.env[name] = _instantiate(summ, hi, iz, lo, None)
    if merged:
        for name, summ in summary_env.items():
            if summ[0] == "last":
                pre = pre_env.get(name, _MISSING)
                if pre is not _MISSING and sv.is_scalar(norm(pre)) and sv.is_scalar(norm(frame.env[name])):
                    frame.env[name] = ite(sv.cmp(">", hi, lo), frame.env[name], pre)
                else:
                    frame.env[name] = UnboundAfterLoop(name, where)
            elif summ[0] != "sum":
                pre, post = pre_env.get(name, _MISSING), summ[1] if len(summ) > 1 else _MISSING
                if (summ[0] == "last_obj" and isinstance(pre, A.Arr) and isinstance(post, A.Arr) and pre.sid == post.sid
                        and pre.view is None and post.view is None and pre.sid in pre_heap):
                    # the name is bound to the same (pre-allocated) array object before and after every iteration
                    # (A += x, A[...] = x): zero trips leave the same binding; the content is the summarised cell
                    frame.env[name] = pre
                else:
                    frame.env[name] = UnboundAfterLoop(name, where)
    for sid, c in heap_f.items():
        if sid in summary_heap:
            st.heap[sid] = c
            st.events.append(("store", sid, where, list(st.pc)))
    # new allocations made by the last iteration that remain referenced by last-value variables
    if not merged:
        _import_last_iteration_cells(fr1, st1, st, iz, hi, summary_env, frame)
    if s.orelse:
        interp.exec_body_single(s.orelse, frame)


_MISSING = object()


class UnboundAfterLoop:
    """value of a variable that is only assigned inside a loop whose zero-trip case was not split off"""
    def __init__(self, name, where):
        self.name, self.where = name, where


def written_summary(interp, s, frame, st, lo, hi, item_fn, heap_at, env_at=None, parts=None, label="loop", assume_at=None):
    """Loop rule for a *written* summary (DESIGN I.5, source 1), to be called from a unit's loop hint.

    heap_at: {sid: k -> (idx -> value)}   content of array cell sid after the iterations lo..k-1
    env_at:  {name: k -> scalar value}    value of a local after the iterations lo..k-1
    parts:   optional {sid: [(clause_name, idx -> condition)]}: the step obligation of that cell is split by region and
             reported under the given clause names (obligation `<unit>:<clause_name>` instead of `<unit>:safety`).
    assume_at: optional j -> [z3 facts]: instances, at the iteration of the step check, of universally quantified
             preconditions of the unit (the caller is responsible for them being instances of stated preconditions).
    Obligations generated (side obligations, proved like every other one):
      init:  state(lo) == pre-state;   step: from state(j), lo <= j < hi, every normal path of the body ends in state(j+1);
      raising body paths must be infeasible.  The post-state is state(hi).
    Locals assigned in the body that the summary does not describe are *removed* from the frame after the loop (a later
    read is a NameError path, never a wrong value); a pre-existing heap cell changed by the body but not described makes
    the verdict UNDECIDED (EngineError)."""
    env_at = env_at or {}
    parts = parts or {}
    where = f"{frame.fname}:{s.lineno}"
    pre_env = dict(frame.env)
    pre_heap = dict(st.heap)
    target_names = _assigned_names([ast.Assign(targets=[s.target], value=ast.Constant(0))])
    body_names = _assigned_names(s.body)

    def state_at(k):
        env = dict(pre_env)
        heap = dict(pre_heap)
        for name, f in env_at.items():
            env[name] = f(k)
        for sid, f in heap_at.items():
            heap[sid] = Content("arr", A._memo(f(k)), pre_heap[sid].meta)
        return env, heap

    def goals_between(env_a, heap_a, env_b, heap_b, names):
        """[(clause|None, z3 goal)]"""
        out = []
        for name in names:
            for g in _eq_goals(env_a.get(name, _MISSING), env_b.get(name, _MISSING), False):
                out.append((None, g))
        for sid in heap_at:
            shape = pre_heap[sid].meta["shape"]
            idx = tuple(sv.fresh_int("y") for _ in shape)
            rng = [sv.zb(sv.and_(sv.cmp(">=", x, 0), sv.cmp("<", x, d))) for x, d in zip(idx, shape)]
            a = heap_a[sid].data(idx)
            b = heap_b[sid].data(idx)
            eqs = _eq_goals(a, b, False)
            eq = z3.And(*eqs) if len(eqs) > 1 else eqs[0]
            regions = parts.get(sid)
            if not regions:
                out.append((None, z3.Implies(z3.And(*rng), eq)))
            else:
                covered = []
                for cname, reg in regions:
                    c = sv.zb(reg(idx)) if not isinstance(reg(idx), bool) else z3.BoolVal(reg(idx))
                    covered.append(c)
                    out.append((cname, z3.Implies(z3.And(*rng, c), eq)))
                out.append((None, z3.Implies(z3.And(*rng, z3.Not(z3.Or(*covered))), eq)))
        return out

    # ---- step
    j = sv.fresh_int("j")
    env_j, heap_j = state_at(j)
    fr = Frame(frame.module, dict(env_j), frame.fname)
    st2 = st.fork()
    st2.heap = dict(heap_j)
    st2.pc = list(st.pc) + [sv.zb(sv.cmp(">=", j, lo)), sv.zb(sv.cmp("<", j, hi))] + list(assume_at(j) if assume_at else [])
    st2.events = []
    with use_state(st2):
        interp.assign(s.target, item_fn(j), fr)
        outs = interp.exec_block_paths(s.body, fr, st2)
    env_n, heap_n = state_at(A.simp(sv.add(j, 1)))
    nnormal = 0
    for fr3, st3, out in outs:
        if out[0] == "raise":
            st.side.append(_side_infeasible(st3, f"loop-body-raises:{out[1]}:{out[2]}", where))
            continue
        if out[0] not in ("normal", "continue"):
            raise EngineError(f"loop body leaves the loop ({out[0]}) under a written summary")
        nnormal += 1
        for sid, c in st3.heap.items():
            if sid in pre_heap and sid not in heap_at and c is not heap_j.get(sid):
                raise EngineError(f"written summary of the loop at {where} does not describe heap cell #{sid} which the body modifies")
        assum = st3.all_assumptions()
        for cname, g in goals_between(fr3.env, st3.heap, env_n, heap_n, list(env_at)):
            if os.environ.get("PYVC_DEBUG_LOOPS"):
                print("LOOP-DEBUG written-summary step goal at", where, cname or "", "\n   ", z3.simplify(g))
            sg = _SideGoal(f"{label}-step", g, assum, where)
            if cname:
                sg.clause = cname
            st.side.append(sg)
    if nnormal == 0:
        raise EngineError("loop body has no normal path")
    # ---- init
    env_0, heap_0 = state_at(lo)
    for cname, g in goals_between(pre_env, pre_heap, env_0, heap_0, list(env_at)):
        sg = _SideGoal(f"{label}-init", g, st.all_assumptions(), where)
        if cname:
            sg.clause = cname
        st.side.append(sg)
    # ---- post-state
    env_f, heap_f = state_at(hi)
    for name in body_names | target_names:
        frame.env.pop(name, None)
    for name in env_at:
        frame.env[name] = env_f[name]
    for sid in heap_at:
        st.heap[sid] = heap_f[sid]
        st.events.append(("store", sid, where, list(st.pc)))
    if s.orelse:
        interp.exec_body_single(s.orelse, frame)


def _loop_ordinal(frame, s):
    """ordinal of this loop among the loops of its function (by source order)"""
    return getattr(s, "_pyvc_ordinal", s.lineno)


class _SideGoal:
    """side obligation with explicit assumptions (SideOb-compatible)"""
    def __init__(self, kind, cond, pc, where):
        self.kind, self.cond, self.pc, self.where = kind, cond, pc, where
        self.explicit = True
        self.opts = {"abstract_nl": True}


def _side_infeasible(st2, kind, where):
    return _SideGoal(kind, z3.BoolVal(False), st2.all_assumptions(), where)


def _dtype_of_sid(env, sid, st, c):
    for v in env.values():
        if isinstance(v, A.Arr) and v.sid == sid:
            return v.dtype
    dt = c.meta.get("dtype")
    if dt:
        return dt
    # look through object attributes / dataframes
    for cell in st.heap.values():
        if cell.kind == "obj":
            for v in cell.data.values():
                if isinstance(v, A.Arr) and v.sid == sid:
                    return v.dtype
        if cell.kind == "df":
            for v in cell.data["cols"].values():
                if isinstance(v, A.Arr) and v.sid == sid:
                    return v.dtype
        if cell.kind == "list" and not isinstance(cell.data, A.SeqVal):
            for v in cell.data:
                if isinstance(v, A.Arr) and v.sid == sid:
                    return v.dtype
    return "float"


def _eq_goals(a, b, simplify=True):
    if a is _MISSING or b is _MISSING:
        return [z3.BoolVal(a is b)]
    a, b = norm(a), norm(b)
    if isinstance(a, Cx) or isinstance(b, Cx):
        a, b = sv.as_cx(a), sv.as_cx(b)
        return _eq_goals(a.re, b.re, simplify) + _eq_goals(a.im, b.im, simplify)
    if sv.is_scalar(a) and sv.is_scalar(b):
        # both sides in z3's simplified form: syntactic variants of one term (-x / -1*x, argument order) become identical
        # (not for written summaries: their goals keep the product structure the generalisation step matches on)
        if simplify and isinstance(a, SV) and not a.is_bool:
            a = sv.wrap(z3.simplify(a.t))
        if simplify and isinstance(b, SV) and not b.is_bool:
            b = sv.wrap(z3.simplify(b.t))
        r = sv.cmp("==", a, b)
        if is_conc(r):
            return [z3.BoolVal(bool(r))]
        return [r.t]
    if isinstance(a, A.Arr) and isinstance(b, A.Arr):
        if a.sid == b.sid:
            return []
        # two different cells: equal as values iff same shape and same content at an arbitrary index
        try:
            sa, sb = a.shape, b.shape
        except KeyError:
            return [z3.BoolVal(False)]
        if len(sa) != len(sb):
            return [z3.BoolVal(False)]
        goals = []
        for x, y in zip(sa, sb):
            goals.extend(_eq_goals(x, y, simplify))
        idx = tuple(sv.fresh_int("e") for _ in sa)
        rng = [sv.zb(sv.and_(sv.cmp(">=", x, 0), sv.cmp("<", x, d))) for x, d in zip(idx, sa)]
        for g in _eq_goals(a.get(idx), b.get(idx), simplify):
            goals.append(z3.Implies(z3.And(*rng) if rng else z3.BoolVal(True), g))
        return goals
    if a is b:
        return []
    if isinstance(a, Ref) and isinstance(b, Ref) and a.sid == b.sid:
        return []
    if isinstance(a, (tuple,)) and isinstance(b, tuple) and len(a) == len(b):
        out = []
        for x, y in zip(a, b):
            out.extend(_eq_goals(x, y, simplify))
        return out
    if type(a) is type(b) and isinstance(a, (str, type(None))):
        return [z3.BoolVal(a == b)]
    return [z3.BoolVal(False)]


def _summarise_value(interp, name, pre, post, hv, iz, lo, hi, hv_consts, hv_funcs, st1):
    post = norm(post) if sv.is_scalar(norm(post)) else post
    if sv.is_scalar(post):
        pts = _terms_of(post)
        mentions = any(_contains_any(t, hv_consts, hv_funcs) for t in pts)
        if not mentions:
            return ("last", post)
        if hv is _MISSING or not sv.is_scalar(norm(hv)):
            raise EngineError(f"loop variable {name}: depends on loop-carried state in an unsupported way")
        delta = sv.sub(post, hv)
        dts = [z3.simplify(t) for t in _terms_of(delta)]
        if any(_contains_any(t, hv_consts, hv_funcs) for t in dts):
            raise EngineError(f"loop variable {name}: not an accumulation (v' - v depends on loop-carried state)")
        return ("sum", delta)
    # non-scalar: allowed if it does not depend on carried state → last-value object
    return ("last_obj", post)


def _instantiate(summ, k, iz, lo, pre, const_closed=False):
    kind = summ[0]
    if kind == "sum":
        delta = summ[1]
        if const_closed and CONST_SUM_CLOSED[0]:
            if isinstance(delta, SV):
                delta = A.simp(delta)
            if is_conc(norm(delta)):
                # constant increment: c (k - lo); every instantiation of the loop rule has k >= lo unless the zero-trip case was merged
                return A.simp(sv.add(pre, sv.mul(delta, sv.sub(k, lo))))
        return sv.add(pre, _iter_sum(lo, k, delta, iz, []))
    if kind == "last":
        # value produced by iteration k-1
        return _subst_val(summ[1], [(iz, sv.znum(A.simp(sv.sub(k, 1))))])
    if kind == "last_obj":
        return summ[1]
    raise EngineError(kind)


CONST_SUM_CLOSED = [False]     # loop_opts "const_sum_closed": see _iter_sum (set on entry of every symbolic loop)


def _iter_sum(lo, k, delta, iz, pairs):
    """sum_{t=lo}^{k-1} delta[i:=t]  for a loop summary state(k), lo <= k (k ranges over lo, the iteration variable, its successor, hi).
    With loop_opts "const_sum_closed" a summand that does not depend on the iteration is summed in closed form:
    delta * (k - lo)  (constant sum, valid for k >= lo)."""
    if CONST_SUM_CLOSED[0] and not any(_mentions(t, iz) for t in _terms_of(delta)):
        d = _subst_val(delta, pairs) if pairs else delta
        return sv.mul(d, A.simp(sv.sub(k, lo)))
    return Sum(lo, k, lambda t: _subst_val(delta, pairs + [(iz, sv.znum(t))]))


def _summarise_array(sid, shape, dt, idx, prev, postv, iz, lo, hi, hv_consts, hv_funcs, pre_heap, opts=None, nohavoc_post=None):
    """closed form for the content of an array cell after k iterations.
    opts (Unit.loop_opts): "cond_acc": "sigma-ite" -> a conditional accumulation A[g] += d(i) at a loop-invariant position g
    gets the closed form pre + Σ_t ite(idx == g, d(t), 0) (the Σ-nesting then mirrors the loop nest at every level) instead
    of the default ite(idx == g, pre + Σ_t d(t), pre) (which later stores into the same array can be decomposed against).
    "cond_acc": "scatter-first" -> a store chain with a solvable writer iteration (rule 4) is preferred to the conditional
    accumulation (2a): every element is written by one iteration, the content is ite(writer in range, value, pre).
    All forms are checked by the same loop-init / loop-step obligations."""
    sigma_ite = (opts or {}).get("cond_acc") == "sigma-ite"
    pre_fn = pre_heap[sid].data
    meta = pre_heap[sid].meta
    idz = [x.t for x in idx]
    # (1a) guarded accumulation  A[x] += [cond(i, x)] e(i, x):
    #   cond independent of i           ->  A[x] = A0[x] + [cond(x)] Σ_t e(t, x)          (guard hoisted out of the sum)
    #   cond contains x_k == i + c      ->  A[x] = A0[x] + [lo <= w(x) < k, residual] e(w(x), x)   (Kronecker-delta collapse)
    # both are closed forms of the same sum; like every summary they are validated by the loop:init / loop:step obligations
    #   (opt-in: loop_opts "cond_acc": "guarded-first"; otherwise the rules (1)-(4) below choose the form)
    dec = None
    if (opts or {}).get("cond_acc") == "guarded-first":
        dec = _decompose_store(postv, prev)
        if dec is not None:
            dec = (dec[0], _subst_val(sv.sub(dec[1], prev), []))
        else:
            dec = _decompose_guarded(_subst_val(sv.sub(postv, prev), []))
    if dec is not None:
        cond, inc = dec
        its = _terms_of(inc) + [cond]
        if not any(_contains_any(t, hv_consts, hv_funcs) for t in its):
            if not _mentions(cond, iz):
                def at(k):
                    def fn(ix, k=k):
                        pairs = [(a, sv.znum(b)) for a, b in zip(idz, ix)]
                        c = sv.wrap(z3.simplify(z3.substitute(cond, *pairs)))
                        tot = lambda: Sum(lo, k, lambda t: _subst_val(inc, pairs + [(iz, sv.znum(t))]))
                        return sv.add(pre_fn(ix), ite(c, tot, 0))
                    return Content("arr", A._memo(fn), meta)
                return at
            sol = _solve_writer(cond, iz, idz)
            if sol is not None:
                w, residual = sol

                def at(k):
                    def fn(ix, k=k):
                        pairs = [(a, sv.znum(b)) for a, b in zip(idz, ix)]
                        wk = z3.simplify(z3.substitute(w, *pairs))
                        c = z3.And(wk >= sv.znum(lo), wk < sv.znum(k), z3.substitute(residual, *pairs))
                        v = lambda: _subst_val(_subst_val(inc, [(iz, w)]), pairs)
                        return sv.add(pre_fn(ix), ite(sv.wrap(z3.simplify(c)), v, 0))
                    return Content("arr", A._memo(fn), meta)
                return at
    # (1) accumulation: post - prev free of havoc
    delta = sv.sub(postv, prev)
    dts = [z3.simplify(t) for t in _terms_of(delta)]
    if not any(_contains_any(t, hv_consts, hv_funcs) for t in dts):
        delta = _subst_val(delta, [])  # simplified

        def at(k):
            def fn(ix, k=k):
                pairs = [(a, sv.znum(b)) for a, b in zip(idz, ix)]
                return sv.add(pre_fn(ix), _iter_sum(lo, k, delta, iz, pairs))
            return Content("arr", A._memo(fn), meta)
        return at
    def _chain_rule():
        # (4) chain of scatter stores with a common writer iteration (read-modify-write of the same element allowed)
        #     (the same writer iteration w(idx) for all stores of the chain).  A stored value may read the previous content
        #     of the *same* element (a[g(i)] op= e(i)): each element is written by the single iteration w(idx), so the
        #     previous content is the content before the loop.
        chain = _decompose_chain(postv, prev)
        if chain:
            parts = []
            w0 = None
            for cond, val in chain:
                val, marker = _abstract_prev(val, cond, idz, hv_funcs)
                vts = _terms_of(val) + [cond]
                if any(_contains_any(t, hv_consts, hv_funcs) for t in vts):
                    parts = None
                    break
                sol = _solve_writer(cond, iz, idz)
                if sol is None:
                    parts = None
                    break
                w, residual = sol
                if w0 is None:
                    w0 = w
                elif not z3.simplify(w - w0).eq(z3.IntVal(0)):
                    parts = None
                    break
                parts.append((residual, val, marker))
            if parts:
                w = w0

                def at(k):
                    def fn(ix, k=k):
                        pairs = [(a, sv.znum(b)) for a, b in zip(idz, ix)]
                        wk = z3.simplify(z3.substitute(w, *pairs))
                        inr = z3.And(wk >= sv.znum(lo), wk < sv.znum(k))

                        def build(j):
                            if j == len(parts):
                                return pre_fn(ix)
                            residual, val, marker = parts[j]
                            c = z3.And(inr, z3.substitute(residual, *pairs))
                            v = _subst_val(_subst_val(val, [(iz, w)]), pairs)
                            if marker is not None:
                                v = _subst_prev(v, marker, pre_fn(ix))
                            return ite(sv.wrap(z3.simplify(c)), v, lambda: build(j + 1))
                        return build(0)
                    return Content("arr", A._memo(fn), meta)
                return at
        return None
    if (opts or {}).get("cond_acc") == "scatter-first":
        at4 = _chain_rule()
        if at4 is not None:
            return at4
    # (2) conditional effects: post = ite(cond(i, idx), x(i, idx), prev)
    dec = _decompose_store(_subst_val(postv, []), prev)
    if dec is not None:
        cond, val = dec   # z3 bool cond(i, idx), value (SV/Cx)
        if not _contains_any(cond, hv_consts, hv_funcs):
            # the old content at the stored position, written with the index equalities of cond (A[n, i] += v reads A[n, i])
            eqs = _index_equalities(cond, idz)
            prev_at = _subst_val(prev, eqs) if eqs else prev
            # (2a) conditional accumulation: x - prev free of loop-carried state
            dlt = sv.sub(val, prev_at)
            dts = [z3.simplify(t) for t in _terms_of(dlt)]
            if any(_contains_any(t, hv_consts, hv_funcs) for t in dts):
                dlt = sv.sub(val, prev)
                dts = [z3.simplify(t) for t in _terms_of(dlt)]
            if not any(_contains_any(t, hv_consts, hv_funcs) for t in dts):
                dlt = _subst_val(dlt, [])
                cond_has_i = _mentions(cond, iz)

                def at(k):
                    def fn(ix, k=k):
                        pairs = [(a, sv.znum(b)) for a, b in zip(idz, ix)]
                        if cond_has_i or sigma_ite:
                            return sv.add(pre_fn(ix), Sum(lo, k, lambda t: ite(sv.wrap(z3.simplify(z3.substitute(cond, *(pairs + [(iz, sv.znum(t))])))),
                                                                                   lambda: _subst_val(dlt, pairs + [(iz, sv.znum(t))]), 0)))
                        c = sv.wrap(z3.simplify(z3.substitute(cond, *pairs))) if pairs else sv.wrap(z3.simplify(cond))
                        return ite(c, lambda: sv.add(pre_fn(ix), Sum(lo, k, lambda t: _subst_val(dlt, pairs + [(iz, sv.znum(t))]))), lambda: pre_fn(ix))
                    return Content("arr", A._memo(fn), meta)
                return at
            # (2b) scatter store / scatter update: every position is written by at most one iteration w(idx) (affine writer);
            #      the stored value may use the old content of the same position
            pts = _terms_of(prev_at)
            holes = [z3.Const(sv.fresh_name("old"), t.sort()) for t in pts]
            val_p = _subst_val(val, list(zip(pts, holes)) + list(zip(_terms_of(prev), holes))) if pts else val
            vts = _terms_of(val_p)
            if not any(_contains_any(t, hv_consts, hv_funcs) for t in vts):
                sol = _solve_writer(cond, iz, idz)
                if sol is not None:
                    w, residual = sol   # writer iteration as a term over idx; residual condition over idx (with i:=w)

                    def at(k):
                        def fn(ix, k=k):
                            pairs = [(a, sv.znum(b)) for a, b in zip(idz, ix)]
                            wk = z3.simplify(z3.substitute(w, *pairs))
                            c = z3.And(wk >= sv.znum(lo), wk < sv.znum(k), z3.substitute(residual, *pairs))

                            def newv():
                                v = _subst_val(_subst_val(val_p, [(iz, w)]), pairs)
                                if holes:
                                    v = _subst_val(v, list(zip(holes, _z3_parts(pre_fn(ix), holes))))
                                return v
                            return ite(sv.wrap(z3.simplify(c)), newv, lambda: pre_fn(ix))
                        return Content("arr", A._memo(fn), meta)
                    return at
                if not holes and not _mentions(z3.simplify(cond), iz):
                    # (2c) store into a loop-invariant position: A[g] = e(i), g independent of i -> the element keeps the
                    #      value of the last iteration (last-value form of an array element); checked by loop-step / loop-init
                    def at(k):
                        def fn(ix, k=k):
                            pairs = [(a, sv.znum(b)) for a, b in zip(idz, ix)]
                            c = z3.And(z3.substitute(cond, *pairs), sv.znum(k) > sv.znum(lo))
                            return ite(sv.wrap(z3.simplify(c)),
                                       lambda: _subst_val(_subst_val(val, [(iz, sv.znum(A.simp(sv.sub(k, 1))))]), pairs),
                                       lambda: pre_fn(ix))
                        return Content("arr", A._memo(fn), meta)
                    return at
            # (2d) read-modify-write with reads of the array's own old content at other index terms: candidate = every
            #      position is written at most once, so the old content read there is the pre-loop content (the step
            #      obligation checks the candidate like any other summary)
            if any(_contains_any(t, hv_consts, hv_funcs) for t in _terms_of(val)):
                val2 = _replace_own_havoc(val, prev, pre_fn)
                if val2 is not None and not any(_contains_any(t, hv_consts, hv_funcs) for t in _terms_of(val2)):
                    sol = _solve_writer(cond, iz, idz)
                    if sol is not None:
                        w, residual = sol

                        def at(k):
                            def fn(ix, k=k):
                                pairs = [(a, sv.znum(b)) for a, b in zip(idz, ix)]
                                wk = z3.simplify(z3.substitute(w, *pairs))
                                c = z3.And(wk >= sv.znum(lo), wk < sv.znum(k), z3.substitute(residual, *pairs))
                                return ite(sv.wrap(z3.simplify(c)), lambda: _subst_val(_subst_val(val2, [(iz, w)]), pairs),
                                           lambda: pre_fn(ix))
                            return Content("arr", A._memo(fn), meta)
                        return at
    # (3) accumulation with the difference taken inside the if-then-else alternatives of joined branches
    delta = _delta(postv, prev)
    dts = [z3.simplify(t) for t in _terms_of(delta)]
    if not any(_contains_any(t, hv_consts, hv_funcs) for t in dts):
        delta = _subst_val(delta, [])

        def at(k):
            def fn(ix, k=k):
                pairs = [(a, sv.znum(b)) for a, b in zip(idz, ix)]
                return sv.add(pre_fn(ix), Sum(lo, k, lambda t: _subst_val(delta, pairs + [(iz, sv.znum(t))])))
            return Content("arr", A._memo(fn), meta)
        return at
    at4 = _chain_rule()
    if at4 is not None:
        return at4
    # (5) in-place map of disjoint regions: A[g(i), ...] = f(A[g(i), ...]) — every cell is written by at most one iteration and an
    # iteration reads only cells no earlier iteration wrote.  Candidate from the dry run on the *un-havocked* pre content:
    # post = ite(cond(i, idx), val(i, idx; pre content), pre)  =>  state(k) = ite(writer(idx) in [lo,k) and residual, val(writer), pre).
    # (candidate only: the step obligation checks it, including the "reads no written cell" part)
    if nohavoc_post is not None:
        pre_v = pre_fn(idx)
        dec = _decompose_store(nohavoc_post(idx), pre_v)
        if dec is not None:
            cond, val = dec
            if not any(_contains_any(t, hv_consts, hv_funcs) for t in _terms_of(val) + [cond]):
                sol = _solve_writer(cond, iz, idz)
                if sol is not None:
                    w, residual = sol

                    def at(k):
                        def fn(ix, k=k):
                            pairs = [(a, sv.znum(b)) for a, b in zip(idz, ix)]
                            wk = z3.simplify(z3.substitute(w, *pairs))
                            c = z3.And(wk >= sv.znum(lo), wk < sv.znum(k), z3.substitute(residual, *pairs))
                            v = _subst_val(_subst_val(val, [(iz, w)]), pairs)
                            return ite(sv.wrap(z3.simplify(c)), v, lambda: pre_fn(ix))
                        return Content("arr", A._memo(fn), meta)
                    return at
    import os
    if os.environ.get("PYVC_DEBUG_LOOPS"):
        print("LOOP-DEBUG post:", _subst_val(postv, []), "\n  prev:", prev, "\n  iz:", iz)
    raise EngineError(f"array #{sid}: loop effect is neither an accumulation nor an affine scatter store — needs a written summary")


def _decompose_chain(postv, prev):
    """post == If(c1, v1, If(c2, v2, ... prev)) (real-valued) -> [(c1, v1), (c2, v2), ...]; None if not of that form"""
    postv, prev = norm(postv), norm(prev)
    if isinstance(postv, Cx) or isinstance(prev, Cx):
        one = _decompose_store(postv, prev)
        return [one] if one is not None else None
    if not isinstance(postv, SV) or not isinstance(prev, SV):
        return None
    out = []
    t = postv.t
    for _ in range(64):
        if t.eq(prev.t):
            return out or None
        if z3.is_app(t) and t.decl().kind() == z3.Z3_OP_ITE:
            c, x, y = t.children()
            if x.eq(prev.t) and not y.eq(prev.t):
                out.append((z3.Not(c), sv.wrap(y)))
                return out
            out.append((c, sv.wrap(x)))
            t = y
            continue
        return None
    return None


def _abstract_prev(val, cond, idz, hv_funcs):
    """occurrences of the havocked array content H(args) inside a stored value with args == idx under the store
    condition are replaced by a marker constant (the element's own previous content)"""
    val = norm(val)
    if not isinstance(val, SV):
        return val, None
    found = []
    seen = set()
    stack = [val.t]
    while stack:
        e = stack.pop()
        if e.get_id() in seen:
            continue
        seen.add(e.get_id())
        if z3.is_app(e):
            d = e.decl()
            if d.kind() == z3.Z3_OP_UNINTERPRETED and d.arity() == len(idz) and d.arity() > 0 and d.name() in hv_funcs:
                found.append(e)
            stack.extend(e.children())
    if not found:
        return val, None
    marker = z3.Const(sv.fresh_name("PREV"), found[0].sort())
    pairs = []
    for e in found:
        s_ = z3.Solver()
        s_.set("timeout", 2000)
        s_.add(cond)
        s_.add(z3.Or(*[a != b for a, b in zip(e.children(), idz)]))
        if s_.check() != z3.unsat:
            return val, None
        pairs.append((e, marker))
    return sv.wrap(z3.substitute(val.t, *pairs)), marker


def _subst_prev(v, marker, pre_val):
    v, pre_val = norm(v), norm(pre_val)
    if not isinstance(v, SV):
        return v
    pv = sv.zr(pre_val) if z3.is_real(marker) else sv.znum(pre_val)
    if pv.sort() != marker.sort():
        raise EngineError("read-modify-write scatter: sort of the previous content")
    return sv.wrap(z3.simplify(z3.substitute(v.t, (marker, pv))))


def _replace_own_havoc(val, prev, pre_fn):
    """replace every application H(args) of the havocked content function(s) of this array inside `val` by the pre-loop
    content at args"""
    prev = norm(prev)
    names = {}
    if isinstance(prev, Cx):
        parts = (("re", prev.re), ("im", prev.im))
    else:
        parts = ((None, prev),)
    for tag, pt in parts:
        if not (isinstance(pt, SV) and z3.is_app(pt.t) and pt.t.decl().kind() == z3.Z3_OP_UNINTERPRETED and pt.t.num_args() > 0):
            return None
        names[pt.t.decl().name()] = tag
    pairs = []
    seen = set()
    stack = list(_terms_of(val))
    while stack:
        e = stack.pop()
        if e.get_id() in seen:
            continue
        seen.add(e.get_id())
        if z3.is_app(e) and e.decl().kind() == z3.Z3_OP_UNINTERPRETED and e.decl().name() in names:
            pv = norm(pre_fn(tuple(sv.wrap(a) for a in e.children())))
            tag = names[e.decl().name()]
            if isinstance(pv, Cx):
                pv = pv.re if tag != "im" else pv.im
            elif tag == "im":
                pv = 0
            pairs.append((e, sv.zr(pv) if z3.is_real(e) else sv.z(pv)))
        stack.extend(e.children())
    if not pairs:
        return None
    return _subst_val(val, pairs)


def _delta(postv, prev):
    postv, prev = norm(postv), norm(prev)
    if isinstance(postv, Cx) or isinstance(prev, Cx):
        a, b = sv.as_cx(postv), sv.as_cx(prev)
        return Cx(_delta(a.re, b.re), _delta(a.im, b.im))
    if isinstance(postv, SV) and not postv.is_bool and z3.is_app(postv.t) and postv.t.decl().kind() == z3.Z3_OP_ITE:
        c, x, y = postv.t.children()
        return ite(sv.wrap(c), _delta(sv.wrap(x), prev), _delta(sv.wrap(y), prev))
    return sv.sub(postv, prev)


def _z3_parts(v, like):
    """z3 terms of the components of a scalar value (re, im for complex), also for concrete values, in the sorts of `like`"""
    v = norm(v)
    parts = [v.re, v.im] if isinstance(v, Cx) else [v]
    if len(parts) < len(like):
        parts = parts + [0] * (len(like) - len(parts))
    out = []
    for x, h in zip(parts, like):
        if z3.is_bool(h):
            out.append(sv.zb(x))
        elif z3.is_int(h):
            out.append(sv.znum(x))
        else:
            out.append(sv.zr(x))
    return out


def iz_early(i):
    return i.t


def _is_zero(t):
    return (z3.is_rational_value(t) and t.numerator_as_long() == 0) or (z3.is_int_value(t) and t.as_long() == 0)


def _decompose_guarded(delta):
    """delta == If(cond, e, 0) (componentwise with the same cond for complex; a component may be identically 0) -> (cond, e)"""
    delta = norm(delta)
    if isinstance(delta, Cx):
        a, b = _decompose_guarded(delta.re), _decompose_guarded(delta.im)
        za = is_conc(norm(delta.re)) and norm(delta.re) == 0
        zb_ = is_conc(norm(delta.im)) and norm(delta.im) == 0
        if a is not None and b is not None and a[0].eq(b[0]):
            return a[0], Cx(a[1], b[1])
        if a is not None and zb_:
            return a[0], Cx(a[1], 0)
        if b is not None and za:
            return b[0], Cx(0, b[1])
        return None
    if not isinstance(delta, SV):
        return None
    t = delta.t
    if z3.is_app(t) and t.decl().kind() == z3.Z3_OP_ITE:
        c, x, y = t.children()
        if _is_zero(y):
            return c, sv.wrap(x)
        if _is_zero(x):
            return z3.Not(c), sv.wrap(y)
    return None



def _decompose_store(postv, prev):
    """post == If(cond, val, prev) (componentwise for complex) -> (cond, val)"""
    postv, prev = norm(postv), norm(prev)
    if isinstance(postv, Cx):
        if not isinstance(prev, Cx):
            return None
        a = _decompose_store(postv.re, prev.re)
        b = _decompose_store(postv.im, prev.im)
        if a is None or b is None:
            return None
        if not a[0].eq(b[0]):
            return None
        return a[0], Cx(a[1], b[1])
    if not isinstance(postv, SV) or not isinstance(prev, SV):
        return None
    # general shape: a tree of ite whose leaves are either `prev` or stored values:  post = ite(cond, val, prev)
    pt = prev.t

    def dec(t, depth=0):
        if t.eq(pt):
            return z3.BoolVal(False), None
        if z3.is_app(t) and t.decl().kind() == z3.Z3_OP_ITE and depth < 12:
            c, x, y = t.children()
            cx, vx = dec(x, depth + 1)
            cy, vy = dec(y, depth + 1)
            cond = z3.simplify(z3.Or(z3.And(c, cx), z3.And(z3.Not(c), cy)))
            if vx is None:
                return cond, vy
            if vy is None:
                return cond, vx
            return cond, (vx if vx.eq(vy) else z3.If(c, vx, vy))
        return z3.BoolVal(True), t
    cond, val = dec(postv.t)
    if val is None or z3.is_false(cond) or z3.is_true(cond):
        return _decompose_store_simplified(postv, prev)
    return cond, sv.wrap(val)


def _decompose_store_simplified(postv, prev):
    """no leaf of the ite-tree is syntactically `prev`: bring the term to z3's simplified form and take cofactors (inside the
    then-branch the guard is true, inside the else-branch it is false)"""
    t = postv.t
    if z3.is_app(t) and t.decl().kind() == z3.Z3_OP_ITE:
        ts = z3.simplify(t)
        if z3.is_app(ts) and ts.decl().kind() == z3.Z3_OP_ITE:
            c2, x2, y2 = ts.children()
            x2 = z3.simplify(z3.substitute(x2, (c2, z3.BoolVal(True))))
            y2 = z3.simplify(z3.substitute(y2, (c2, z3.BoolVal(False))))
            ps = z3.simplify(prev.t)
            if ps.eq(y2):
                return c2, sv.wrap(x2)
            if ps.eq(x2):
                return z3.Not(c2), sv.wrap(y2)
    return None


def _index_equalities(cond, idz):
    """conjuncts idx_k == term of cond -> [(idx_k, term)]"""
    conj = []

    def flat(c):
        if z3.is_and(c):
            for ch in c.children():
                flat(ch)
        else:
            conj.append(c)
    flat(z3.simplify(cond))
    ids = {x.get_id(): x for x in idz}
    out = []
    for c in conj:
        if z3.is_eq(c):
            a, b = c.children()
            if a.get_id() in ids and not any(_mentions(b, x) for x in idz):
                out.append((a, b))
            elif b.get_id() in ids and not any(_mentions(a, x) for x in idz):
                out.append((b, a))
    return out


def _solve_writer(cond, iz, idz):
    """cond(i, idx) contains an equation idx_k == i + c (or i == idx_k + c): return (writer term w(idx), residual)"""
    conj = []

    def flat(c):
        if z3.is_and(c):
            for ch in c.children():
                flat(ch)
        else:
            conj.append(c)
    flat(z3.simplify(cond))

    def common(c):
        """equations implied by c: conjuncts of And, intersection over Or / Boolean ite"""
        if z3.is_and(c):
            out = {}
            for ch in c.children():
                out.update(common(ch))
            return out
        if z3.is_or(c) or (z3.is_app(c) and c.decl().kind() == z3.Z3_OP_ITE and z3.is_bool(c)):
            kids = c.children() if z3.is_or(c) else c.children()[1:]
            sets = [common(ch) for ch in kids]
            keys = set(sets[0])
            for s_ in sets[1:]:
                keys &= set(s_)
            return {k: sets[0][k] for k in keys}
        if z3.is_eq(c):
            return {c.get_id(): c}
        return {}
    if not any(z3.is_eq(c) for c in conj):
        implied = list(common(z3.simplify(cond)).values())
        if implied:
            conj = implied + [z3.simplify(cond)]
    inverses = getattr(cur(), "inverses", None) or {}
    for n, c in enumerate(conj):
        if z3.is_eq(c) and inverses:
            a, b = c.children()
            if not z3.is_int(a):
                continue
            d = z3.simplify(a - b)
            for fname, finv in inverses.items():
                F = None
                for app in _apps_of(d, fname):
                    if app.num_args() >= 1 and app.arg(app.num_args() - 1).eq(iz):
                        F = app
                        break
                if F is None:
                    continue
                for sign in (1, -1):
                    rest = z3.simplify(d - sign * F)
                    if _mentions(rest, iz):
                        continue
                    v = z3.simplify(-rest) if sign == 1 else z3.simplify(rest)      # F(.., i) == v
                    w = finv(*[F.arg(k) for k in range(F.num_args() - 1)], v)
                    others = conj[:n] + conj[n + 1:]
                    residual = z3.And(*(others + [z3.substitute(F, (iz, w)) == v]))
                    residual = z3.substitute(residual, (iz, w))
                    return w, residual
    for n, c in enumerate(conj):
        if z3.is_eq(c):
            a, b = c.children()
            d = z3.simplify(a - b)
            # try: d == i*1 + rest(idx)  -> i = -rest ; or d == -i + rest -> i = rest
            for sign in (1, -1):
                rest = z3.simplify(d - sign * iz)
                if not _mentions(rest, iz):
                    w = z3.simplify(-sign * rest) if sign == 1 else z3.simplify(rest)
                    if z3.is_int(w):
                        others = conj[:n] + conj[n + 1:]
                        residual = z3.And(*others) if others else z3.BoolVal(True)
                        residual = z3.substitute(residual, (iz, w))
                        return w, residual
    return None


def _apps_of(t, fname):
    out, seen, stack = [], set(), [t]
    while stack:
        e = stack.pop()
        if e.get_id() in seen:
            continue
        seen.add(e.get_id())
        if z3.is_app(e) and e.decl().kind() == z3.Z3_OP_UNINTERPRETED and e.decl().name() == fname:
            out.append(e)
        stack.extend(e.children())
    return out


def _mentions(t, c):
    cid = c.get_id()
    seen = set()
    stack = [t]
    while stack:
        e = stack.pop()
        if e.get_id() in seen:
            continue
        seen.add(e.get_id())
        if e.get_id() == cid:
            return True
        stack.extend(e.children())
    return False


def _resolve_fresh_array(st1, sid, resolved):
    """an array allocated by the discovery run of the body whose content / shape mentions a derived induction variable with a
    closed form (`resolved`: havoc constant -> closed form in the loop index, e.g. the read position of a file handle that
    advances by a loop-invariant amount): the closed form is substituted, as for written texts.  The resulting summary is a
    candidate like every other one: the loop-init / loop-step obligations compare it with the real body's effect."""
    if not resolved:
        return
    c = st1.heap.get(sid)
    if c is None or c.kind != "arr":
        return
    pairs = list(resolved)
    fn = c.data
    meta = dict(c.meta)
    meta["shape"] = tuple(_subst_val(d, pairs) for d in meta["shape"])
    st1.heap[sid] = Content("arr", A._memo(lambda idx, fn=fn: _subst_val(fn(idx), pairs)), meta)


def _summarise_cell(interp, sid, pre_cell, heap_h, st1, iz, lo, hi, hv_consts, hv_funcs, guarded=False, resolved=()):
    """non-array heap cells touched by the body: python lists (append), dataframes (column updates), objects"""
    post_cell = st1.heap[sid]
    if pre_cell.kind == "list":
        pre, post = pre_cell.data, post_cell.data
        if not isinstance(pre, A.SeqVal) and not isinstance(post, A.SeqVal):
            k0 = len(pre)
            added = post[k0:]
            if tuple(post[:k0]) == tuple(pre) and len(added) == 1 and k0 == 0 and isinstance(added[0], A.Arr) \
                    and added[0].sid not in heap_h and added[0].view is None:
                # one freshly allocated array appended per iteration: element p of the list is that array with the loop
                # index set to lo + p (its content must not depend on loop-carried state; checked by the step obligation,
                # which compares the appended array element-wise with the claimed one)
                v0 = added[0]
                _resolve_fresh_array(st1, v0.sid, resolved)
                cell = st1.heap[v0.sid]
                probe_idx = tuple(sv.fresh_int("q") for _ in cell.meta["shape"])
                if any(_contains_any(t, hv_consts, hv_funcs) for t in _terms_of(cell.data(probe_idx))):
                    raise EngineError("appended array depends on loop-carried state")

                def at(k, v0=v0):
                    length = A.simp(sv.sub(k, lo))

                    def fn(p):
                        t = sv.znum(A.simp(sv.add(lo, p)))
                        return _rebind_obj(v0, st1, cur(), iz, t, force=True)
                    return Content("list", A.SeqVal(length, fn), pre_cell.meta)
                return at
            if tuple(post[:k0]) == tuple(pre) and len(added) == 1 and not sv.is_scalar(norm(added[0])):
                return _summarise_object_append(pre_cell, pre, added[0], st1, iz, lo, hv_consts, hv_funcs)
            if tuple(post[:k0]) == tuple(pre) and len(added) >= 1 and all(sv.is_scalar(norm(x)) for x in added):
                m = len(added)
                for x in added:
                    if any(_contains_any(t, hv_consts, hv_funcs) for t in _terms_of(x)):
                        raise EngineError("appended value depends on loop-carried state")

                def at(k, pre=pre, added=added, m=m, k0=k0):
                    n_iter = A.simp(sv.sub(k, lo))
                    length = A.simp(sv.add(k0, sv.mul(m, n_iter)))

                    def fn(p):
                        # p < k0: original; else iteration t = lo + (p-k0)//m, slot (p-k0)%m
                        if is_conc(p) and p < k0:
                            return pre[int(p)]
                        rel = sv.sub(p, k0)
                        if m == 1:
                            t = A.simp(sv.add(lo, rel))
                            v = _subst_val(added[0], [(iz, sv.znum(t))])
                        else:
                            raise EngineError("several appends per iteration")
                        if k0 == 0:
                            return v
                        return ite(sv.cmp("<", p, k0), lambda: A._pick([norm(x) for x in pre], p), v)
                    return Content("list", A.SeqVal(length, fn), pre_cell.meta)
                return at
            if tuple(post[:k0]) == tuple(pre) and len(added) == 1 and isinstance(added[0], A.Arr) and added[0].view is None \
                    and added[0].sid not in heap_h and k0 == 0:
                # one array allocated by the iteration is appended per iteration (map loop): element p of the list after
                # k iterations is that array with the loop index instantiated at lo + p
                arr0 = added[0]
                c0 = st1.heap[arr0.sid]
                probe_idx = tuple(sv.fresh_int("q") for _ in c0.meta["shape"])
                pts = _terms_of(c0.data(probe_idx)) + [t for dd in c0.meta["shape"] for t in _terms_of(dd)]
                if any(_contains_any(t, hv_consts, hv_funcs) for t in pts):
                    raise EngineError("appended array depends on loop-carried state")

                def at(k, arr0=arr0):
                    length = A.simp(sv.sub(k, lo))

                    def fn(p):
                        return _rebind_obj(arr0, st1, cur(), iz, sv.znum(A.simp(sv.add(lo, p))))
                    return Content("list", A.SeqVal(length, fn), pre_cell.meta)
                return at
        raise EngineError("list mutated in a symbolic loop in an unsupported way")
    if pre_cell.kind == "file":
        if pre_cell.data.get("mode") == "w":
            return _summarise_file_cell(pre_cell, post_cell, iz, lo, hi, hv_consts, hv_funcs, resolved)
        hp = heap_h[sid].data["pos"]
        d = sv.sub(post_cell.data["pos"], hp)
        dts = [z3.simplify(t) for t in _terms_of(d)]
        if any(_contains_any(t, hv_consts, hv_funcs) for t in dts):
            raise EngineError("file position in a symbolic loop: not an accumulation")
        d = _subst_val(d, [])
        const = not any(_mentions(t, iz) for t in _terms_of(d))

        def at(k, d=d):
            # every instantiation of the loop rule has k >= lo
            cnt = sv.sub(k, lo) if not guarded else ite(sv.cmp(">", k, lo), sv.sub(k, lo), 0)
            adv = sv.mul(d, cnt) if const else Sum(lo, k, lambda t: _subst_val(d, [(iz, sv.znum(t))]))
            return Content("file", dict(pre_cell.data, pos=A.simp(sv.add(pre_cell.data["pos"], adv))), pre_cell.meta)
        return at
    if pre_cell.kind == "obj":
        pre, post = pre_cell.data, post_cell.data
        deltas = {}
        for name in post:
            if name in pre and (post[name] is pre[name] or (is_conc(norm(post[name])) if sv.is_scalar(norm(post[name])) else False)
                                and sv.is_scalar(norm(pre[name])) and is_conc(norm(pre[name])) and norm(post[name]) == norm(pre[name])):
                continue
            if name not in pre or not sv.is_scalar(norm(pre[name])) or not sv.is_scalar(norm(post[name])):
                raise EngineError(f"object attribute {name!r} modified in a symbolic loop (not a scalar accumulation)")
            d = sv.sub(post[name], pre[name])
            if any(_contains_any(t, hv_consts, hv_funcs) for t in _terms_of(d)):
                raise EngineError(f"object attribute {name!r}: increment depends on loop-carried state")
            deltas[name] = d
        if set(pre) - set(post):
            raise EngineError("object attribute deleted in a symbolic loop")

        def at(k):
            data = dict(pre)
            for name, d in deltas.items():
                if any(_mentions(t, iz) for t in _terms_of(d)):
                    inc = Sum(lo, k, lambda t: _subst_val(d, [(iz, sv.znum(t))]))
                else:
                    inc = sv.mul(d, A.simp(sv.sub(k, lo)))
                data[name] = A.simp(sv.add(pre[name], inc))
            return Content("obj", data, pre_cell.meta)
        return at
    if pre_cell.kind == "df":
        from .pandas_model import summarise_df_cell
        return summarise_df_cell(interp, sid, pre_cell, post_cell, heap_h, st1, iz, lo, hi, hv_consts, hv_funcs)
    raise EngineError(f"heap cell of kind {pre_cell.kind} modified in a symbolic loop")


class AppendedSeq(A.SeqVal):
    """base sequence (first n items given by base_fn) followed by one non-scalar item"""
    __slots__ = ("base_fn", "n", "last")

    def __init__(self, base_fn, n, last):
        self.base_fn, self.n, self.last = base_fn, n, last
        A.SeqVal.__init__(self, A.simp(sv.add(n, 1)), self._get)

    def _get(self, i):
        if A.dim_eq_syntactic(i, self.n):
            return self.last
        if is_conc(i) and is_conc(self.n) or _provably_less(i, self.n):
            return self.base_fn(i)
        # decided by the path condition (i < n: an earlier item; i == n: the appended one)
        try:
            sol = z3.Solver()
            sol.set("timeout", 1500)
            for f in cur().all_assumptions():
                sol.add(f)
            iz_, nz_ = sv.znum(i), sv.znum(self.n)
            sol.push()
            sol.add(iz_ >= nz_)
            if sol.check() == z3.unsat:
                return self.base_fn(i)
            sol.pop()
            sol.add(iz_ != nz_)
            if sol.check() == z3.unsat:
                return self.last
        except z3.Z3Exception:  # pragma: no cover
            pass
        raise EngineError("element of a symbolic-length list of objects at an index not syntactically before / at its end")


def _provably_less(i, n):
    d = z3.simplify(sv.znum(n) - sv.znum(i))
    return z3.is_int_value(d) and d.as_long() > 0


def _value_terms(v, st1, depth=0):
    """all scalar terms a (possibly structured) value depends on: arrays are probed at fresh positions"""
    v = norm(v) if sv.is_scalar(norm(v)) else v
    if depth > 6:
        raise EngineError("deeply nested value appended in a loop")
    if sv.is_scalar(v):
        return _terms_of(v)
    if v is None or isinstance(v, (str, bool)):
        return []
    if isinstance(v, A.Arr):
        c = st1.heap[v.sid]
        shape = c.meta["shape"]
        out = [t for d in shape for t in _terms_of(d)]
        out += _terms_of(c.data(tuple(sv.fresh_int("vp") for _ in shape)))
        if v.view is not None:
            for spec in v.view.base:
                out += _terms_of(spec[1])
            for d in v.view.shape:
                out += _terms_of(d)
        return out
    if isinstance(v, A.Masked):
        t = sv.fresh_int("vp")
        return _terms_of(v.n) + _terms_of(v.mask(t)) + _terms_of(v.src((t,) + tuple(sv.fresh_int("vp") for _ in v.rest)))
    if isinstance(v, Ref) and v.kind == "obj":
        out = []
        for x in st1.heap[v.sid].data.values():
            out += _value_terms(x, st1, depth + 1)
        return out
    if isinstance(v, Ref) and v.kind == "list" and not isinstance(st1.heap[v.sid].data, A.SeqVal):
        out = []
        for x in st1.heap[v.sid].data:
            out += _value_terms(x, st1, depth + 1)
        return out
    if isinstance(v, tuple):
        return [t for x in v for t in _value_terms(x, st1, depth + 1)]
    raise EngineError(f"value of type {type(v).__name__} appended in a symbolic loop")


def import_value(v, st1, pairs, depth=0):
    """deep copy of a value of the (forked) state st1 into the current state with the substitution `pairs` applied"""
    if sv.is_scalar(norm(v)):
        return _subst_val(v, pairs)
    if v is None or isinstance(v, (str, bool)):
        return v
    st = cur()
    if isinstance(v, A.Arr):
        c = st1.heap[v.sid]
        if v.sid in st.heap and st.heap[v.sid] is c:
            sid = v.sid        # a cell that exists unchanged in the current state (an input): keep the alias
        else:
            fn = c.data
            meta = dict(c.meta)
            meta["shape"] = tuple(_subst_val(d, pairs) for d in meta["shape"])
            sid = st.alloc(Content("arr", A._memo(lambda idx, fn=fn: _subst_val(fn(idx), pairs)), meta))
        view = v.view
        if view is not None:
            nb = [("fix", _subst_val(spec[1], pairs)) if spec[0] == "fix" else ("rng", _subst_val(spec[1], pairs), spec[2]) for spec in view.base]
            view = A.View(nb, [_subst_val(d, pairs) for d in view.shape])
        return A.Arr(sid, view, v.dtype)
    if isinstance(v, A.Masked):
        src, mask = v.src, v.mask
        return A.Masked(lambda idx: _subst_val(src(idx), pairs), _subst_val(v.n, pairs), lambda t: _subst_val(mask(t), pairs),
                        tuple(_subst_val(d, pairs) for d in v.rest), v.dtype)
    if isinstance(v, Ref) and v.kind == "obj":
        c = st1.heap[v.sid]
        if v.sid in st.heap and st.heap[v.sid] is c:
            return v
        data = {k: import_value(x, st1, pairs, depth + 1) for k, x in c.data.items()}
        return Ref(st.alloc(Content("obj", data, dict(c.meta))), "obj", v.cls)
    if isinstance(v, Ref) and v.kind == "list":
        c = st1.heap[v.sid]
        if v.sid in st.heap and st.heap[v.sid] is c:
            return v
        if isinstance(c.data, A.SeqVal):
            raise EngineError("symbolic-length list inside a value appended in a loop")
        return Ref(st.alloc(Content("list", tuple(import_value(x, st1, pairs, depth + 1) for x in c.data), dict(c.meta))), "list")
    if isinstance(v, tuple):
        return tuple(import_value(x, st1, pairs, depth + 1) for x in v)
    raise EngineError(f"value of type {type(v).__name__} appended in a symbolic loop")


def _summarise_object_append(pre_cell, pre, v, st1, iz, lo, hv_consts, hv_funcs):
    """L.append(obj(i)) with a non-scalar value that depends on the iteration only (not on loop-carried state):
    L(k) = L0 ++ [obj(lo), …, obj(k-1)]; obj(t) is the appended value with the loop index replaced by t (a deep copy)."""
    if len(pre) != 0:
        raise EngineError("objects appended in a symbolic loop to a non-empty list")
    for t in _value_terms(v, st1):
        if _contains_any(z3.simplify(t), hv_consts, hv_funcs):
            raise EngineError("appended object depends on loop-carried state")
    cache = {}

    def item(p):
        t = A.simp(sv.add(lo, p))
        key = t if is_conc(t) else ("z", t.t.get_id())
        st = cur()
        hit = cache.get(key)
        if hit is not None and hit[0] is st.heap.get(hit[2]) :
            return hit[1]
        val = import_value(v, st1, [(iz, sv.znum(t))])
        probe = val.sid if isinstance(val, (Ref, A.Arr)) else None
        cache[key] = (st.heap.get(probe), val, probe)
        return val

    def at(k):
        return Content("list", A.SeqVal(A.simp(sv.sub(k, lo)), item), pre_cell.meta)
    return at


def struct_eq_goals(a, b, sta, stb, depth=0):
    """value equality of two structured values living in the states sta / stb"""
    if depth > 6:
        return [z3.BoolVal(False)]
    na, nb = norm(a) if sv.is_scalar(norm(a)) else a, norm(b) if sv.is_scalar(norm(b)) else b
    if sv.is_scalar(na) and sv.is_scalar(nb):
        return _eq_goals(na, nb)
    if a is None or b is None or isinstance(a, str) or isinstance(b, str):
        return [z3.BoolVal(type(a) is type(b) and a == b)]
    if isinstance(a, A.Arr) and isinstance(b, A.Arr):
        with use_state(sta):
            sha, ra = a.shape, a.reader()
        with use_state(stb):
            shb, rb = b.shape, b.reader()
        if len(sha) != len(shb) or a.dtype != b.dtype:
            return [z3.BoolVal(False)]
        goals = []
        for x, y in zip(sha, shb):
            goals.extend(_eq_goals(x, y))
        idx = tuple(sv.fresh_int("q") for _ in sha)
        rng = [sv.zb(sv.and_(sv.cmp(">=", x, 0), sv.cmp("<", x, d))) for x, d in zip(idx, sha)]
        for g in _eq_goals(ra(idx), rb(idx)):
            goals.append(z3.Implies(z3.And(*rng) if rng else z3.BoolVal(True), g))
        return goals
    if isinstance(a, Ref) and isinstance(b, Ref) and a.kind == b.kind == "obj":
        ca, cb = sta.heap[a.sid], stb.heap[b.sid]
        if (a.cls.name if a.cls else None) != (b.cls.name if b.cls else None) or set(ca.data) != set(cb.data):
            return [z3.BoolVal(False)]
        goals = []
        for k in ca.data:
            goals.extend(struct_eq_goals(ca.data[k], cb.data[k], sta, stb, depth + 1))
        return goals
    if isinstance(a, tuple) and isinstance(b, tuple) and len(a) == len(b):
        return [g for x, y in zip(a, b) for g in struct_eq_goals(x, y, sta, stb, depth + 1)]
    return [z3.BoolVal(False)]


def _summarise_file_cell(pre_cell, post_cell, iz, lo, hi, hv_consts, hv_funcs, resolved=()):
    """a file handle used inside a symbolic loop.
    reading: every iteration advances the position by a constant number of lines -> pos(k) = pos0 + c (k - lo);
    writing: every iteration appends items -> one Block(var, lo, k, items(var)) after the pre-existing items."""
    from .text import Block
    a, b = pre_cell.data, post_cell.data
    if a["mode"] == "r":
        delta = A.simp(sv.sub(b["pos"], a["pos"]))
        if not is_conc(delta):
            raise EngineError("file position advances by a non-constant number of lines per iteration")

        def at(k):
            d = dict(a)
            d["pos"] = A.simp(sv.add(a["pos"], sv.mul(delta, sv.sub(k, lo))))
            return Content("file", d, pre_cell.meta)
        return at
    pre_items, post_items = tuple(a["items"]), tuple(b["items"])
    if post_items[:len(pre_items)] != pre_items:
        raise EngineError("file items rewritten inside a loop")
    added = post_items[len(pre_items):]
    if resolved:
        from .text import subst_item
        added = tuple(subst_item(x, list(resolved)) for x in added)
    for t in _item_terms(added):
        if _contains_any(t, hv_consts, hv_funcs):
            raise EngineError("text written inside a loop depends on loop-carried state — needs a written summary")

    def at(k):
        d = dict(a)
        if is_conc(k) and is_conc(lo) and k == lo:
            d["items"] = pre_items
        else:
            d["items"] = pre_items + (Block(iz, lo, k, added),)
        return Content("file", d, pre_cell.meta)
    return at


def _item_terms(items):
    from .text import Block, Rows, Run, Text, Tok
    out = []
    for x in items:
        if isinstance(x, Text):
            out.extend(_item_terms(x.pieces))
        elif isinstance(x, Tok):
            out.extend(_terms_of(x.value))
        elif isinstance(x, Run):
            out.extend(_terms_of(x.n) + _terms_of(x.fn(sv.fresh_int("rt"))))
        elif isinstance(x, Rows):
            out.extend(_terms_of(x.n) + _terms_of(x.width) + _terms_of(x.fn(sv.fresh_int("ri"), sv.fresh_int("rc"))))
        elif isinstance(x, Block):
            out.extend(_terms_of(x.lo) + _terms_of(x.hi) + _item_terms(x.items))
    return out


def _file_cells_equal(a, b):
    from .text import Block
    da, db = a.data, b.data
    if da["mode"] != db["mode"]:
        return [z3.BoolVal(False)]
    if da["mode"] == "r":
        return _eq_goals(da["pos"], db["pos"])
    ia, ib = tuple(da["items"]), tuple(db["items"])
    # step shape: pre + [Block(lo, i)] + added(i)  ==  pre + [Block(lo, i+1)]   holds by the definition of Block
    def norm_items(items):
        out = []
        for x in items:
            out.append(x)
        return out
    na, nb = norm_items(ia), norm_items(ib)
    if len(na) == len(nb) and all((x is y) or (x == y) for x, y in zip(na, nb)):
        return []
    if len(nb) >= 1 and isinstance(nb[-1], Block):
        blk = nb[-1]
        m = len(blk.items)
        pre = nb[:-1]
        # a = pre + [Block(lo, hi-1)] + items(hi-1)   or  a = pre + items(lo) when hi-1 == lo
        if len(na) == len(pre) + 1 + m and na[:len(pre)] == pre and isinstance(na[len(pre)], Block):
            ba = na[len(pre)]
            if ba.var.eq(blk.var) and ba.items == blk.items:
                return _eq_goals(ba.lo, blk.lo) + _eq_goals(A.simp(sv.add(ba.hi, 1)), blk.hi)
        if len(na) == len(pre) + m and na[:len(pre)] == pre:
            return _eq_goals(A.simp(sv.add(blk.lo, 1)), blk.hi)
    if len(na) == len(nb) and all((x is y) or (x == y) for x, y in zip(na, nb)):
        return []
    return [z3.BoolVal(False)]


def _cell_eq_goals(a, b, states=None):
    if a.kind == "file" and b.kind == "file":
        return _file_cells_equal(a, b)
    if a.kind == "list" and b.kind == "list" and isinstance(a.data, AppendedSeq) and isinstance(b.data, A.SeqVal):
        # step shape for lists of objects: base ++ [v]  ==  summary(k+1): same item function on the common prefix (by construction),
        # equal length, and the appended object equals the summary's last item (structural value equality)
        ca, cb = a.data, b.data
        if ca.base_fn is not cb.fn:
            return [z3.BoolVal(False)]
        sta, stb = (states or (cur(), cur()))
        with use_state(stb):
            lastb = cb.fn(ca.n)
        return _eq_goals(ca.length, cb.length) + struct_eq_goals(ca.last, lastb, sta, stb)
    if a.kind == "list" and b.kind == "list":
        ca, cb = a.data, b.data
        if isinstance(ca, A.SeqVal) and isinstance(cb, A.SeqVal) and ca.fn is cb.fn:
            return _eq_goals(ca.length, cb.length)
        la = ca.length if isinstance(ca, A.SeqVal) else len(ca)
        lb = cb.length if isinstance(cb, A.SeqVal) else len(cb)
        goals = _eq_goals(la, lb)
        p = sv.fresh_int("p")
        fa = ca.fn if isinstance(ca, A.SeqVal) else (lambda q, ca=ca: A._pick([norm(x) for x in ca], q))
        fb = cb.fn if isinstance(cb, A.SeqVal) else (lambda q, cb=cb: A._pick([norm(x) for x in cb], q))
        if (isinstance(ca, A.SeqVal) or len(ca) > 0) and (isinstance(cb, A.SeqVal) or len(cb) > 0):
            rng = sv.zb(sv.and_(sv.cmp(">=", p, 0), sv.cmp("<", p, la)))
            for g in _eq_goals(fa(p), fb(p)):
                goals.append(z3.Implies(rng, g))
        return goals
    if a.kind == "file" and b.kind == "file":
        return _eq_goals(a.data["pos"], b.data["pos"])
    if a.kind == "obj" and b.kind == "obj":
        if set(a.data) != set(b.data):
            return [z3.BoolVal(False)]
        goals = []
        for name in a.data:
            if a.data[name] is b.data[name]:
                continue
            goals.extend(_eq_goals(a.data[name], b.data[name]))
        return goals
    if a.kind == "df" and b.kind == "df":
        from .pandas_model import df_cell_eq_goals
        return df_cell_eq_goals(a, b, _eq_goals)
    return [z3.BoolVal(a is b)]


def _import_last_iteration_cells(fr1, st1, st, iz, hi, summary_env, frame):
    """objects allocated by the (symbolic) last iteration and still referenced afterwards: instantiate at i = hi-1"""
    last = sv.znum(A.simp(sv.sub(hi, 1)))
    for name, summ in summary_env.items():
        if summ[0] != "last_obj":
            continue
        v = summ[1]
        frame.env[name] = _rebind_obj(v, st1, st, iz, last)


def _rebind_obj(v, st1, st, iz, last, force=False):
    if isinstance(v, A.Arr):
        c = st1.heap.get(v.sid)
        if c is None:
            return v
        if v.sid in st.heap and not force:
            # the cell exists outside the loop body (allocated before the loop): its content after the loop is the one the
            # summary installed (or the unchanged pre-loop content), never the discovery run's havocked content
            return v
        fn = c.data

        def fn2(idx, fn=fn):
            return _subst_val(fn(idx), [(iz, last)])
        meta = dict(c.meta)
        meta["shape"] = tuple(_subst_val(d, [(iz, last)]) for d in meta["shape"])
        sid = st.alloc(Content("arr", A._memo(fn2), meta))
        view = v.view
        if view is not None:
            nb = [spec if spec[0] == "fix" and is_conc(spec[1]) else
                  (("fix", _subst_val(spec[1], [(iz, last)])) if spec[0] == "fix" else ("rng", _subst_val(spec[1], [(iz, last)]), spec[2]))
                  for spec in view.base]
            view = A.View(nb, [_subst_val(d, [(iz, last)]) for d in view.shape])
        return A.Arr(sid, view, v.dtype)
    if isinstance(v, A.Masked):
        src, mask = v.src, v.mask
        return A.Masked(lambda idx: _subst_val(src(idx), [(iz, last)]), _subst_val(v.n, [(iz, last)]),
                        lambda t: _subst_val(mask(t), [(iz, last)]), tuple(_subst_val(d, [(iz, last)]) for d in v.rest), v.dtype)
    if isinstance(v, tuple):
        return tuple(_rebind_obj(x, st1, st, iz, last) for x in v)
    if sv.is_scalar(norm(v)):
        return _subst_val(v, [(iz, last)])
    return v


def _merge_paths(paths, where, lenient=False):
    """merge the normal end states of a forked loop body into one state: values become ite-terms over the path guards.
    The guards are the parts of the path conditions after the longest common prefix; the paths come from branch splits,
    so their guards are mutually exclusive and jointly exhaustive under the common prefix.
    lenient (discovery / first-iteration probe only): a numeric accumulator that some branches have already turned into an
    array is joined as the constant array (number (+) array broadcasts to the array's shape)."""
    pcs = [st.pc for _, st in paths]
    n_common = 0
    while all(len(pc) > n_common for pc in pcs) and all(pc[n_common].eq(pcs[0][n_common]) for pc in pcs):
        n_common += 1
    tails = [pc[n_common:] for pc in pcs]
    common_ids = set(t.get_id() for t in tails[0])
    for tl in tails[1:]:
        common_ids &= set(t.get_id() for t in tl)
    common = [t for t in tails[0] if t.get_id() in common_ids]      # side conditions assumed on every branch
    guards = []
    for tl in tails:
        extra = [t for t in tl if t.get_id() not in common_ids]
        guards.append(sv.wrap(z3.And(*extra)) if len(extra) > 1 else (sv.wrap(extra[0]) if extra else True))

    def merge_scalar(vals):
        out = vals[-1]
        for g, v in zip(reversed(guards[:-1]), reversed(vals[:-1])):
            out = ite(g, v, out)
        return out
    fr0, st0 = paths[0]
    stm = st0.fork()
    stm.pc = list(pcs[0][:n_common]) + common
    if all(isinstance(g, SV) for g in guards):
        # the normal paths are all that is left of the body (raising paths are separate `infeasible` side obligations)
        anyg = z3.simplify(z3.Or(*[g.t for g in guards]))
        if not z3.is_true(anyg):
            stm.pc.append(anyg)
    stm.decisions = {k: v for k, v in st0.decisions.items() if all(k in st.decisions and st.decisions[k][0] == v[0] for _, st in paths)}
    stm.fresh = max(st.fresh for _, st in paths)
    stm.events = [e for _, st in paths for e in st.events]
    stm.trace = list(st0.trace)
    for _, st in paths[1:]:
        if len(st.trace) != len(st0.trace):
            raise EngineError(f"loop body at {where}: branches differ in their write/trace events")
    states = [st for _, st in paths]

    def same_shape(shapes):
        return all(len(sh) == len(shapes[0]) and all(A.dim_eq_syntactic(x, y) for x, y in zip(sh, shapes[0])) for sh in shapes)

    def merge_val(vals):
        """joined value, or _MISSING when the alternatives cannot be joined"""
        v0 = vals[0]
        if all(v is v0 for v in vals):
            return v0
        nv = [norm(v) if sv.is_scalar(norm(v)) else v for v in vals]
        if all(sv.is_scalar(v) for v in nv):
            return merge_scalar(nv)
        if all(isinstance(v, A.Arr) for v in nv):
            if all(v.sid == nv[0].sid for v in nv) and all(_same_view(v.view, nv[0].view) for v in nv):
                return nv[0]
            shapes = []
            readers = []
            for st, v in zip(states, nv):
                with use_state(st):
                    shapes.append(tuple(v.shape))
                    readers.append(v.reader())
            if same_shape(shapes):
                with use_state(stm):
                    return A.new_arr(shapes[0], lambda idx, readers=readers: merge_scalar([r(idx) for r in readers]), A.promote(*[v.dtype for v in nv]))
            return _MISSING
        arrs = [v for v in nv if isinstance(v, A.Arr)]
        if lenient and arrs and all(isinstance(v, A.Arr) or _is_num(v) for v in nv):
            shapes, readers = [], []
            for st, v in zip(states, nv):
                if isinstance(v, A.Arr):
                    with use_state(st):
                        shapes.append(tuple(v.shape))
                        readers.append(v.reader())
                else:
                    readers.append(lambda idx, v=v: v)
            if same_shape(shapes):
                dt = A.promote(*[v.dtype if isinstance(v, A.Arr) else A.scalar_dtype(v) for v in nv])
                with use_state(stm):
                    return A.new_arr(shapes[0], lambda idx, readers=readers, dt=dt: merge_scalar([A._cast(r(idx), dt) for r in readers]), dt)
            return _MISSING
        if all(isinstance(v, Ref) for v in nv) and all(v.sid == nv[0].sid for v in nv):
            return nv[0]
        if all(isinstance(v, tuple) for v in nv) and all(len(v) == len(nv[0]) for v in nv):
            parts = [merge_val([v[k] for v in nv]) for k in range(len(nv[0]))]
            return _MISSING if any(x is _MISSING for x in parts) else tuple(parts)
        if all(isinstance(v, (str, type(None))) for v in nv) and all(v == nv[0] for v in nv):
            return nv[0]
        return _MISSING

    def need(v, what):
        if v is _MISSING:
            raise EngineError(f"loop body at {where}: branches leave {what} that cannot be joined — needs a written summary")
        return v
    # heap
    sids = []
    seen = set()
    for st in states:
        for sid in st.heap:
            if sid not in seen:
                seen.add(sid)
                sids.append(sid)
    later = []
    for sid in sids:
        cells = [st.heap.get(sid) for st in states]
        if any(c is None for c in cells):
            c = next(c for c in cells if c is not None)
            stm.heap[sid] = c
            continue
        if all(c is cells[0] for c in cells):
            stm.heap[sid] = cells[0]
            continue
        kind = cells[0].kind
        if any(c.kind != kind for c in cells):
            raise EngineError(f"loop body at {where}: a heap cell changes kind on a branch")
        if kind == "arr":
            if not same_shape([tuple(c.meta["shape"]) for c in cells]):
                raise EngineError(f"loop body at {where}: an array cell changes shape on a branch")
            fns = [c.data for c in cells]

            def fn(idx, fns=fns):
                return merge_scalar([f(idx) for f in fns])
            stm.heap[sid] = Content("arr", A._memo(fn), cells[0].meta)
        elif kind == "file" and all(c.data.get("mode") == "r" for c in cells):
            d = dict(cells[0].data)
            d["pos"] = merge_scalar([c.data["pos"] for c in cells])
            stm.heap[sid] = Content("file", d, cells[0].meta)
        else:
            stm.heap[sid] = cells[0]
            later.append((sid, cells))
    for sid, cells in later:       # cells holding values (joined after the arrays they may refer to)
        c0 = cells[0]
        kind = c0.kind
        if kind in ("dict", "obj"):
            keys = list(c0.data.keys())
            if any(list(c.data.keys()) != keys for c in cells):
                raise EngineError(f"loop body at {where}: a dictionary/object gets different keys on different branches")
            stm.heap[sid] = Content(kind, {k: need(merge_val([c.data[k] for c in cells]), f"entry {k!r}") for k in keys}, c0.meta)
        elif kind == "df":
            o = c0.data["order"]
            if any(c.data["order"] != o for c in cells) or any(c.data["cols"][k].sid != c0.data["cols"][k].sid for c in cells for k in o):
                raise EngineError(f"loop body at {where}: DataFrame columns replaced on a branch")
            stm.heap[sid] = c0
        elif kind == "list" and all(not isinstance(c.data, A.SeqVal) and len(c.data) == len(c0.data) for c in cells):
            stm.heap[sid] = Content("list", tuple(need(merge_val([c.data[k] for c in cells]), "a list item") for k in range(len(c0.data))), c0.meta)
        else:
            raise EngineError(f"loop body at {where}: branches modify a {kind} cell differently — needs a written summary")
    # environment
    frm = fr0.clone()
    names = set()
    for fr, _ in paths:
        names |= set(fr.env)
    for nme in sorted(names):
        vals = [fr.env.get(nme, _MISSING) for fr, _ in paths]
        if any(v is _MISSING for v in vals):
            frm.env.pop(nme, None)     # defined on some branches only: not live after the body (checked when read)
            continue
        v = merge_val(vals)
        if v is _MISSING:
            frm.env.pop(nme, None)
        else:
            frm.env[nme] = v
    return frm, stm


def _same_view(a, b):
    if a is None or b is None:
        return a is b
    return repr(a.base) == repr(b.base) and repr(a.shape) == repr(b.shape)


def _summarise_multi(interp, s, frame, st, lo, hi, item_fn, normal, i, scal_h, pre_env, pre_heap, where):
    raise EngineError(f"loop body at {where} forks into {len(normal)} paths — needs a written summary or mergeable branches")


# ----------------------------------------------------------------------------------------------
# scatter-store nests


def make_scatter_nest_rule(inverse, clause="nest:every-slot-written-by-exactly-one-iteration"):
    """scatter_nest_rule with a WRITTEN ghost inverse of the store index (part of the contract, taken from the property statement,
    e.g. row-major: i = p div n1, j = p mod n1).  ``inverse(array_name, idx, ranges, loop_vars) -> [loop-variable terms]`` or
    ``([terms], [hint facts])`` (or None for an array it does not speak about); idx are the position variables of the array,
    ranges the [(lo, hi)] of the nest, loop_vars the symbolic loop indices (for hint instances: valid formulas, each re-proved
    without assumptions, that spare the solver a nonlinear search in obligation (2)).  For every
    position idx of the region the store can reach (static conjuncts of the store condition, inside the array's shape) two
    obligations are generated from the REAL store condition cond(iota, idx) and reported under ``clause``:
      (1) inv(idx) lies in the loop ranges and cond(inv(idx), idx) holds        -- some iteration of the nest writes the slot
      (2) cond(iota, idx) with iota in the ranges implies iota == inv(idx)      -- no other iteration writes it
    Given both, the slot is written exactly once, by iteration inv(idx), with a value that does not depend on the array or on
    loop-carried state (checked as before), so the post-content val(inv(idx), idx) is exact (scatter-store rule: the same rule as the
    affine / registered-bijection scatter summaries, with the bijection supplied by the contract and checked by (1), (2))."""
    def rule(interp, s, frame, st, lo, hi, item_fn):
        return scatter_nest_rule(interp, s, frame, st, lo, hi, item_fn, inverse=inverse, inv_clause=clause)
    return rule


def scatter_nest_rule(interp, s, frame, st, lo, hi, item_fn, inverse=None, inv_clause=None):
    """Rule for a PERFECT nest of >= 2 symbolic range-loops whose innermost body is loop-free and whose only effect is
    a store  A[g(iota)] = e(iota)  (e independent of A and of loop-carried state) — e.g. filling a grid through a
    computed flat index.  The automatic summaries need an affine injective writer; here g may be non-affine and even
    non-injective, so no closed form is claimed:

      * the innermost body is executed once at symbolic loop indices iota from a havocked content of the touched
        arrays (its index-bounds side obligations are recorded as usual) and the store is recorded as a *probe*
        (array, condition, stored value, loop variables, ranges, assumptions) in ``interp.probes`` — contracts state
        their clauses (range, injectivity, order, stored value) on the probe, i.e. on the real index expression;
      * the post-state OVER-APPROXIMATES the nest: inside the part of the array the store can reach (the conjuncts
        of the store condition that do not mention loop variables) the content becomes an unknown function of the
        position and of the environment the store depends on; elsewhere it is unchanged.
    Returns NotImplemented when the loop is not such a nest."""
    loops_ = [s]
    inner = s
    while len(inner.body) == 1 and isinstance(inner.body[0], ast.For) and not inner.body[0].orelse:
        inner = inner.body[0]
        loops_.append(inner)
    body = inner.body
    if len(loops_) < 2 or s.orelse:
        return NotImplemented
    for b in body:
        for n in ast.walk(b):
            if isinstance(n, (ast.For, ast.While, ast.Return, ast.Break, ast.Continue)):
                return NotImplemented
    where = f"{frame.fname}:{s.lineno}"
    pre_heap = dict(st.heap)
    pre_env = dict(frame.env)
    side_mark = len(st.side)
    loop_vars = []
    pre_assumptions = []

    def run(heap_in):
        fr = Frame(frame.module, dict(pre_env), frame.fname)
        st2 = st.fork()
        st2.heap = dict(heap_in)
        st2.events = []
        del loop_vars[:]
        with use_state(st2):
            for k, L in enumerate(loops_):
                if k == 0:
                    l, h, itf = lo, hi, item_fn
                else:
                    space = _iter_space(interp, L, fr)
                    if space[0] != "sym":
                        return None
                    _, l, h, itf = space
                v = sv.fresh_int("nest")
                st2.pc.append(sv.zb(sv.cmp(">=", v, l)))
                st2.pc.append(sv.zb(sv.cmp("<", v, h)))
                interp.assign(L.target, itf(v), fr)
                loop_vars.append((v, l, h))
            pre_assumptions[:] = st2.all_assumptions()      # before the body: index-bounds requirements are NOT among them
            outs = interp.exec_block_paths(body, fr, st2)
        return outs
    try:
        outs = run(pre_heap)
    except Fork:
        return NotImplemented
    if outs is None:
        return NotImplemented
    normal = [(fr, s2) for fr, s2, out in outs if out[0] == "normal"]
    if len(normal) != 1 or len(outs) != 1:
        return NotImplemented
    st1 = normal[0][1]
    touched = sorted({sid for sid in st1.heap if sid in pre_heap and st1.heap[sid] is not pre_heap[sid]})
    if not touched or any(pre_heap[sid].kind != "arr" for sid in touched):
        return NotImplemented
    heap_h, arr_h = dict(pre_heap), {}
    hv_funcs, hv_consts = set(), set()
    for sid in touched:
        c = pre_heap[sid]
        shape = c.meta["shape"]
        dt = _dtype_of_sid(pre_env, sid, st, c)
        if dt == "complex" or not shape:
            return NotImplemented
        fn = _havoc_array_content(shape, dt, f"N{sid}_")
        heap_h[sid] = Content("arr", fn, c.meta)
        arr_h[sid] = (shape, dt, fn)
        probe = fn(tuple(sv.fresh_int("p") for _ in shape))
        for t in _terms_of(probe):
            hv_funcs.add(t.decl().name())
    del st.side[side_mark:]
    outs = run(heap_h)
    normal = [(fr, s2) for fr, s2, out in outs if out[0] == "normal"]
    if len(normal) != 1 or len(outs) != 1:
        return NotImplemented
    fr1, st1 = normal[0]
    lvz = [v.t for v, _, _ in loop_vars]
    new_content = {}
    probes = []
    for ordinal, (sid, (shape, dt, hfn)) in enumerate(sorted(arr_h.items())):
        idx = tuple(sv.fresh_int("x") for _ in shape)
        idz = [x.t for x in idx]
        postv = _subst_val(st1.heap[sid].data(idx), [])
        prev = hfn(idx)
        dec = _decompose_store(postv, prev)
        if dec is None:
            return NotImplemented
        cond, val = dec
        if _contains_any(cond, hv_consts, hv_funcs) or any(_contains_any(t, hv_consts, hv_funcs) for t in _terms_of(val)):
            return NotImplemented
        conj = []

        def flat(c):
            if z3.is_and(c):
                for ch in c.children():
                    flat(ch)
            else:
                conj.append(c)
        flat(z3.simplify(cond))
        static = [c for c in conj if not any(_mentions(c, v) for v in lvz)]
        from .sigma import free_consts
        params = []
        for t in [cond] + _terms_of(val):
            for c in free_consts(t):
                if not any(c.eq(x) for x in lvz + idz + params):
                    params.append(c)
        name = f"NEST_{frame.fname.split('.')[-1]}_{s.lineno}_{ordinal}"
        sort = {"float": z3.RealSort(), "int": z3.IntSort(), "bool": z3.BoolSort()}[dt]
        G = z3.Function(name, *([z3.IntSort()] * len(shape) + [p.sort() for p in params] + [sort]))
        pre_fn = pre_heap[sid].data
        static_c = z3.And(*static) if static else z3.BoolVal(True)

        def fn(ix, G=G, params=params, idz=idz, static_c=static_c, pre_fn=pre_fn):
            pairs = [(a, sv.znum(b)) for a, b in zip(idz, ix)]
            c = sv.wrap(z3.simplify(z3.substitute(static_c, *pairs)))
            return ite(c, lambda: sv.wrap(G(*([sv.znum(b) for b in ix] + params))), lambda: pre_fn(ix))
        vname = next((k for k, v in pre_env.items() if isinstance(v, A.Arr) and v.sid == sid), None)
        inv = inverse(vname, [sv.wrap(x) for x in idz], [(l, h) for _, l, h in loop_vars], [v for v, _, _ in loop_vars]) if inverse is not None else None
        hints = []
        if isinstance(inv, tuple):      # (terms, hint facts): every hint is a closed valid formula (an instance of a lemma the contract
            inv, hints = inv            # proves on fresh variables); it is ALSO emitted as its own obligation, without assumptions
            hints = [sv.zb(h) if isinstance(h, SV) else h for h in hints]
        if inv is not None and len(inv) == len(lvz) and not isinstance(val, Cx):
            inv_z = [sv.znum(t) for t in inv]
            sub = list(zip(lvz, inv_z))
            region = z3.And(static_c, *[z3.And(x >= 0, x < sv.znum(dim)) for x, dim in zip(idz, shape)])
            ranges_at_inv = z3.And(*[z3.And(iz >= z3.substitute(sv.znum(l), *sub), iz < z3.substitute(sv.znum(h), *sub))
                                     for iz, (_, l, h) in zip(inv_z, loop_vars)])
            no_lv = [a for a in pre_assumptions if not any(_mentions(a, v) for v in lvz)]
            g1 = _SideGoal("nest-inverse:slot-is-written-by-iteration-inv(slot)", z3.Implies(region, z3.And(ranges_at_inv, z3.substitute(cond, *sub))),
                           no_lv, where)
            g2 = _SideGoal("nest-inverse:no-other-iteration-writes-the-slot", z3.Implies(z3.And(region, cond), z3.And(*[v == iz for v, iz in zip(lvz, inv_z)])),
                           list(pre_assumptions) + hints, where)
            hint_goals = [_SideGoal("nest-inverse:hint-is-a-valid-formula", h, [], where) for h in hints]
            for g in [g1, g2] + hint_goals:
                g.opts = {}
                g.clause = inv_clause
                st.side.append(g)
            val_t = sv.znum(val)

            def fn(ix, idz=idz, region=region, pre_fn=pre_fn, val_t=val_t, sub=sub):        # noqa: F811  (exact post-content)
                pairs = [(a, sv.znum(b)) for a, b in zip(idz, ix)]
                c = sv.wrap(z3.simplify(z3.substitute(region, *pairs)))
                return ite(c, lambda: sv.wrap(z3.simplify(z3.substitute(z3.substitute(val_t, *sub), *pairs))), lambda: pre_fn(ix))
        new_content[sid] = Content("arr", A._memo(fn), pre_heap[sid].meta)
        probes.append(dict(sid=sid, array=vname, where=where, cond=cond, val=val, idx=list(idx), shape=tuple(shape),
                           loop_vars=[(v, l, h) for v, l, h in loop_vars], assumptions=list(pre_assumptions),
                           equalities=_index_equalities(cond, idz), depth=len(loops_)))
    if not hasattr(interp, "probes"):
        interp.probes = []
    interp.probes.extend(probes)
    for sid, c in new_content.items():
        st.heap[sid] = c
        st.events.append(("store", sid, where, list(st.pc)))
    for name in _assigned_names([s]):
        frame.env[name] = UnboundAfterLoop(name, where)
    return None


# ----------------------------------------------------------------------------------------------
# promotion of numeric accumulators


def _is_num(v):
    v = norm(v)
    return isinstance(v, (int, sv.Fraction)) and not isinstance(v, bool)


def _promotion_signals(pre_env, pre_heap, scal_h, fr1, st1):
    for name in scal_h:
        if _is_num(pre_env.get(name)) and isinstance(fr1.env.get(name), A.Arr):
            return True
    for sid, c in pre_heap.items():
        c1 = st1.heap.get(sid)
        if c1 is None or c1 is c:
            continue
        if c.kind == "dict" and c1.kind == "dict":
            for k, v in c.data.items():
                if _is_num(v) and isinstance(c1.data.get(k), A.Arr):
                    return True
        if c.kind == "df" and c1.kind == "df" and c.data["order"] == c1.data["order"]:
            for k in c.data["order"]:
                a, b = c.data["cols"][k], c1.data["cols"][k]
                if a.sid != b.sid and a.dtype != b.dtype:
                    return True
    return False


def _promote(pre_env, pre_heap, fr_p, st_p, st):
    """ghost pre-state in which every numeric accumulator that the first iteration replaced by a fresh array (number (+) array,
    integer frame column (+) float array) already is an array of that shape and dtype holding the same values.
    Returns (env, {ghost sid: sid of the array the first iteration really produced}) or None; st.heap is updated."""
    gmap = {}
    env = dict(pre_env)

    def fresh_arr(v):
        return isinstance(v, A.Arr) and v.view is None and v.sid not in pre_heap

    def ghost_const(c, post):
        shape = tuple(st_p.heap[post.sid].meta["shape"])
        val = A._cast(norm(c), post.dtype)
        sid = st.alloc(Content("arr", (lambda idx, val=val: val), {"shape": shape}))
        gmap[sid] = post.sid
        return A.Arr(sid, None, post.dtype)

    for name, v in pre_env.items():
        post = fr_p.env.get(name)
        if _is_num(v) and fresh_arr(post):
            env[name] = ghost_const(v, post)
    for sid, c in list(pre_heap.items()):
        c1 = st_p.heap.get(sid)
        if c1 is None or c1 is c:
            continue
        if c.kind == "dict" and c1.kind == "dict" and list(c.data.keys()) == list(c1.data.keys()):
            d = dict(c.data)
            ch = False
            for k, v in c.data.items():
                if _is_num(v) and fresh_arr(c1.data[k]):
                    d[k] = ghost_const(v, c1.data[k])
                    ch = True
            if ch:
                st.heap[sid] = Content("dict", d, c.meta)
        elif c.kind == "df" and c1.kind == "df" and c.data["order"] == c1.data["order"] and A.dim_eq_syntactic(c.data["n"], c1.data["n"]):
            cols = dict(c.data["cols"])
            ch = False
            for k in c.data["order"]:
                a, b = c.data["cols"][k], c1.data["cols"][k]
                if a.sid != b.sid and fresh_arr(b) and a.dtype != b.dtype and A.promote(a.dtype, b.dtype) == b.dtype:
                    r = pre_heap[a.sid].data if a.view is None else None
                    if r is None:
                        continue
                    dt = b.dtype
                    gs = st.alloc(Content("arr", A._memo(lambda idx, r=r, dt=dt: A._cast(r(idx), dt)), {"shape": tuple(pre_heap[a.sid].meta["shape"])}))
                    gmap[gs] = b.sid
                    cols[k] = A.Arr(gs, None, dt)
                    ch = True
            if ch:
                st.heap[sid] = Content("df", {"cols": cols, "order": list(c.data["order"]), "n": c.data["n"]}, c.meta)
    if not gmap:
        return None
    return env, gmap


# ----------------------------------------------------------------------------------------------
# map loops:  for x in <symbolic sequence>: ...; L1.append(e1(x)); L2.append(e2(x))


def map_append_rule(interp, s, frame, st, lo, hi, item_fn):
    """Rule for a symbolic loop whose only effect is to append ONE element per iteration to some lists that are empty
    before the loop and are not otherwise used in the body, the element depending on the iteration only (no loop-carried
    variable, no store into existing storage).  The body may fork (if/else): no merge is made.  The lists become
    symbolic sequences of length hi - lo whose element p is obtained by executing the body AT iteration lo + p when the
    element is read — a branch of the body is then a branch of the reading statement (Fork), so aliasing and path
    conditions of each branch stay exact.  Conditions (checked here, the rule declines with NotImplemented otherwise):
      * syntactic: the list names occur in the body only as top-level statements `L.append(expr)`, one per list; no
        break/continue/return; no else clause;
      * one discovery execution at a fresh index (every path): every path ends normally, leaves every pre-existing heap
        cell untouched except that each list grew by one element, reads no variable assigned in the body before assigning
        it (such variables are removed from the environment of the discovery run), its side obligations are recorded.
    Variables assigned in the body are unbound after the loop.  Reads of an element evaluate the body against the heap
    content of the loop's pre-state (numpy evaluates eagerly)."""
    if s.orelse:
        return NotImplemented
    body = s.body
    lists = {}
    for b in body:
        if isinstance(b, ast.Expr) and isinstance(b.value, ast.Call) and isinstance(b.value.func, ast.Attribute) \
                and b.value.func.attr == "append" and isinstance(b.value.func.value, ast.Name) and len(b.value.args) == 1 and not b.value.keywords:
            nm = b.value.func.value.id
            if nm in lists:
                return NotImplemented
            lists[nm] = b
    if not lists:
        return NotImplemented
    allowed = {id(b.value.func.value) for b in lists.values()}
    for b in body:
        for n in ast.walk(b):
            if isinstance(n, (ast.Return, ast.Break, ast.Continue)):
                return NotImplemented
            if isinstance(n, ast.Name) and n.id in lists and id(n) not in allowed:
                return NotImplemented
    refs = {}
    for nm in lists:
        v = frame.env.get(nm)
        if not (isinstance(v, Ref) and v.kind == "list"):
            return NotImplemented
        c = st.heap[v.sid].data
        if isinstance(c, A.SeqVal) or len(c) != 0:
            return NotImplemented
        refs[nm] = v
    sids = {v.sid for v in refs.values()}
    if len(sids) != len(refs):
        return NotImplemented
    # no other reference to the lists (environment or heap)
    for k, v in frame.env.items():
        if isinstance(v, Ref) and v.sid in sids and k not in refs:
            return NotImplemented
    for c in st.heap.values():
        vals = c.data.values() if isinstance(c.data, dict) else (c.data if isinstance(c.data, (tuple, list)) else ())
        for v in vals:
            if isinstance(v, Ref) and v.sid in sids:
                return NotImplemented
    try:
        if not interp.decide(sv.cmp(">=", hi, lo)):
            return NotImplemented
    except Fork:
        return NotImplemented
    where = f"{frame.fname}:{s.lineno}"
    assigned = _assigned_names(body) | _assigned_names([ast.Assign(targets=[s.target], value=ast.Constant(0))])
    env0 = {k: v for k, v in frame.env.items() if k not in assigned}
    heap0 = dict(st.heap)
    # ---- discovery at a fresh iteration
    k = sv.fresh_int("m")
    fr = Frame(frame.module, dict(env0), frame.fname)
    st2 = st.fork()
    st2.pc = list(st.pc) + [sv.zb(sv.cmp(">=", k, lo)), sv.zb(sv.cmp("<", k, hi))]
    with use_state(st2):
        interp.assign(s.target, item_fn(k), fr)
        outs = interp.exec_block_paths(body, fr, st2)
    for fr1, st1, out in outs:
        if out[0] != "normal":
            return NotImplemented
        for sid, c in heap0.items():
            if sid in sids:
                d = st1.heap[sid].data
                if isinstance(d, A.SeqVal) or len(d) != 1:
                    return NotImplemented
            elif st1.heap.get(sid) is not c:
                return NotImplemented
    order = sorted(refs, key=lambda nm: refs[nm].sid)

    def element(p, nm):
        cst = cur()
        saved = cst.heap
        work = dict(saved)
        work.update(heap0)
        before = set(work)
        cst.heap = work
        try:
            f2 = Frame(frame.module, dict(env0), frame.fname)
            interp.assign(s.target, item_fn(A.simp(sv.add(lo, p))), f2)
            interp.exec_body_single(body, f2)
            val = cst.heap[refs[nm].sid].data[-1]
        finally:
            new = {sid: c for sid, c in cst.heap.items() if sid not in before}
            cst.heap = saved
            saved.update(new)
        return val
    n = A.simp(sv.sub(hi, lo))
    for nm in order:
        st.heap[refs[nm].sid] = Content("list", A.SeqVal(n, (lambda p, nm=nm: element(p, nm))), st.heap[refs[nm].sid].meta)
    for nm in assigned:
        frame.env[nm] = UnboundAfterLoop(nm, where)
    return None
