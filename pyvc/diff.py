"""Spec term language with symbolic differentiation (C11, C12).

The rules below (sum, product, quotient, chain — also through sqrt and through an abstract function —, constant-exponent power) are the *definition* of
"derivative" for the contracts and are part of the trusted base; the thorough tier validates them
against central differences.  Terms evaluate through a backend `M` with `add/sub/mul/div/pow/sqrt`
so the same spec is used symbolically (pyvc.sv) and concretely (replay, floats).
"""
from __future__ import annotations


class E:
    def __add__(self, o):
        return Add(self, lift(o))

    def __radd__(self, o):
        return Add(lift(o), self)

    def __sub__(self, o):
        return Add(self, Mul(Const(-1), lift(o)))

    def __rsub__(self, o):
        return Add(lift(o), Mul(Const(-1), self))

    def __mul__(self, o):
        return Mul(self, lift(o))

    def __rmul__(self, o):
        return Mul(lift(o), self)

    def __truediv__(self, o):
        return Div(self, lift(o))

    def __rtruediv__(self, o):
        return Div(lift(o), self)

    def __neg__(self):
        return Mul(Const(-1), self)

    def __pow__(self, e):
        return Pow(self, lift(e))


def lift(v):
    return v if isinstance(v, E) else Const(v)


class Const(E):
    def __init__(self, v):
        self.v = v


class Var(E):
    def __init__(self, name):
        self.name = name


class Add(E):
    def __init__(self, a, b):
        self.a, self.b = a, b


class Mul(E):
    def __init__(self, a, b):
        self.a, self.b = a, b


class Div(E):
    def __init__(self, a, b):
        self.a, self.b = a, b


class Pow(E):
    """a ** e with e independent of the differentiation variable"""
    def __init__(self, a, e):
        self.a, self.e = a, e


class Sqrt(E):
    def __init__(self, a):
        self.a = a


class Fn(E):
    """k-th derivative of an abstract (unspecified, sufficiently smooth) function `name` of one argument, at a.
    Chain rule: d/dx name^(k)(a) = name^(k+1)(a) * da/dx.  Evaluation: env[name](k, value of a)."""
    def __init__(self, name, a, k=0):
        self.name, self.a, self.k = name, a, k


def depends(e, x):
    if isinstance(e, Const):
        return False
    if isinstance(e, Var):
        return e.name == x
    if isinstance(e, (Add, Mul, Div)):
        return depends(e.a, x) or depends(e.b, x)
    if isinstance(e, Pow):
        return depends(e.a, x) or depends(e.e, x)
    if isinstance(e, (Sqrt, Fn)):
        return depends(e.a, x)
    raise TypeError(e)


def D(e, x):
    """d e / d x"""
    if not depends(e, x):
        return Const(0)
    if isinstance(e, Var):
        return Const(1)
    if isinstance(e, Add):
        return Add(D(e.a, x), D(e.b, x))
    if isinstance(e, Mul):
        return Add(Mul(D(e.a, x), e.b), Mul(e.a, D(e.b, x)))
    if isinstance(e, Div):
        return Div(Add(Mul(D(e.a, x), e.b), Mul(Const(-1), Mul(e.a, D(e.b, x)))), Mul(e.b, e.b))
    if isinstance(e, Pow):
        if depends(e.e, x):
            raise ValueError("exponent depends on the variable")
        return Mul(Mul(e.e, Pow(e.a, Add(e.e, Const(-1)))), D(e.a, x))
    if isinstance(e, Sqrt):
        return Div(D(e.a, x), Mul(Const(2), Sqrt(e.a)))
    if isinstance(e, Fn):
        return Mul(Fn(e.name, e.a, e.k + 1), D(e.a, x))
    raise TypeError(e)


def ev(e, env, M):
    """evaluate with backend M (needs add, mul, div, power, sqrt) and variable environment"""
    if isinstance(e, Const):
        return e.v
    if isinstance(e, Var):
        return env[e.name]
    if isinstance(e, Add):
        return M.add(ev(e.a, env, M), ev(e.b, env, M))
    if isinstance(e, Mul):
        a = ev(e.a, env, M)
        if isinstance(a, int) and a == 0:
            return 0
        return M.mul(a, ev(e.b, env, M))
    if isinstance(e, Div):
        return M.div(ev(e.a, env, M), ev(e.b, env, M))
    if isinstance(e, Pow):
        return M.power(ev(e.a, env, M), ev(e.e, env, M))
    if isinstance(e, Sqrt):
        return M.sqrt(ev(e.a, env, M))
    if isinstance(e, Fn):
        return env[e.name](e.k, ev(e.a, env, M))
    raise TypeError(e)
