"""Symbolic scalar values for the pyvc verifier.

Scalars in the engine are either *concrete* Python values (int, bool, Fraction — a Python
``float`` of the program is represented by an exact Fraction: assumption A1, floats are reals)
or ``SV`` — a thin wrapper around a z3 term with full operator overloading, so that both the AST
interpreter and the sidecar specifications can use ordinary Python operators.  Complex numbers are
``Cx`` pairs.  Integer powers are expanded to products (never z3's ``^``: 0^0 is unspecified there).
"""
from __future__ import annotations

import itertools
from fractions import Fraction

import z3

# ----------------------------------------------------------------------------------------------
# helpers


class EngineError(Exception):
    """The engine met something outside its supported subset (verdict UNDECIDED, never a pass)."""


_fresh = itertools.count()


FRESH_HOOK = [None]   # state.py installs a per-path counter so that re-execution after a fork is deterministic


def fresh_name(prefix="k"):
    h = FRESH_HOOK[0]
    if h is not None:
        n = h()
        if n is not None:
            return f"{prefix}!{n}"
    return f"{prefix}!g{next(_fresh)}"


def is_conc(v):
    return isinstance(v, (int, bool, Fraction)) and not isinstance(v, SV)


def to_frac(v):
    """python float/int -> exact Fraction via its shortest repr (0.1 -> 1/10)."""
    if isinstance(v, bool):
        return int(v)
    if isinstance(v, int):
        return v
    if isinstance(v, Fraction):
        return v if v.denominator != 1 else int(v.numerator)
    if isinstance(v, float):
        f = Fraction(repr(v))
        return f if f.denominator != 1 else Fraction(f.numerator)  # keep "float-ness" as Fraction
    raise EngineError(f"to_frac: {type(v)}")


def z(v):
    """any scalar -> z3 term"""
    if isinstance(v, SV):
        return v.t
    if isinstance(v, bool):
        return z3.BoolVal(v)
    if isinstance(v, int):
        return z3.IntVal(v)
    if isinstance(v, Fraction):
        return z3.RealVal(str(v))
    if isinstance(v, float):
        return z3.RealVal(str(Fraction(repr(v))))
    if isinstance(v, z3.ExprRef):
        return v
    raise EngineError(f"cannot convert {type(v).__name__} to a term")


def zr(v):
    t = z(v)
    if z3.is_int(t):
        return z3.ToReal(t)
    if z3.is_bool(t):
        return z3.If(t, z3.RealVal(1), z3.RealVal(0))
    return t


def znum(v):
    """numeric z3 term (bool -> 0/1 int)"""
    t = z(v)
    if z3.is_bool(t):
        return z3.If(t, z3.IntVal(1), z3.IntVal(0))
    return t


def zb(v):
    t = z(v)
    if z3.is_bool(t):
        return t
    return t != 0


def wrap(t):
    """z3 term -> SV or concrete if it is a numeral"""
    if not isinstance(t, z3.ExprRef):
        return t
    if z3.is_true(t):
        return True
    if z3.is_false(t):
        return False
    if z3.is_int_value(t):
        return t.as_long()
    if z3.is_rational_value(t):
        return Fraction(t.numerator_as_long(), t.denominator_as_long())
    return SV(t)


def _simp(t):
    return z3.simplify(t, som=False)


class SV:
    """symbolic scalar (Int / Real / Bool sorted z3 term)"""
    __slots__ = ("t",)
    __array_priority__ = 1000

    def __init__(self, t):
        self.t = t

    # --- sort predicates
    @property
    def is_int(self):
        return z3.is_int(self.t)

    @property
    def is_bool(self):
        return z3.is_bool(self.t)

    @property
    def is_real(self):
        return z3.is_real(self.t)

    def __repr__(self):
        return f"SV({self.t})"

    def __hash__(self):
        return hash(self.t)

    def __bool__(self):
        raise EngineError(f"symbolic value used as a concrete bool: {self.t}")

    def __index__(self):
        raise EngineError(f"symbolic value used as a concrete index: {self.t}")

    # arithmetic
    def __add__(self, o):
        return add(self, o)

    def __radd__(self, o):
        return add(o, self)

    def __sub__(self, o):
        return sub(self, o)

    def __rsub__(self, o):
        return sub(o, self)

    def __mul__(self, o):
        return mul(self, o)

    def __rmul__(self, o):
        return mul(o, self)

    def __truediv__(self, o):
        return div(self, o)

    def __rtruediv__(self, o):
        return div(o, self)

    def __floordiv__(self, o):
        return floordiv(self, o)

    def __rfloordiv__(self, o):
        return floordiv(o, self)

    def __mod__(self, o):
        return mod(self, o)

    def __rmod__(self, o):
        return mod(o, self)

    def __pow__(self, o):
        return power(self, o)

    def __rpow__(self, o):
        return power(o, self)

    def __neg__(self):
        return neg(self)

    def __pos__(self):
        return self

    def __abs__(self):
        return absv(self)

    # comparisons
    def __lt__(self, o):
        return cmp("<", self, o)

    def __le__(self, o):
        return cmp("<=", self, o)

    def __gt__(self, o):
        return cmp(">", self, o)

    def __ge__(self, o):
        return cmp(">=", self, o)

    def __eq__(self, o):
        return cmp("==", self, o)

    def __ne__(self, o):
        return cmp("!=", self, o)

    # boolean / bitwise (numpy style on bools)
    def __and__(self, o):
        return and_(self, o)

    def __rand__(self, o):
        return and_(o, self)

    def __or__(self, o):
        return or_(self, o)

    def __ror__(self, o):
        return or_(o, self)

    def __invert__(self):
        return not_(self)

    @property
    def real(self):
        return self

    @property
    def imag(self):
        return 0

    def conjugate(self):
        return self


class Cx:
    """complex number as a pair of (concrete or symbolic) reals"""
    __slots__ = ("re", "im")
    __array_priority__ = 1000

    def __init__(self, re, im):
        self.re = re
        self.im = im

    def __repr__(self):
        return f"Cx({self.re}, {self.im})"

    @property
    def real(self):
        return self.re

    @property
    def imag(self):
        return self.im

    def conjugate(self):
        return Cx(self.re, neg(self.im))

    def __add__(self, o):
        return add(self, o)

    def __radd__(self, o):
        return add(o, self)

    def __sub__(self, o):
        return sub(self, o)

    def __rsub__(self, o):
        return sub(o, self)

    def __mul__(self, o):
        return mul(self, o)

    def __rmul__(self, o):
        return mul(o, self)

    def __truediv__(self, o):
        return div(self, o)

    def __rtruediv__(self, o):
        return div(o, self)

    def __neg__(self):
        return Cx(neg(self.re), neg(self.im))

    def __pos__(self):
        return self

    def __pow__(self, o):
        return power(self, o)

    def __abs__(self):
        return sqrt(add(mul(self.re, self.re), mul(self.im, self.im)))

    def __eq__(self, o):
        o = as_cx(o)
        return and_(cmp("==", self.re, o.re), cmp("==", self.im, o.im))

    def __ne__(self, o):
        return not_(self.__eq__(o))

    def __hash__(self):
        return hash((str(self.re), str(self.im)))

    def __bool__(self):
        raise EngineError("complex used as bool")


def as_cx(v):
    if isinstance(v, Cx):
        return v
    if isinstance(v, complex):
        return Cx(to_frac(v.real), to_frac(v.imag))
    return Cx(v, 0)


def norm(v):
    """normalise python float/complex to engine scalars"""
    if isinstance(v, float):
        return to_frac(v)
    if isinstance(v, complex):
        return Cx(to_frac(v.real), to_frac(v.imag))
    return v


def is_scalar(v):
    return isinstance(v, (int, bool, Fraction, float, complex, SV, Cx))


def is_symbolic(v):
    if isinstance(v, SV):
        return True
    if isinstance(v, Cx):
        return isinstance(v.re, SV) or isinstance(v.im, SV)
    return False


# ----------------------------------------------------------------------------------------------
# arithmetic


def _num(v):
    """bool -> int for arithmetic on concrete values"""
    if isinstance(v, bool):
        return int(v)
    if isinstance(v, float):
        return to_frac(v)
    return v


def _fr(v):
    if isinstance(v, Fraction) and v.denominator == 1:
        return Fraction(v)  # stay a 'float'
    return v


def add(a, b):
    a, b = norm(a), norm(b)
    if isinstance(a, Cx) or isinstance(b, Cx):
        a, b = as_cx(a), as_cx(b)
        return Cx(add(a.re, b.re), add(a.im, b.im))
    if is_conc(a) and is_conc(b):
        return _num(a) + _num(b)
    if is_conc(a) and _num(a) == 0 and not isinstance(a, Fraction):
        return b if not (isinstance(b, SV) and b.is_bool) else wrap(znum(b))
    if is_conc(b) and _num(b) == 0 and not isinstance(b, Fraction):
        return a if not (isinstance(a, SV) and a.is_bool) else wrap(znum(a))
    if is_conc(a) and _num(a) == 0:
        return wrap(zr(b))
    if is_conc(b) and _num(b) == 0:
        return wrap(zr(a))
    return wrap(znum(a) + znum(b))


def neg(a):
    a = norm(a)
    if isinstance(a, Cx):
        return Cx(neg(a.re), neg(a.im))
    if is_conc(a):
        return -_num(a)
    return wrap(-znum(a))


def sub(a, b):
    a, b = norm(a), norm(b)
    if isinstance(a, Cx) or isinstance(b, Cx):
        a, b = as_cx(a), as_cx(b)
        return Cx(sub(a.re, b.re), sub(a.im, b.im))
    if is_conc(a) and is_conc(b):
        return _num(a) - _num(b)
    if is_conc(b) and _num(b) == 0:
        return add(a, b)
    return wrap(znum(a) - znum(b))


def mul(a, b):
    a, b = norm(a), norm(b)
    if isinstance(a, Cx) or isinstance(b, Cx):
        if not isinstance(a, Cx):
            return Cx(mul(a, b.re), mul(a, b.im))
        if not isinstance(b, Cx):
            return Cx(mul(a.re, b), mul(a.im, b))
        return Cx(sub(mul(a.re, b.re), mul(a.im, b.im)), add(mul(a.re, b.im), mul(a.im, b.re)))
    if is_conc(a) and is_conc(b):
        return _num(a) * _num(b)
    for x, y in ((a, b), (b, a)):
        if is_conc(x):
            if _num(x) == 0:
                return 0 if not isinstance(x, Fraction) and not (isinstance(y, SV) and y.is_real) else Fraction(0)
            if _num(x) == 1:
                if isinstance(x, Fraction):
                    return wrap(zr(y))
                return wrap(znum(y))
    return wrap(znum(a) * znum(b))


class DivisionObligation:
    """hook: the interpreter installs a callback receiving every symbolic divisor"""
    callback = None


def _note_div(b):
    cb = DivisionObligation.callback
    if cb is not None:
        cb(b)


def div(a, b):
    a, b = norm(a), norm(b)
    if isinstance(b, Cx):
        den = add(mul(b.re, b.re), mul(b.im, b.im))
        num = mul(as_cx(a), b.conjugate())
        return Cx(div(num.re, den), div(num.im, den))
    if isinstance(a, Cx):
        return Cx(div(a.re, b), div(a.im, b))
    if is_conc(b):
        if _num(b) == 0:
            raise ZeroDivisionError("division by concrete zero")
        if is_conc(a):
            return Fraction(_num(a)) / Fraction(_num(b))
        return wrap(zr(a) / z3.RealVal(str(Fraction(_num(b)))))
    _note_div(b)
    return wrap(zr(a) / zr(b))


def floordiv(a, b):
    a, b = norm(a), norm(b)
    if is_conc(a) and is_conc(b):
        q = _num(a) // _num(b)
        # python: the floor quotient of floats is a float (Fraction // Fraction is an int)
        return Fraction(q) if isinstance(a, Fraction) or isinstance(b, Fraction) else q
    ta, tb = znum(a), znum(b)
    if z3.is_int(ta) and z3.is_int(tb):
        if is_conc(b) and _num(b) > 0:
            return wrap(ta / tb)  # z3 int div: floor for positive divisor
        raise EngineError("integer floor division by a symbolic or non-positive divisor")
    if not is_conc(b):
        _note_div(b)
    return wrap(z3.ToReal(z3.ToInt(zr(a) / zr(b))))


def mod(a, b):
    a, b = norm(a), norm(b)
    if is_conc(a) and is_conc(b):
        return _num(a) % _num(b)
    ta, tb = znum(a), znum(b)
    if z3.is_int(ta) and z3.is_int(tb):
        if is_conc(b) and _num(b) > 0:
            return wrap(ta % tb)
        raise EngineError("mod with non-positive/symbolic divisor")
    raise EngineError("real mod unsupported")


def power(a, e):
    a, e = norm(a), norm(e)
    if isinstance(e, Fraction) and e.denominator == 1:
        # float-typed integer exponent (x ** 2.0)
        e_int = int(e)
        r = power(a, e_int)
        return r if not is_conc(r) else Fraction(r)
    if isinstance(e, bool):
        e = int(e)
    if isinstance(e, int):
        if e >= 0:
            if is_conc(a) and not isinstance(a, Cx):
                return _num(a) ** e
            r = 1
            for _ in range(e):
                r = mul(r, a)
            return r
        return div(1, power(a, -e))
    if isinstance(a, Cx):
        raise EngineError("complex ** non-integer")
    if isinstance(e, Fraction):
        if e == Fraction(1, 2):
            return sqrt(a)
        if e == Fraction(-1, 2):
            return div(1, sqrt(a))
        if e.denominator == 2:
            # x**(k/2) = sqrt(x)**k
            return power(sqrt(a), e.numerator)
        return POW(a, e)
    return POW(a, e)


def absv(a):
    a = norm(a)
    if isinstance(a, Cx):
        return abs(a)
    if is_conc(a):
        return abs(_num(a))
    t = znum(a)
    return wrap(z3.If(t >= 0, t, -t))


def cmp(op, a, b):
    a, b = norm(a), norm(b)
    if isinstance(a, Cx) or isinstance(b, Cx):
        a, b = as_cx(a), as_cx(b)
        if op == "==":
            return and_(cmp("==", a.re, b.re), cmp("==", a.im, b.im))
        if op == "!=":
            return not_(cmp("==", a, b))
        raise EngineError("ordering of complex numbers")
    if is_conc(a) and is_conc(b):
        a, b = _num(a), _num(b)
        return {"<": a < b, "<=": a <= b, ">": a > b, ">=": a >= b, "==": a == b, "!=": a != b}[op]
    ta, tb = z(a), z(b)
    if z3.is_bool(ta) and z3.is_bool(tb):
        if op == "==":
            return wrap(ta == tb)
        if op == "!=":
            return wrap(ta != tb)
    ta, tb = znum(a), znum(b)
    if op == "<":
        return wrap(ta < tb)
    if op == "<=":
        return wrap(ta <= tb)
    if op == ">":
        return wrap(ta > tb)
    if op == ">=":
        return wrap(ta >= tb)
    if op == "==":
        return wrap(ta == tb)
    if op == "!=":
        return wrap(ta != tb)
    raise EngineError(op)


def and_(*vs):
    out = []
    for v in vs:
        if isinstance(v, SV):
            out.append(zb(v))
        elif not v:
            return False
    if not out:
        return True
    return wrap(z3.And(*out)) if len(out) > 1 else wrap(out[0])


def or_(*vs):
    out = []
    for v in vs:
        if isinstance(v, SV):
            out.append(zb(v))
        elif v:
            return True
    if not out:
        return False
    return wrap(z3.Or(*out)) if len(out) > 1 else wrap(out[0])


def not_(v):
    if isinstance(v, SV):
        return wrap(z3.Not(zb(v)))
    return not v


def implies(a, b):
    return or_(not_(a), b)


def ite(c, a, b):
    """if-then-else on values; a, b may be thunks"""
    if not isinstance(c, SV):
        r = a if c else b
        return r() if callable(r) else r
    if callable(a):
        a = a()
    if callable(b):
        b = b()
    a, b = norm(a), norm(b)
    if isinstance(a, Cx) or isinstance(b, Cx):
        a, b = as_cx(a), as_cx(b)
        return Cx(ite(c, a.re, b.re), ite(c, a.im, b.im))
    ta, tb = z(a), z(b)
    if z3.is_bool(ta) != z3.is_bool(tb):
        ta, tb = znum(a), znum(b)
    if ta.sort() != tb.sort():
        ta, tb = zr(a), zr(b)
    if ta.eq(tb):
        return wrap(ta)
    return wrap(z3.If(zb(c), ta, tb))


def minv(a, b):
    if is_conc(a) and is_conc(b):
        return min(_num(a), _num(b))
    return ite(cmp("<=", a, b), a, b)


def maxv(a, b):
    if is_conc(a) and is_conc(b):
        return max(_num(a), _num(b))
    return ite(cmp(">=", a, b), a, b)


def to_real(v):
    v = norm(v)
    if isinstance(v, Cx):
        return v
    if is_conc(v):
        return Fraction(_num(v))
    return wrap(zr(v))


# ----------------------------------------------------------------------------------------------
# rounding


def floor(v):
    v = norm(v)
    if is_conc(v):
        import math
        return math.floor(_num(v))
    t = znum(v)
    if z3.is_int(t):
        return v
    return wrap(z3.ToInt(t))


def trunc(v):
    """python int(x): truncation toward zero"""
    v = norm(v)
    if is_conc(v):
        return int(_num(v))
    t = znum(v)
    if z3.is_int(t):
        return wrap(t)
    return wrap(z3.If(t >= 0, z3.ToInt(t), -z3.ToInt(-t)))


def rint(v):
    """round half to even (numpy rint, python round); result keeps 'float' type as Real"""
    v = norm(v)
    if is_conc(v):
        f = Fraction(_num(v))
        import math
        fl = math.floor(f)
        d = f - fl
        if d < Fraction(1, 2):
            r = fl
        elif d > Fraction(1, 2):
            r = fl + 1
        else:
            r = fl if fl % 2 == 0 else fl + 1
        return Fraction(r)
    return SV(z3.ToReal(F_RINT(_simp(zr(v)))))


def rint_int(v):
    v = norm(v)
    if is_conc(v):
        return int(rint(v))
    return SV(F_RINT(_simp(zr(v))))


# ----------------------------------------------------------------------------------------------
# uninterpreted transcendental functions (axioms are instantiated per application, see axioms.py)

R = z3.RealSort()
F_SQRT = z3.Function("sqrt", R, R)
F_EXP = z3.Function("exp", R, R)
F_LOG = z3.Function("log", R, R)
F_COS = z3.Function("cos", R, R)
F_SIN = z3.Function("sin", R, R)
F_ARCCOS = z3.Function("arccos", R, R)
F_ATAN2 = z3.Function("atan2", R, R, R)
F_POW = z3.Function("POW", R, R, R)
F_RINT = z3.Function("rintz", R, z3.IntSort())   # round half to even, integer valued (axioms.py)
F_ROUND6 = z3.Function("round6", R, R)
F_ROUND8 = z3.Function("round8", R, R)
PI = SV(z3.Real("pi"))


def _isqrt_frac(f):
    import math
    if f < 0:
        return None
    n, d = f.numerator, f.denominator
    rn, rd = math.isqrt(n), math.isqrt(d)
    if rn * rn == n and rd * rd == d:
        return Fraction(rn, rd)
    return None


def _split_coeff(t):
    """term -> (positive-or-any rational coefficient, rest term | None) with t == q * rest"""
    if z3.is_rational_value(t):
        return Fraction(t.numerator_as_long(), t.denominator_as_long()), None
    if z3.is_int_value(t):
        return Fraction(t.as_long()), None
    if z3.is_app(t):
        k = t.decl().kind()
        if k == z3.Z3_OP_DIV:
            qa, ra = _split_coeff(t.arg(0))
            qb, rb = _split_coeff(t.arg(1))
            if qb == 0:
                return Fraction(1), t
            q = qa / qb
            if ra is None and rb is None:
                return q, None
            if rb is None:
                return q, ra
            if ra is None:
                return q, z3.RealVal(1) / rb
            return q, ra / rb
        if k == z3.Z3_OP_MUL:
            q = Fraction(1)
            rest = None
            for c in t.children():
                qc, rc = _split_coeff(c)
                q *= qc
                if rc is not None:
                    rest = rc if rest is None else rest * rc
            return q, rest
        if k == z3.Z3_OP_TO_REAL:
            qa, ra = _split_coeff(t.arg(0))
            if ra is None:
                return qa, None
    return Fraction(1), t


def _sqrt_rational(q):
    """sqrt of a positive rational = (rational) * sqrt(squarefree integer)  ->  (Fraction coef, int m)"""
    n, d = q.numerator, q.denominator
    x = n * d
    k = 1
    p = 2
    m = 1
    while p * p <= x:
        while x % (p * p) == 0:
            x //= p * p
            k *= p
        if x % p == 0:
            x //= p
            m *= p
        p += 1 if p == 2 else 2
    m *= x
    return Fraction(k, d), m


def sqrt(v):
    """sqrt with the normalisation sqrt(q * t) = c * sqrt(m) * sqrt(t) for a positive rational q = c^2 m
    (m square-free integer); sound for t >= 0 (for t < 0 numpy yields NaN: A1)"""
    v = norm(v)
    if isinstance(v, Cx):
        raise EngineError("complex sqrt")
    if is_conc(v):
        f = Fraction(_num(v))
        if f < 0:
            raise EngineError("sqrt of a negative constant")
        if f == 0:
            return Fraction(0)
        c, m = _sqrt_rational(f)
        if m == 1:
            return c
        return mul(c, SV(F_SQRT(z3.RealVal(m))))
    t = _simp(zr(v))
    q, rest = _split_coeff(t)
    if rest is None:
        return sqrt(q)
    if q <= 0 or q == 1:
        return SV(F_SQRT(t))
    c, m = _sqrt_rational(q)
    r = SV(F_SQRT(_simp(rest)))
    if m != 1:
        r = mul(SV(F_SQRT(z3.RealVal(m))), r)
    return mul(c, r)


def exp(v):
    v = norm(v)
    if isinstance(v, Cx):
        m = exp(v.re) if not (is_conc(v.re) and _num(v.re) == 0) else 1
        return Cx(mul(m, cos(v.im)), mul(m, sin(v.im)))
    if is_conc(v) and _num(v) == 0:
        return Fraction(1)
    return SV(F_EXP(_simp(zr(v))))


def log(v):
    v = norm(v)
    if is_conc(v) and _num(v) == 1:
        return Fraction(0)
    return SV(F_LOG(_simp(zr(v))))


def cos(v):
    """cos with the parity normalisation cos(-x) = cos(x) (trusted identity)"""
    v = norm(v)
    if is_conc(v) and _num(v) == 0:
        return Fraction(1)
    t = _simp(zr(v))
    q, rest = _split_coeff(t)
    if rest is not None and q < 0:
        t = _simp(-t)
    return SV(F_COS(t))


def sin(v):
    """sin with the parity normalisation sin(-x) = -sin(x) (trusted identity)"""
    v = norm(v)
    if is_conc(v) and _num(v) == 0:
        return Fraction(0)
    t = _simp(zr(v))
    q, rest = _split_coeff(t)
    if rest is not None and q < 0:
        return neg(SV(F_SIN(_simp(-t))))
    return SV(F_SIN(t))


def arccos(v):
    return SV(F_ARCCOS(_simp(zr(norm(v)))))


def atan2(y, x):
    return SV(F_ATAN2(_simp(zr(norm(y))), _simp(zr(norm(x)))))


def POW(a, e):
    return SV(F_POW(_simp(zr(norm(a))), _simp(zr(norm(e)))))


def round_dec(v, k):
    v = norm(v)
    if isinstance(v, Cx):
        return Cx(round_dec(v.re, k), round_dec(v.im, k))
    f = {6: F_ROUND6, 8: F_ROUND8}.get(k)
    if f is None:
        raise EngineError(f"round to {k} decimals")
    if is_conc(v) and not isinstance(v, bool):
        # exact decimal rounding (half to even) of a concrete rational: the value the formatting prints (A1: floats are reals)
        q = Fraction(v) * 10 ** k
        n = q.numerator // q.denominator
        r = q - n
        if r > Fraction(1, 2) or (r == Fraction(1, 2) and n % 2 == 1):
            n += 1
        return Fraction(n, 10 ** k)
    return SV(f(zr(v)))


# ----------------------------------------------------------------------------------------------
# symbols


def real(name):
    return SV(z3.Real(name))


def integer(name):
    return SV(z3.Int(name))


def boolean(name):
    return SV(z3.Bool(name))


def fresh_real(prefix="r"):
    return real(fresh_name(prefix))


def fresh_int(prefix="i"):
    return integer(fresh_name(prefix))


def fresh_bool(prefix="b"):
    return boolean(fresh_name(prefix))


# ----------------------------------------------------------------------------------------------
# complex helpers with the same names as pyvc.conc (specs are written against either backend)


def conj(v):
    v = norm(v)
    return v.conjugate() if isinstance(v, Cx) else v


def re(v):
    v = norm(v)
    return v.re if isinstance(v, Cx) else v


def im(v):
    v = norm(v)
    return v.im if isinstance(v, Cx) else 0


def cx(re_, im_):
    return Cx(re_, im_)


def close(a, b, rel=None, abs_=None):
    """symbolic counterpart of conc.close: exact equality"""
    return cmp("==", a, b)


# ----------------------------------------------------------------------------------------------
# generalisation (sound proof step: a goal proved for a fresh constant holds for every term)


def generalize(goal, terms, prefix="gen"):
    """replace each of `terms` (SV / Cx / z3 terms) in `goal` by a fresh constant of the same sort.
    Proving the generalised goal proves the original one (universal generalisation); the fresh constants
    carry no assumptions.  Returns (goal', [fresh SVs])."""
    g = zb(goal) if isinstance(goal, SV) else goal
    pairs, fresh = [], []
    for t in terms:
        t = norm(t)
        for part in ((t.re, t.im) if isinstance(t, Cx) else (t,)):
            if not isinstance(part, SV):
                continue
            c = z3.Const(fresh_name(prefix), part.t.sort())
            pairs.append((part.t, c))
            fresh.append(SV(c))
    if pairs:
        g = z3.substitute(g, *pairs)
    return g, fresh
