"""pyvc driver:  python3-vt -m pyvc.main <PROPERTY> [--tier quick|thorough] [--replay FILE]

exit 0 held / 1 violation (VIOLATION line) / 2 undecided / 3 checker fault.
"""
from __future__ import annotations

import argparse
import importlib
import json
import multiprocessing as mp
import os
import subprocess
import sys
import time

VERIF = os.path.dirname(os.path.dirname(os.path.abspath(__file__)))
sys.path.insert(0, VERIF)
REPLAY_PY = os.environ.get("PYVC_REPLAY_PYTHON", "/venv/bin/python")

TRUSTED_COMMON = [
    "A1: Python/numpy floats are treated as mathematical reals (rounding, overflow, NaN/inf not modelled)",
    "A2: numpy machine integers are treated as mathematical integers (no wrap-around)",
    "Python-subset semantics of pyvc.interp (DESIGN I.3): the symbolic executor itself is unverified",
    "extraction drops: docstrings, annotations, calls on the module-level `logger` (arguments not evaluated), import statements, `del`",
    "SMT solvers z3 5.1 / z3 4.8.12 / cvc5 1.0.3 are trusted",
    "axiom instances of pyvc.axioms (sqrt, exp, log, cos, sin, arccos, atan2, POW, pi bounds, decimal rounding, Σ unfold/extensionality)",
    "termination of library calls",
]


def _task(args):
    prop, uidx, case, tier, repo = args
    os.environ["PYVC_REPO"] = repo
    from pyvc import interp, vc
    interp.REPO = repo
    mod = importlib.import_module(f"contracts.{prop}")
    unit = mod.UNITS[uidx]
    try:
        return vc.run_unit(unit, case, tier)
    except BaseException as e:  # pragma: no cover
        import traceback
        return {"unit": f"{unit.name}[{case}]", "module": unit.module, "qualname": unit.qualname, "case": case,
                "obligations": [], "error": f"engine-fault: {type(e).__name__}: {e}", "trace": traceback.format_exc()[-2000:],
                "paths": 0, "covered_paths": 0, "wall_s": 0}


def load_known(prop):
    p = os.path.join(VERIF, "known_findings.json")
    if not os.path.exists(p):
        return []
    with open(p) as f:
        data = json.load(f)
    return [e for e in data.get("entries", []) if e.get("property") == prop]


def load_ledger(prop):
    p = os.path.join(VERIF, "baseline", "ledger", f"{prop}.json")
    if not os.path.exists(p):
        return {}
    with open(p) as f:
        return json.load(f)


def run_replay(path):
    try:
        r = subprocess.run([REPLAY_PY, os.path.join(VERIF, "replay.py"), path], capture_output=True, text=True, timeout=600)
    except subprocess.TimeoutExpired:
        return {"ran": False, "error": "replay timeout"}
    last = None
    for line in r.stdout.splitlines():
        if line.startswith("REPLAY-RESULT "):
            last = json.loads(line[len("REPLAY-RESULT "):])
    if last is None:
        return {"ran": False, "error": (r.stderr or r.stdout)[-800:]}
    return last


def main(argv=None):
    ap = argparse.ArgumentParser()
    ap.add_argument("prop")
    ap.add_argument("--tier", default=os.environ.get("VERIF_TIER", "quick"))
    ap.add_argument("--replay", default=None)
    ap.add_argument("--jobs", type=int, default=int(os.environ.get("PYVC_JOBS", "16")))
    ap.add_argument("--write-ledger", action="store_true")
    ap.add_argument("--only", default=None, help="substring filter on unit names (debugging; evidence is not written)")
    a = ap.parse_args(argv)
    prop = a.prop
    seed = int(os.environ.get("VERIF_SEED", "0") or 0)
    repo = os.environ.get("PYVC_REPO", "/repo")
    if a.replay:
        r = run_replay(a.replay)
        print(json.dumps(r, indent=1))
        if r.get("failed"):
            print(f"VIOLATION property={prop} replay={a.replay}")
            return 1
        return 0 if r.get("ran") else 3
    t0 = time.time()
    os.environ["PYVC_REPO"] = repo
    os.environ["PYVC_TIER"] = a.tier        # visible to contract modules (and, through the environment, to the spawned workers)
    mod = importlib.import_module(f"contracts.{prop}")
    tasks = []
    for ui, u in enumerate(mod.UNITS):
        cases = list(u.cases())
        if a.tier == "thorough" and hasattr(u, "thorough_cases"):
            # deeper case splits of the same units (more species, more degrees, every parameter combination): thorough tier only
            cases += [c for c in u.thorough_cases() if c not in cases]
        for c in cases:
            if a.only and a.only not in f"{u.name}[{c}]":
                continue
            tasks.append((prop, ui, c, a.tier, repo))
    ctx = mp.get_context("spawn")      # fresh interpreter per task: term ids (hence query order and solver behaviour) do not depend on the parent
    if a.jobs > 1 and len(tasks) > 1:
        # one fresh fork of this (unit-free) process per task: a unit's queries never depend on which units ran before it
        # in the same worker (Σ-symbol registry, term caches, fresh-name counters)
        with ctx.Pool(min(a.jobs, len(tasks)), maxtasksperchild=1) as pool:
            results = pool.map(_task, tasks, chunksize=1)
    else:
        results = [_task(t) for t in tasks]
    extra = {}
    if hasattr(mod, "extra_checks"):
        extra = mod.extra_checks(a.tier, seed, repo) or {}
    # ---- classify
    known = load_known(prop)
    ledger = load_ledger(prop)
    obligations = []
    faults, undecided, violations, known_hits = [], [], [], []
    for r in results:
        if r.get("error"):
            if r["error"].startswith("engine-fault"):
                faults.append(r)
            elif r.get("qualname") and r["error"].startswith("unsupported"):
                # engine limit on this (possibly changed) source: not a verdict by proof; the unit's replay harness still
                # searches the real code for a failing input (DESIGN I.11: seeded concrete search) -> VIOLATION if one is found
                obligations.append({"name": f"{r['unit']}:within-engine-subset", "status": "UNDECIDED", "ms": 0, "backends": [], "queries": 0,
                                    "unit": r["unit"], "failed": [{"status": "UNDECIDED", "reason": r["error"], "path": ""}]})
            else:
                undecided.append({"unit": r["unit"], "reason": r["error"]})
        for o in r["obligations"]:
            o = dict(o)
            o["unit"] = r["unit"]
            obligations.append(o)
    for o in extra.get("obligations", []):
        obligations.append(o)
    import shutil
    RROOT = os.environ.get("PYVC_REPLAY_DIR")      # scratch runs (seeded changes, mutants) keep their replays out of /verif/replays
    rrel = (lambda *parts: os.path.join(RROOT, *parts[1:])) if RROOT else (lambda *parts: os.path.join(*parts))
    shutil.rmtree(os.path.join(VERIF, rrel("replays", prop)) if not RROOT else rrel("replays", prop), ignore_errors=True)
    os.makedirs(os.path.join(VERIF, rrel("replays", prop)) if not RROOT else rrel("replays", prop), exist_ok=True)
    unit_by_name = {r["unit"]: r for r in results}
    # a unit the engine can no longer analyse (unsupported construct after a change): no verdict from the proof, but the seeded
    # concrete search of its replay harness still runs against the real code — a failing input is a VIOLATION, silence is UNDECIDED
    for r in results:
        if r.get("error") and not r["error"].startswith("engine-fault") and r.get("qualname"):
            obligations.append({"name": f"{r['unit']}:analysable", "status": "UNDECIDED", "ms": 0, "backends": ["engine"], "queries": 0,
                                "unit": r["unit"], "note": r["error"][:200], "failed": [{"reason": r["error"][:200]}]})
    failing = [o for o in obligations if o["status"] != "PROVED"]
    failing.sort(key=lambda o: 0 if o["status"] == "REFUTED" else 1)
    # within each class (REFUTED first), one obligation per unit before the second of any unit: the replay cap below is then spent on
    # distinct units / functions instead of on many obligations of the first unit (a unit's replay evaluates all its clauses anyway)
    _nth = {}
    for o in failing:
        _key = (o["status"] == "REFUTED", o.get("unit"))
        _nth[_key] = _nth.get(_key, 0) + 1
        o["_nth_of_unit"] = _nth[_key]
    failing.sort(key=lambda o: (0 if o["status"] == "REFUTED" else 1, o.pop("_nth_of_unit")))
    import re as _re
    from concurrent.futures import ThreadPoolExecutor
    REPLAY_CAP = int(os.environ.get("PYVC_REPLAY_CAP", "48"))
    jobs = []
    not_replayed = []
    for k, o in enumerate(failing):
        safe = _re.sub(r"[^A-Za-z0-9._=-]+", "_", o["name"]).strip("_")
        rpath = rrel("replays", prop, safe + ".json")
        ur = unit_by_name.get(o.get("unit"), {})
        failed = o.get("failed", [{}])
        rec = {"property": prop, "obligation": o["name"], "unit": o.get("unit"), "module": ur.get("module"),
               "qualname": ur.get("qualname"), "case": ur.get("case"), "status": o["status"],
               "solver_output": failed, "model": (failed[0].get("model") if failed else None), "seed": seed,
               "ledger_status": ledger.get(o["name"]), "repo": repo}
        with open(os.path.join(VERIF, rpath), "w") as f:
            json.dump(rec, f, indent=1, default=str)
        can = bool(ur.get("qualname") or o.get("replayable"))
        # obligations of the same unit case that carry no counter-model are replayed by ONE run (the replay of a unit case evaluates
        # every clause of its contract on the real code): only distinct replays count against the cap
        rkey = (o.get("unit"), json.dumps(rec["model"], sort_keys=True, default=str) if rec["model"] else None) if ur.get("qualname") else ("#", k)
        jobs.append((o, rpath, rec, can, rkey))
    distinct = []
    for j in jobs:
        if j[3] and j[4] not in distinct:
            distinct.append(j[4])
    run_keys = set(distinct[:REPLAY_CAP])
    with ThreadPoolExecutor(max_workers=min(12, max(1, len(jobs)))) as ex:
        started = {}
        futs = []
        for j in jobs:
            if j[3] and j[4] in run_keys:
                if j[4] not in started:
                    started[j[4]] = ex.submit(run_replay, os.path.join(VERIF, j[1]))
                futs.append((j, started[j[4]]))
            else:
                futs.append((j, None))
        for (o, rpath, rec, can, rkey), fut in futs:
            if fut is not None:
                rr = fut.result()
            elif can:
                rr = {"ran": False, "error": f"replay not run: more than {REPLAY_CAP} distinct replays in this run (set PYVC_REPLAY_CAP)"}
            else:
                rr = {"ran": False, "error": "no replay harness"}
            rec["replay_result"] = rr
            with open(os.path.join(VERIF, rpath), "w") as f:
                json.dump(rec, f, indent=1, default=str)
            o["replay"] = rpath
            o["replay_failed_on_real_code"] = bool(rr.get("failed"))
            kf = [k for k in known if k.get("kind") == "finding" and k.get("obligation") == o["name"]]
            if kf:
                # a listed finding: same obligation; the witness class is compared when the replay gives one
                known_hits.append((o, kf[0]))
                continue
            if rr.get("failed"):
                violations.append((o, rpath, ""))
            elif fut is None and can:
                not_replayed.append(o)
            elif o["status"] == "REFUTED":
                violations.append((o, rpath, " no-failing-input-found"))
            else:
                if ledger.get(o["name"]) == "PROVED" and rr.get("ran") and rr.get("searched"):
                    undecided.append({"unit": o.get("unit"), "reason": f"obligation {o['name']} not proved (solver: unknown), no failing input in search"})
                else:
                    why = (o.get("failed") or [{}])[0].get("reason", "") if o["name"].endswith(":within-engine-subset") else ""
                    undecided.append({"unit": o.get("unit"), "reason": f"obligation {o['name']} {o['status']}" + (f" ({why}); no failing input in the replay search" if why else "")})
    # ---- conformance replays (validation layer, pyvc/conform.py): the concrete contracts on the real code for seeded inputs
    conformance = None
    if not os.environ.get("PYVC_NO_CONFORMANCE"):
        from . import conform
        cdir = os.path.join(VERIF, rrel("replays", prop)) if not RROOT else rrel("replays", prop)
        try:
            conformance, cfailed = conform.run(prop, mod, a.tier, seed, repo, cdir, only=a.only)
        except Exception as e:  # pragma: no cover  (validation layer: never turns into a verdict by itself)
            conformance, cfailed = {"error": f"{type(e).__name__}: {e}"}, []
        already = {o["name"] for o, _, _ in violations}
        for lbl, cpath, rr in cfailed:
            o = {"name": f"{lbl}:conformance", "status": "REFUTED", "unit": lbl, "ms": 0, "backends": ["replay"], "queries": 0,
                 "failed": [{"status": "REFUTED", "reason": "the contract evaluated on the real code fails for a concrete input: " + str(rr.get("detail", ""))[:300]}]}
            rel = os.path.relpath(cpath, VERIF) if not RROOT else cpath
            kf = [k for k in known if k.get("kind") == "finding" and k.get("obligation") == o["name"]]
            if kf:
                known_hits.append((o, kf[0]))
            elif o["name"] not in already:
                violations.append((o, rel, ""))
    # obligations that the ledger knows but that were not generated
    names = {o["name"] for o in obligations}
    missing = [n for n in ledger if n not in names] if not a.only else []
    for n in missing:
        undecided.append({"unit": n, "reason": "obligation of the committed ledger was not generated (contract no longer binds?)"})
    n_ob = len(obligations)
    n_proved = sum(1 for o in obligations if o["status"] == "PROVED")
    wall = time.time() - t0
    if a.write_ledger:
        os.makedirs(os.path.join(VERIF, "baseline", "ledger"), exist_ok=True)
        with open(os.path.join(VERIF, "baseline", "ledger", f"{prop}.json"), "w") as f:
            json.dump({o["name"]: o["status"] for o in obligations}, f, indent=0, sort_keys=True)
    # ---- evidence
    per_backend = {}
    solver_ms = 0.0
    for o in obligations:
        solver_ms += o.get("ms", 0)
        for b in o.get("backends", []):
            per_backend[b] = per_backend.get(b, 0) + 1
    funcs = []
    seen = set()
    for r in results:
        k = (r.get("module"), r.get("qualname"))
        if k in seen or not r.get("qualname"):
            continue
        seen.add(k)
        funcs.append({"function": f"{r.get('module')}.{r.get('qualname')}", "file": r.get("file"), "line": r.get("line"),
                      "source_sha256_16": r.get("sha")})
    lib_used = sorted({x for r in results for x in r.get("lib_used", [])})
    summaries_used = sorted({x for r in results for x in r.get("summaries_used", [])})
    inlined = sorted({x for r in results for x in r.get("inlined", [])})
    trusted = list(TRUSTED_COMMON) + list(getattr(mod, "TRUSTED", []))
    if lib_used:
        trusted.append("assumed library contracts (pyvc/lib*.py): " + ", ".join(lib_used))
        try:        # what the differential validation of these contracts (tools/libcheck.py, not part of this check) last reported
            with open(os.path.join(VERIF, "baseline", "libcheck.json")) as _f:
                _lc = json.load(_f)
            _s = _lc.get("summary", {})
            trusted.append("the assumed library contracts are VALIDATED, not proved: tools/libcheck.py runs each of them in the engine's concrete mode and in the "
                           f"real libraries ({', '.join(f'{k} {v}' for k, v in sorted((_lc.get('versions') or {}).items()))}) on {_s.get('snippets')} snippets over "
                           f"{_s.get('functions')} library names ({_s.get('runs')} runs: {_s.get('agree')} agree, {_s.get('DISAGREE')} disagree, {_s.get('limitation')} declared "
                           f"limitations, {_s.get('not-modelled')} not modelled; report baseline/libcheck.json, notes design_notes/LIBCHECK.md)")
        except Exception:  # noqa  (the report is optional)
            pass
    if summaries_used:
        trusted.append("callee contracts used at call sites (each proved by its own unit where listed under functions_under_contract): " + ", ".join(summaries_used))
    if inlined:
        trusted.append("helpers verified by inlining their real body at the call site (no separate contract): " + ", ".join(inlined))
    samples = []
    for o in obligations[:3]:
        samples.append({"obligation": o["name"], "status": o["status"], "queries": o.get("queries"), "backends": o.get("backends")})
    if extra.get("samples"):
        samples.extend(extra["samples"][:3])
    ev = {
        "property_id": prop, "tier": a.tier if a.tier in ("quick", "thorough") else "quick", "seed": seed, "level": "proof",
        "coverage": {
            "obligations": n_ob, "discharged": n_proved,
            "checker_cmd": f"./check {prop} --tier {a.tier}",
            "trusted_base": trusted,
            "samples": samples,
            "functions_under_contract": funcs,
            "per_backend": per_backend,
            "solver_time_s": round(solver_ms / 1000, 3),
            "obligation_list": [{k: o.get(k) for k in ("name", "status", "ms", "backends", "queries", "note") if o.get(k) is not None} for o in obligations],
            "units": [{"unit": r["unit"], "paths": r.get("paths"), "covered_paths": r.get("covered_paths"), "wall_s": r.get("wall_s"), "error": r.get("error")} for r in results],
            "vacuity": {"requires_satisfiable": sum(1 for o in obligations if o["name"].endswith(":requires-satisfiable") and o["status"] == "PROVED"),
                        "cover": sum(1 for o in obligations if o["name"].endswith(":cover") and o["status"] == "PROVED")},
            "undecided": undecided, "known_findings_hit": [k[1].get("id") for k in known_hits],
            "not_decided_clauses": list(getattr(mod, "NOT_DECIDED", [])),
            "bounded": extra.get("bounded", []),
            "conformance": conformance,
            "extra": {k: v for k, v in extra.items() if k not in ("obligations", "samples", "bounded")},
        },
        "assumptions": trusted,
        "wall_s": round(wall, 3),
        "violations": len(violations),
    }
    if not a.only and not os.environ.get("PYVC_NO_EVIDENCE"):
        os.makedirs(os.path.join(VERIF, "evidence"), exist_ok=True)
        with open(os.path.join(VERIF, "evidence", f"{prop}.json"), "w") as f:
            json.dump(ev, f, indent=1, default=str)
    # ---- report
    print(f"[pyvc] {prop} tier={a.tier}: {n_proved}/{n_ob} obligations proved, {len(funcs)} functions under contract, "
          f"{len(results)} units, solver {solver_ms/1000:.1f}s, wall {wall:.1f}s")
    for o, k in known_hits:
        print(f"KNOWN-FINDING: property={prop} {k.get('what', o['name'])}")
    for r in faults:
        print(f"CHECKER-FAULT unit={r['unit']} {r['error']}")
        if r.get("trace"):
            print(r["trace"])
    for u in undecided:
        print(f"UNDECIDED property={prop} unit={u['unit']} {u['reason']}")
    for o, rpath, suffix in violations:
        print(f"FAILED-OBLIGATION {o['name']} status={o['status']}")
        print(f"VIOLATION property={prop} replay={rpath}{suffix}")
    for o in not_replayed[:40]:
        print(f"FAILED-OBLIGATION {o['name']} status={o['status']} (replay not run: cap of {REPLAY_CAP} replays per run reached)")
    if not_replayed and not violations:
        undecided.append({"unit": "*", "reason": f"{len(not_replayed)} failing obligations were not replayed"})
    if n_ob == 0:
        print("CHECKER-FAULT zero obligations generated")
        return 3
    if violations:
        return 1
    if faults:
        return 3
    if undecided:
        return 2
    return 0


if __name__ == "__main__":
    sys.exit(main())
