"""Lazy symbolic numpy arrays on the engine heap.

An array value is ``Arr(sid, view)``: ``sid`` names a heap cell whose content is
``(shape, fn)`` with ``fn(index tuple) -> scalar``; ``view`` describes basic-indexing aliasing
(per base axis: fixed index, or a unit-stride range mapped to a view axis; plus new axes).  Shapes may
contain symbolic (SV int) entries; all reasoning about a symbolic axis is at a symbolic index.
Pure operations allocate fresh cells whose closures capture the *current content* of their operands
(numpy evaluates eagerly), stores replace the content of the base cell (so every alias sees them) and
are recorded as store events for frame conditions.
"""
from __future__ import annotations

import itertools
from fractions import Fraction

import z3

from . import sv
from .sigma import Sum
from .state import Content, cur
from .sv import SV, Cx, EngineError, is_conc, ite, norm

# ----------------------------------------------------------------------------------------------
# dims


def dim_conc(d):
    return isinstance(d, int) and not isinstance(d, bool)


def dim_eq_syntactic(a, b):
    if is_conc(a) and is_conc(b):
        return int(a) == int(b)
    d = z3.simplify(sv.znum(a) - sv.znum(b))
    return z3.is_int_value(d) and d.as_long() == 0


def require_dim_eq(a, b, what="shape-match"):
    if dim_eq_syntactic(a, b):
        return
    cur().require(sv.cmp("==", a, b), what)


def simp(v):
    if isinstance(v, SV):
        return sv.wrap(z3.simplify(v.t))
    return v


# ----------------------------------------------------------------------------------------------
# views


class View:
    """base axis specs + view shape.
    base: list per base axis of ('fix', k) | ('rng', start, viewaxis)
    shape: list of view dims; a view axis not referenced by any base axis is a new axis (len 1)"""
    __slots__ = ("base", "shape")

    def __init__(self, base, shape):
        self.base, self.shape = base, shape

    @staticmethod
    def identity(shape):
        return View([("rng", 0, i) for i in range(len(shape))], list(shape))

    def to_base(self, idx):
        out = []
        for spec in self.base:
            if spec[0] == "fix":
                out.append(spec[1])
            else:
                out.append(simp(sv.add(spec[1], idx[spec[2]])))
        return tuple(out)


def _memo(fn):
    cache = {}

    def g(idx):
        try:
            key = tuple(i if is_conc(i) else ("z", i.t.get_id()) for i in idx)
        except AttributeError:
            return fn(idx)
        if key in cache:
            return cache[key][1]
        v = fn(idx)
        cache[key] = (idx, v)     # the index terms are kept alive: z3 recycles the ids of collected terms
        return v
    return g


class Arr:
    __slots__ = ("sid", "view", "dtype")

    def __init__(self, sid, view, dtype):
        self.sid, self.view, self.dtype = sid, view, dtype

    # ---- shape
    @property
    def shape(self):
        if self.view is None:
            return tuple(cur().heap[self.sid].meta["shape"])
        return tuple(self.view.shape)

    @property
    def ndim(self):
        return len(self.shape)

    def __repr__(self):
        return f"Arr#{self.sid}{self.shape}:{self.dtype}"

    # ---- reading
    def reader(self):
        """pure function idx -> value bound to the content at this moment"""
        fn = cur().heap[self.sid].data
        if self.view is None:
            return fn
        v = self.view
        return lambda idx: fn(v.to_base(idx))

    def get(self, idx):
        return self.reader()(tuple(idx))

    def base_view(self):
        return self.view if self.view is not None else View.identity(cur().heap[self.sid].meta["shape"])

    def is_readonly(self):
        return cur().heap[self.sid].meta.get("readonly", False)


def new_arr(shape, fn, dtype="float", **meta):
    shape = tuple(simp(d) for d in shape)
    m = {"shape": shape}
    m.update(meta)
    sid = cur().alloc(Content("arr", _memo(fn), m))
    return Arr(sid, None, dtype)


def promote(*dts):
    order = ["bool", "int", "float", "complex"]
    best = 0
    for d in dts:
        if d in order:
            best = max(best, order.index(d))
        elif d == "object":
            return "object"
    return order[best]


def scalar_dtype(v):
    v = norm(v)
    if isinstance(v, Cx):
        return "complex"
    if isinstance(v, bool):
        return "bool"
    if isinstance(v, int):
        return "int"
    if isinstance(v, Fraction):
        return "float"
    if isinstance(v, SV):
        return "bool" if v.is_bool else ("int" if v.is_int else "float")
    return "object"


# ----------------------------------------------------------------------------------------------
# construction from python data


def from_nested(data, dtype=None):
    """np.array(list-of-lists / scalars / Arr)"""
    if isinstance(data, Arr):
        return copy(data) if dtype is None else astype(data, dtype)
    if sv.is_scalar(data):
        v = norm(data)
        return new_arr((), lambda idx: v, dtype or scalar_dtype(v))
    if isinstance(data, SeqVal):
        r = data.reader()
        # the element kind is probed at an arbitrary valid position in a scratch state: nothing the probe allocates, assumes
        # or requires (index bounds of the element function) stays behind
        from .state import use_state
        st0 = cur()
        mark = len(st0.side)
        scratch = st0.fork()
        with use_state(scratch):
            q = sv.fresh_int("sq")
            scratch.assume(sv.and_(sv.cmp(">=", q, 0), sv.cmp("<", q, data.length)))
            probe = r(q)
            eshape = tuple(probe.shape) if isinstance(probe, Arr) else None
            pdt = probe.dtype if isinstance(probe, Arr) else (scalar_dtype(probe) if sv.is_scalar(probe) else None)
        del st0.side[mark:]
        if isinstance(probe, Arr):
            # sequence of equally shaped arrays (np.array(list of arrays)): stacked along a new leading axis

            def fn(idx, r=r, eshape=eshape):
                e = r(idx[0])
                if not isinstance(e, Arr) or len(e.shape) != len(eshape):
                    raise EngineError("ragged sequence of arrays")
                for x, y in zip(e.shape, eshape):
                    require_dim_eq(x, y, "stack-shape")
                return e.get(tuple(idx[1:]))
            return new_arr((data.length,) + eshape, fn, dtype or pdt)
        if dtype is None:
            # element type of a symbolic-length python list: that of its element at an arbitrary position
            if pdt is None:
                raise EngineError("np.array of a symbolic-length list of non-scalars")
            dtype = pdt
            if dtype == "object":
                raise EngineError("np.array of a symbolic-length list of objects")
        return new_arr((data.length,), lambda idx: r(idx[0]), dtype)
    if isinstance(data, (list, tuple)):
        items = [from_nested(x) if not sv.is_scalar(x) else x for x in data]
        if all(sv.is_scalar(x) for x in items):
            vals = [norm(x) for x in items]
            dt = dtype or promote(*[scalar_dtype(x) for x in vals]) if vals else (dtype or "float")
            vals = [_cast(x, dt) for x in vals]
            return new_arr((len(vals),), lambda idx: _pick(vals, idx[0]), dt)
        subs = [x if isinstance(x, Arr) else from_nested(x) for x in items]
        shp = subs[0].shape
        for s in subs[1:]:
            if len(s.shape) != len(shp):
                raise EngineError("ragged nested array")
            for a, b in zip(s.shape, shp):
                require_dim_eq(a, b)
        readers = [s.reader() for s in subs]
        dt = dtype or promote(*[s.dtype for s in subs])
        return new_arr((len(subs),) + tuple(shp), lambda idx: _pick([r(idx[1:]) for r in readers], idx[0]) if is_conc(idx[0]) else _pick_lazy(readers, idx), dt)
    raise EngineError(f"np.array of {type(data).__name__}")


def _mentions_index(dd, q):
    import z3
    qid, seen, stack = q.t.get_id(), set(), [sv.znum(dd)]
    while stack:
        e = stack.pop()
        if e.get_id() in seen:
            continue
        seen.add(e.get_id())
        if e.get_id() == qid:
            return True
        stack.extend(e.children())
    return False


def _pick_lazy(readers, idx):
    vals = [r(idx[1:]) for r in readers]
    return _pick(vals, idx[0])


def _pick(vals, i):
    """vals[i] for concrete list and possibly symbolic i"""
    if is_conc(i):
        return vals[int(i)]
    if not vals:
        raise EngineError("index into empty list")
    r = vals[-1]
    for k in range(len(vals) - 2, -1, -1):
        r = ite(sv.cmp("==", i, k), vals[k], r)
    return r


def _cast(v, dt):
    v = norm(v)
    if dt == "float":
        return sv.to_real(v) if not isinstance(v, Cx) else v
    if dt == "complex":
        return sv.as_cx(v) if not isinstance(v, Cx) else v
    if dt == "int":
        if isinstance(v, Cx):
            raise EngineError("complex -> int")
        if isinstance(v, SV) and v.is_bool:
            return sv.wrap(sv.znum(v))
        if isinstance(v, bool):
            return int(v)
        if isinstance(v, Fraction) or (isinstance(v, SV) and v.is_real):
            return sv.trunc(v)
        return v
    if dt == "bool":
        if isinstance(v, SV) and v.is_bool:
            return v
        return sv.cmp("!=", v, 0)
    return v


# ----------------------------------------------------------------------------------------------
# sequences of symbolic length (python lists built in loops) – see interp for appends


class SeqVal:
    """immutable sequence value with possibly symbolic length"""
    __slots__ = ("length", "fn")

    def __init__(self, length, fn):
        self.length, self.fn = length, fn

    def reader(self):
        return self.fn


def compact(vals, keeps):
    """order-preserving sub-sequence of the scalars `vals` whose `keeps` entry (True or symbolic bool) holds:
    length = number kept; element j = the value v_m with keep_m and |{l < m : keep_l}| == j"""
    before = [0]
    for k in keeps:
        before.append(sv.add(before[-1], 1 if k is True else ite(k, 1, 0)))
    length = simp(before[-1]) if isinstance(before[-1], SV) else before[-1]

    def fn(j):
        r = vals[-1]
        for m in range(len(vals) - 2, -1, -1):
            c = sv.and_(keeps[m] if keeps[m] is not True else True, sv.cmp("==", before[m], j))
            r = ite(c, vals[m], r)
        return r
    return SeqVal(length, fn)


# ----------------------------------------------------------------------------------------------
# broadcasting / elementwise


def _plain_list(x):
    if getattr(x, "kind", None) == "list" and hasattr(x, "content") and not isinstance(x.content, SeqVal):
        return [_plain_list(y) for y in x.content]
    return x


def as_operand(x):
    """-> (shape, reader, dtype)"""
    if isinstance(x, Arr):
        return x.shape, x.reader(), x.dtype
    if isinstance(x, Masked):
        raise EngineError("masked selection used elementwise")
    if getattr(x, "kind", None) == "list" and hasattr(x, "content") and not isinstance(x.content, SeqVal):
        x = _plain_list(x)          # a python list object (heap reference) used as an array operand
    if isinstance(x, (list, tuple)):
        a = from_nested(x)
        return a.shape, a.reader(), a.dtype
    v = norm(x)
    return (), (lambda idx: v), scalar_dtype(v)


def broadcast_shapes(shapes):
    nd = max(len(s) for s in shapes)
    out = []
    for ax in range(nd):
        dims = []
        for s in shapes:
            k = ax - (nd - len(s))
            if k >= 0:
                dims.append(s[k])
        d = None
        for x in dims:
            if dim_conc(x) and x == 1:
                continue
            if d is None:
                d = x
            else:
                require_dim_eq(d, x, "broadcast")
        out.append(1 if d is None else d)
    return tuple(out)


def _bidx(shape, nd):
    """function mapping an output index to this operand's index under broadcasting"""
    off = nd - len(shape)
    ones = [dim_conc(d) and d == 1 for d in shape]

    def f(idx):
        return tuple(0 if ones[k] else idx[k + off] for k in range(len(shape)))
    return f


def _same_mask(m1, m2):
    if m1.mask is m2.mask:
        return True
    if not dim_eq_syntactic(m1.n, m2.n):
        return False
    t = sv.fresh_int("mk")
    a, b = norm(m1.mask(t)), norm(m2.mask(t))
    if is_conc(a) or is_conc(b):
        return is_conc(a) and is_conc(b) and bool(a) == bool(b)
    return a.t.eq(b.t)


def _ew_masked(f, operands, dtype=None):
    """elementwise operation with boolean-mask selections a[m] among the operands: all selections must select the same
    rows (same length n, masks equal at every row: side obligation `mask-match` unless it is the same mask term); other
    operands broadcast against the trailing dims only.  The result is the selection (by the same mask) of the elementwise
    result on the full arrays."""
    ms = [o for o in operands if isinstance(o, Masked)]
    m0 = ms[0]
    for m in ms[1:]:
        require_dim_eq(m0.n, m.n, "mask-length")
        t = sv.fresh_int("mm")
        a, b = m0.mask(t), m.mask(t)
        same = (a is b) or (isinstance(a, SV) and isinstance(b, SV) and a.t.eq(b.t)) or (is_conc(a) and is_conc(b) and a == b)
        if not same:
            cur().require(sv.implies(sv.and_(sv.cmp(">=", t, 0), sv.cmp("<", t, m0.n)), sv.cmp("==", a, b)), "mask-match")
    parts = []
    for o in operands:
        if isinstance(o, Masked):
            parts.append((tuple(o.rest), o.src, o.dtype, True))
        else:
            shp, rd, dt = as_operand(o)
            parts.append((tuple(shp), rd, dt, False))
    rest = broadcast_shapes([p[0] for p in parts]) if any(p[0] for p in parts) else ()
    nd = len(rest)
    maps = [_bidx(p[0], nd) for p in parts]
    dt = dtype or promote(*[p[2] for p in parts])

    def src(idx):
        t, r = idx[0], tuple(idx[1:])
        vals = []
        for (shp, rd, _, masked), mp in zip(parts, maps):
            vals.append(rd((t,) + mp(r)) if masked else rd(mp(r)))
        return f(*vals)
    return Masked(_memo(src), m0.n, m0.mask, tuple(rest), dt)


def ew(f, *operands, dtype=None):
    if any(isinstance(o, Masked) for o in operands):
        if any(isinstance(o, (Arr, list, tuple)) and as_operand(o)[0] != () for o in operands):
            # a selection combined with an ordinary array: the selection is materialised (rows = selected positions in
            # increasing order, relational contract of relops.select) and numpy broadcasting applies as usual
            from .relops import masked_to_arr
            return ew(f, *[masked_to_arr(o) if isinstance(o, Masked) else o for o in operands], dtype=dtype)
        return _ew_masked(f, operands, dtype)
    ops = [as_operand(o) for o in operands]
    if all(o[0] == () for o in ops) and not any(isinstance(o, Arr) for o in operands):
        return f(*[o[1](()) for o in ops])
    shape = broadcast_shapes([o[0] for o in ops])
    nd = len(shape)
    maps = [_bidx(o[0], nd) for o in ops]
    readers = [o[1] for o in ops]
    dt = dtype or promote(*[o[2] for o in ops])

    def fn(idx):
        return f(*[r(m(idx)) for r, m in zip(readers, maps)])
    return new_arr(shape, fn, dt)


def _truediv(a, b):
    return sv.div(a, b)


def _op_dtype(x):
    return x.dtype if isinstance(x, (Arr, Masked)) else as_operand(x)[2]


def binop(op, a, b):
    if op == "+":
        if _op_dtype(a) == "bool" and _op_dtype(b) == "bool" and (isinstance(a, (Arr, Masked)) or isinstance(b, (Arr, Masked))):
            return ew(sv.or_, a, b, dtype="bool")        # numpy: + on boolean arrays is the logical or
        return ew(sv.add, a, b)
    if op == "-":
        return ew(sv.sub, a, b)
    if op == "*":
        da = a.dtype if isinstance(a, Masked) else as_operand(a)[2]
        db = b.dtype if isinstance(b, Masked) else as_operand(b)[2]
        if da == "bool" and db == "bool":
            return ew(sv.and_, a, b, dtype="bool")
        return ew(sv.mul, a, b)
    if op == "/":
        r = ew(_truediv, a, b)
        if isinstance(r, (Arr, Masked)) and r.dtype in ("int", "bool"):
            r.dtype = "float"
        return r
    if op == "//":
        return ew(sv.floordiv, a, b)
    if op == "%":
        return ew(sv.mod, a, b)
    if op == "**":
        eb = norm(b) if sv.is_scalar(b) else None
        if _op_dtype(a) in ("int", "bool") and isinstance(eb, int) and not isinstance(eb, bool) and eb < 0:
            # numpy: ValueError "Integers to negative integer powers are not allowed"
            raise EngineError("integer array to a negative integer power")
        return ew(sv.power, a, b)
    if op in ("<", "<=", ">", ">=", "==", "!="):
        return ew(lambda x, y: sv.cmp(op, x, y), a, b, dtype="bool")
    if op in ("&", "|"):
        if _op_dtype(a) != "bool" or _op_dtype(b) != "bool":
            raise EngineError(f"bitwise {op} on non-boolean arrays")       # only the logical reading (boolean masks) is modelled
        return ew(sv.and_ if op == "&" else sv.or_, a, b, dtype="bool")
    raise EngineError(f"array operator {op}")


def unop(f, a, dtype=None):
    return ew(f, a, dtype=dtype)


# ----------------------------------------------------------------------------------------------
# copies, casts


def copy(a):
    r = a.reader()
    return new_arr(a.shape, r, a.dtype)


def astype(a, dt):
    dt = norm_dtype(dt)
    r = a.reader()
    if dt == "float" and a.dtype == "complex":
        # numpy: the imaginary part is discarded (ComplexWarning)
        cur().trace.append(("warning", "ComplexWarning", cur().where))
        return new_arr(a.shape, lambda idx: _cast(sv.re(r(idx)), dt), dt)
    return new_arr(a.shape, lambda idx: _cast(r(idx), dt), dt)


def norm_dtype(dt):
    if isinstance(dt, str):
        s = dt
    else:
        s = getattr(dt, "name", None) or str(dt)
    s = s.lower()
    if "complex" in s:
        return "complex"
    if "float" in s or s == "double":
        return "float"
    if "bool" in s:
        return "bool"
    if "int" in s:
        return "int"
    if "str" in s or s.startswith("<u") or s == "object":
        return "object"
    raise EngineError(f"dtype {dt}")


def zeros(shape, dtype="float"):
    if not isinstance(shape, (tuple, list)):
        shape = (shape,)
    dt = norm_dtype(dtype) if not isinstance(dtype, str) or dtype not in ("float", "int", "bool", "complex") else dtype
    zero = {"float": Fraction(0), "int": 0, "bool": False, "complex": Cx(Fraction(0), Fraction(0))}[dt]
    shape = tuple(norm(d) for d in shape)
    for d in shape:
        if not is_conc(d):
            cur().require(sv.cmp(">=", d, 0), "nonneg-dim")
    return new_arr(shape, lambda idx: zero, dt)


# ----------------------------------------------------------------------------------------------
# indexing


class Masked:
    """a[mask] for a 1-D boolean mask over axis 0: selection of unknown length.
    src: reader over full array (idx tuple), n: length of axis 0, mask: reader k -> bool, rest: trailing shape"""
    __slots__ = ("src", "n", "mask", "rest", "dtype", "_enum")

    def __init__(self, src, n, mask, rest, dtype):
        self.src, self.n, self.mask, self.rest, self.dtype = src, n, mask, rest, dtype
        self._enum = None

    def count(self):
        return Sum(0, self.n, lambda t: ite(self.mask(t), 1, 0))

    def enumeration(self):
        """ASSUMED contract of boolean-mask selection a[mask]: the result lists the selected rows in increasing index order,
        i.e. row p of the result is row sel(p) of `a`, where sel is a bijection from [0, count) onto {j < n : mask_j}
        (uninterpreted `sel!k`).  Facts 0 <= sel(p) < n and mask(sel(p)) (for 0 <= p < count) are instantiated for every
        application of sel in a query; the enumeration is registered for the Sigma re-indexing rule (axioms.py)."""
        if self._enum is None:
            import z3
            from . import sigma
            name = sv.fresh_name("sel")
            f = z3.Function(name, z3.IntSort(), z3.IntSort())
            cnt = self.count()
            n, mask = self.n, self.mask

            def fact(p):
                inr = z3.And(p >= 0, p < sv.znum(cnt))
                sp = f(p)
                return z3.Implies(inr, z3.And(sp >= 0, sp < sv.znum(n), sv.zb(mask(sv.SV(sp)))))
            cur().array_facts.append((name, fact))
            sigma.SELECTIONS[name] = (f, n, mask, cnt)
            self._enum = (f, cnt)
        return self._enum

    def row(self, p):
        """element / row p of the selection (0 <= p < count is a side obligation)"""
        f, cnt = self.enumeration()
        p = _norm_index(p, cnt, "index-bounds")
        sp = sv.SV(f(sv.znum(p)))
        src = self.src
        if not self.rest:
            return src((sp,))
        return new_arr(tuple(self.rest), lambda idx: src((sp,) + tuple(idx)), self.dtype)


class MaskRank:
    """the position, inside a boolean-mask selection, of the selected element with underlying index t (what
    enumerate() over the selection counts); only usable to index a selection made with the same mask"""
    __slots__ = ("t", "n", "mask")

    def __init__(self, t, n, mask):
        self.t, self.n, self.mask = t, n, mask


def masked_getitem(a, key):
    """sel[rank] where rank is the enumerate() counter of a selection with the same mask: the underlying element"""
    if not isinstance(key, MaskRank) or a.rest != ():
        raise EngineError("indexing a masked selection")
    require_dim_eq(a.n, key.n, "mask-length")
    probe = sv.fresh_int("mk")
    m1, m2 = norm(a.mask(probe)), norm(key.mask(probe))
    same = (is_conc(m1) and is_conc(m2) and m1 == m2) or (isinstance(m1, SV) and isinstance(m2, SV) and z3.simplify(m1.t).eq(z3.simplify(m2.t)))
    if not same:
        raise EngineError("selection indexed by the position in a selection with a different mask")
    return a.src((key.t,))


MASKED_ROW = [None]          # hook: sel[p] for an integer p through another contract of the row enumeration (default: relops)
SYMBOLIC_MINMAX = [None]     # hook: contract of min/max over a symbolic axis (registered by a library extension)


def _norm_index(i, n, what="index-bounds"):
    """python/numpy integer index -> nonneg index, with the bounds side obligation"""
    i = norm(i)
    if isinstance(i, Fraction):
        raise EngineError("float used as index")
    if is_conc(i):
        i = int(i)
        if i < 0:
            i = simp(sv.add(n, i))
            if is_conc(i) and i < 0:
                raise EngineError("IndexError")
            if not is_conc(i):
                cur().require(sv.cmp(">=", i, 0), what)
            return i
        if is_conc(n):
            if i >= n:
                cur().require(False, what)
            return i
        cur().require(sv.cmp("<", i, n), what)
        return i
    if isinstance(i, SV) and i.is_real:
        raise EngineError("float used as index")
    cur().require(sv.and_(sv.cmp(">=", i, 0), sv.cmp("<", i, n)), what)
    return i


def _slice_bounds(s, n):
    """slice (start, stop, step=1|None) over an axis of length n -> (start, length).
    numpy clamps; for symbolic bounds we require 0 <= start <= stop <= n (side obligation)."""
    step = s.step
    if step is not None and not (is_conc(step) and int(step) == 1):
        raise EngineError("slice step")
    start, stop = s.start, s.stop
    start = 0 if start is None else norm(start)
    stop = n if stop is None else norm(stop)
    if is_conc(start) and start < 0:
        start = simp(sv.add(n, start))
    if is_conc(stop) and stop < 0:
        stop = simp(sv.add(n, stop))
    if is_conc(start) and is_conc(stop) and is_conc(n):
        start = max(0, min(int(start), int(n)))
        stop = max(start, min(int(stop), int(n)))
        return start, stop - start
    cond = sv.and_(sv.cmp("<=", 0, start), sv.cmp("<=", start, stop), sv.cmp("<=", stop, n))
    cur().require(cond, "slice-bounds")
    return start, simp(sv.sub(stop, start))


def _expand_key(key, nd):
    if not isinstance(key, tuple):
        key = (key,)
    n_real = sum(1 for k in key if k is not None and k is not Ellipsis)
    out = []
    for k in key:
        if k is Ellipsis:
            out.extend([slice(None)] * (nd - n_real))
        else:
            out.append(k)
    n_real2 = sum(1 for k in out if k is not None)
    out.extend([slice(None)] * (nd - n_real2))
    return out


def _masked_getitem(a, key):
    """m[:, None, ...]: the selected axis kept whole, new axes / full slices on the trailing dimensions"""
    if isinstance(key, MaskRank) or (isinstance(key, tuple) and len(key) == 1 and isinstance(key[0], MaskRank)):
        return masked_getitem(a, key if isinstance(key, MaskRank) else key[0])
    if MASKED_ROW[0] is not None and not isinstance(key, (tuple, slice, list, Arr, Masked)) and key is not None:
        k = norm(key)
        if sv.is_scalar(k) and not isinstance(k, bool):
            return MASKED_ROW[0](a, k)
    if not isinstance(key, tuple):
        key = (key,)
    if not key or not (isinstance(key[0], slice) and key[0] == slice(None)):
        # general indexing of a selection: materialise it as an array (relational contract of the row order, relops.py)
        from .relops import masked_to_arr
        return getitem(masked_to_arr(a), key if len(key) != 1 else key[0])
    rest, plan, ax, fixed = [], [], 0, {}
    for k in key[1:]:
        if k is None:
            rest.append(1)
            plan.append(None)
        elif isinstance(k, slice) and k == slice(None) and ax < len(a.rest):
            rest.append(a.rest[ax])
            plan.append(ax)
            ax += 1
        elif sv.is_scalar(norm(k)) and not isinstance(k, slice) and ax < len(a.rest):
            fixed[ax] = _norm_index(k, a.rest[ax])       # a[m][:, k]: a trailing axis fixed at an index
            ax += 1
        else:
            raise EngineError("indexing a masked selection")
    while ax < len(a.rest):
        rest.append(a.rest[ax])
        plan.append(ax)
        ax += 1
    src = a.src

    def src2(idx):
        tail = idx[1:]
        old = [None] * len(a.rest)
        for pos, ax_ in enumerate(plan):
            if ax_ is not None:
                old[ax_] = tail[pos]
        for k_, v_ in fixed.items():
            old[k_] = v_
        return src((idx[0],) + tuple(old))
    return Masked(src2, a.n, a.mask, tuple(rest), a.dtype)


def getitem(a, key):
    if isinstance(a, Masked):
        return _masked_getitem(a, key)
    if isinstance(key, Masked):
        from .relops import masked_to_arr
        key = masked_to_arr(key)
    shape = a.shape
    if isinstance(key, tuple) and len(key) >= 2 and isinstance(key[-1], Arr) and key[-1].dtype == "bool" \
            and all(sv.is_scalar(norm(k)) for k in key[:-1]):
        # a[n, mask]: integer indices first, then a boolean mask over the next axis
        sub = getitem(a, tuple(key[:-1]))
        if not isinstance(sub, Arr):
            raise EngineError("boolean mask on a scalar")
        return _mask_select(sub, key[-1])
    # boolean mask (whole-array or leading-axis)
    if isinstance(key, Arr) and key.dtype == "bool":
        return _mask_select(a, key)
    if isinstance(key, (list,)):
        key = from_nested(key)
    if isinstance(key, tuple) and any(isinstance(k, list) for k in key):
        key = tuple(from_nested(k) if isinstance(k, list) else k for k in key)
    keys = _expand_key(key, len(shape))
    if any(isinstance(k, Arr) for k in keys):
        return _fancy(a, keys)
    bv = a.base_view()
    # map view axes -> new
    new_shape = []
    fix_view = {}     # view axis -> fixed index
    rng_view = {}     # view axis -> (start, new axis)
    ax = 0
    for k in keys:
        if k is None:
            new_shape.append(1)
            continue
        n = shape[ax]
        if isinstance(k, slice):
            st, ln = _slice_bounds(k, n)
            rng_view[ax] = (st, len(new_shape))
            new_shape.append(ln)
        else:
            fix_view[ax] = _norm_index(k, n)
        ax += 1
    base = []
    for spec in bv.base:
        if spec[0] == "fix":
            base.append(spec)
        else:
            _, st0, vax = spec
            if vax in fix_view:
                base.append(("fix", simp(sv.add(st0, fix_view[vax]))))
            else:
                st, nax = rng_view[vax]
                base.append(("rng", simp(sv.add(st0, st)), nax))
    if not new_shape:
        # scalar element
        return a.get(tuple(fix_view[i] for i in range(len(shape))))
    return Arr(a.sid, View(base, new_shape), a.dtype)


def _mask_select(a, mask):
    if mask.ndim != 1:
        if mask.ndim == a.ndim:
            raise EngineError("full boolean mask selection")
        raise EngineError("mask rank")
    require_dim_eq(a.shape[0], mask.shape[0], "mask-length")
    mr = mask.reader()
    n = a.shape[0]
    if dim_conc(n):
        # concrete length and concrete mask values: the selection is an ordinary (fresh) array of the selected rows
        flags = [norm(mr((t,))) for t in range(n)]
        if all(isinstance(f, bool) for f in flags):
            rows = [t for t in range(n) if flags[t]]
            src = a.reader()
            rest = tuple(a.shape[1:])

            def fn(idx, rows=rows, src=src):
                if is_conc(idx[0]):
                    return src((rows[int(idx[0])],) + tuple(idx[1:]))
                return _pick([src((t,) + tuple(idx[1:])) for t in rows], idx[0])
            return new_arr((len(rows),) + rest, fn, a.dtype)
    return Masked(a.reader(), a.shape[0], lambda t: mr((t,)), tuple(a.shape[1:]), a.dtype)


def _fancy(a, keys):
    """integer-array indexing; supports several index arrays of equal shape (numpy pairs them) with
    ints/slices elsewhere, index arrays adjacent or single"""
    shape = a.shape
    r = a.reader()
    arrs = [(i, k) for i, k in enumerate(keys) if isinstance(k, Arr)]
    if any(k is None for k in keys):
        raise EngineError("newaxis with fancy index")
    ishape = arrs[0][1].shape
    for _, k in arrs[1:]:
        if len(k.shape) != len(ishape):
            raise EngineError("fancy index arrays of different rank")
        for x, y in zip(k.shape, ishape):
            require_dim_eq(x, y)
    for _, k in arrs:
        if k.dtype == "bool":
            raise EngineError("boolean array in tuple index")
        if k.dtype in ("float", "complex"):
            # numpy: IndexError "arrays used as indices must be of integer (or boolean) type"
            raise EngineError("float array used as index")
    first = arrs[0][0]
    pos = [i for i, _ in arrs]
    if pos != list(range(pos[0], pos[0] + len(pos))):
        raise EngineError("non-adjacent fancy indices")
    readers = {i: k.reader() for i, k in arrs}
    out_shape = []
    plan = []   # per axis of a: ('fix',k) | ('rng',start,outaxis) | ('arr', reader)
    for axn, k in enumerate(keys):
        n = shape[axn]
        if isinstance(k, Arr):
            if axn == first:
                arr_out0 = len(out_shape)
                out_shape.extend(ishape)
            plan.append(("arr", readers[axn], n))
        elif isinstance(k, slice):
            st, ln = _slice_bounds(k, n)
            plan.append(("rng", st, len(out_shape)))
            out_shape.append(ln)
        else:
            plan.append(("fix", _norm_index(k, n)))
    ni = len(ishape)
    st_ = cur()

    def fn(idx):
        sub = tuple(idx[arr_out0:arr_out0 + ni])
        bi = []
        for p in plan:
            if p[0] == "fix":
                bi.append(p[1])
            elif p[0] == "rng":
                bi.append(simp(sv.add(p[1], idx[p[2]])))
            else:
                v = p[1](sub)
                if isinstance(v, SV) and v.is_real:
                    v = sv.wrap(z3.ToInt(v.t))
                elif isinstance(v, Fraction):
                    v = int(v)
                bi.append(v)
        return r(tuple(bi))
    # bounds obligation at a symbolic position
    for p in plan:
        if p[0] == "arr":
            _require_all_in_range(p[1], ishape, p[2])
    return new_arr(tuple(out_shape), fn, a.dtype)


def _require_all_in_range(reader, ishape, n):
    idx = []
    conds = []
    concrete = all(dim_conc(d) for d in ishape)
    if concrete:
        for tup in itertools.product(*[range(d) for d in ishape]):
            v = reader(tup)
            cur().require(sv.and_(sv.cmp(">=", v, 0), sv.cmp("<", v, n)), "fancy-index-bounds")
        return
    for d in ishape:
        if dim_conc(d):
            # representative: all concrete positions would be too many combined with symbolic; use symbol
            pass
        t = sv.fresh_int("fi")
        idx.append(t)
        conds.append(sv.and_(sv.cmp(">=", t, 0), sv.cmp("<", t, d)))
    v = reader(tuple(idx))
    cur().require(sv.implies(sv.and_(*conds), sv.and_(sv.cmp(">=", v, 0), sv.cmp("<", v, n))), "fancy-index-bounds")


# ----------------------------------------------------------------------------------------------
# stores


def mark_named(v, depth=0):
    """record that the array cell(s) of a value are now reachable through a name / attribute / container / parameter: a view of
    such an array must stay connected to it (see view_result)"""
    st = cur()
    if isinstance(v, Arr):
        st.named.add(v.sid)
    elif isinstance(v, (tuple, list)) and depth < 3:
        for x in v:
            mark_named(x, depth + 1)
    elif getattr(v, "kind", None) in ("list", "dict") and hasattr(v, "content") and depth < 3:
        c = v.content
        if isinstance(c, dict):
            for x in c.values():
                mark_named(x, depth + 1)
        elif isinstance(c, tuple):
            for x in c:
                mark_named(x, depth + 1)


def is_temporary(a):
    """the array is an expression result that nothing else refers to (so that whether numpy hands out a view or a copy of it cannot be observed)"""
    st = cur()
    c = st.heap.get(a.sid)
    # allocated while evaluating the CURRENT statement and never bound since (cells from earlier statements, loop summaries, inputs
    # and defaults are not temporaries, whatever else is known about them)
    return a.sid > getattr(st, "stmt_mark", 1 << 62) and a.sid not in st.named and a.sid not in st.origin \
        and not (c is not None and c.meta.get("input"))


def _check_storable(a):
    """results of operations for which numpy may return a VIEW of the argument while the model allocates a fresh array (reshape /
    ravel of a contiguous array, .real / .imag of a complex array) carry meta `nostore`: a store through them would miss the
    argument, so it is outside the model (UNDECIDED), never silently performed on the copy"""
    why = cur().heap[a.sid].meta.get("nostore")
    if why:
        raise EngineError(f"store through the result of {why}: numpy may return a view of the argument there, the model a fresh array")


def setitem(a, key, value, aug=None):
    """a[key] = value   (aug: None or binary op name for a[key] op= value)"""
    st = cur()
    if a.is_readonly():
        raise ReadOnlyStore(f"store into read-only array #{a.sid}")
    _check_storable(a)
    if (isinstance(key, Arr) and key.dtype != "bool" and key.shape != ()) or isinstance(key, list) or \
            (isinstance(key, tuple) and any((isinstance(k, Arr) and k.dtype != "bool" and k.shape != ()) or isinstance(k, list) for k in key)):
        return _fancy_store(a, key, value, aug)
    if isinstance(key, Arr) and key.dtype == "bool":
        return _mask_store(a, key, value, aug)
    if isinstance(key, tuple) and len(key) >= 2 and isinstance(key[0], Arr) and key[0].dtype == "bool" and key[0].ndim == 1 \
            and all(sv.is_scalar(norm(k)) and not isinstance(k, slice) and k is not None for k in key[1:]) and len(key) == a.ndim:
        return _mask_row_store(a, key[0], key[1:], value, aug)
    target = getitem(a, key) if not _is_full_key(key) else a
    content = st.heap[a.sid]
    old = content.data
    if not isinstance(target, Arr):
        # single element
        keys = _expand_key(key, a.ndim)
        bv = a.base_view()
        vidx = tuple(_norm_index_noreq(k, a.shape[i]) for i, k in enumerate(keys))
        bidx = bv.to_base(vidx)
        v = norm(value)
        if isinstance(v, Arr):
            if v.shape == ():
                v = v.get(())
            else:
                raise EngineError("setting an array element with a sequence")
        if aug:
            v = scalar_binop(aug, old(bidx), v)
        v = _cast(v, a.dtype) if a.dtype in ("float", "int", "complex", "bool") else v
        if isinstance(v, Cx) and a.dtype == "float":
            if not aug:
                raise EngineError("complex stored into float array")
            # a[i] op= z with a float array: a[i] op z is a numpy complex128 scalar; the item store casts it to the real
            # part and emits numpy's ComplexWarning (checked natively on numpy 2.x); a plain python complex would raise
            st.trace.append(("warning", "ComplexWarning", st.where))
            v = v.re

        def fn(idx, old=old, bidx=bidx, v=v):
            return ite(_idx_eq(idx, bidx), v, lambda: old(idx))
        _replace(a.sid, fn)
        return
    # region store with broadcasting of value
    tv = target.view if target.view is not None else View.identity(target.shape)
    tshape = tuple(tv.shape)
    vshape, vreader, vdt = as_operand(value)
    if len(vshape) > len(tshape):
        raise EngineError("store value rank exceeds target")
    off = len(tshape) - len(vshape)
    for k, d in enumerate(vshape):
        if not (dim_conc(d) and d == 1):
            require_dim_eq(d, tshape[k + off], "store-shape")
    vmap = _bidx(vshape, len(tshape))
    specs = list(tv.base)
    dt = a.dtype

    def fn(idx, old=old):
        # idx is a base index; inside region iff every base axis matches
        conds = []
        vidx = [0] * len(tshape)
        for ax, spec in enumerate(specs):
            if spec[0] == "fix":
                conds.append(sv.cmp("==", idx[ax], spec[1]))
            else:
                _, st0, vax = spec
                rel = simp(sv.sub(idx[ax], st0))
                ln = tshape[vax]
                conds.append(sv.and_(sv.cmp(">=", rel, 0), sv.cmp("<", rel, ln)))
                vidx[vax] = rel
        inside = sv.and_(*conds)
        if is_conc(inside) and not inside:
            return old(idx)

        def newval():
            v = vreader(vmap(tuple(vidx)))
            if aug:
                v = scalar_binop(aug, old(idx), v)
            v = _cast(v, dt) if dt in ("float", "int", "complex", "bool") else v
            if isinstance(v, Cx) and dt == "float":
                v = v.re        # numpy: a complex ARRAY stored into a float array keeps the real parts (ComplexWarning)
            return v
        return ite(inside, newval, lambda: old(idx))
    if vdt == "complex" and dt in ("int", "bool"):
        raise EngineError("complex values stored into an integer array")
    if vdt == "complex" and dt == "float":
        if not isinstance(value, Arr):
            raise EngineError("complex stored into float array")
        st.trace.append(("warning", "ComplexWarning", st.where))
    _replace(a.sid, fn)


def _fancy_store(a, key, value, aug):
    """a[idx] = value / a[idx] op= value for ONE 1-D integer index array of concrete length on axis 0 (the other axes whole): the rows
    idx[0], idx[1], ... receive value[0], value[1], ... in that order (a repeated row keeps the last one); the augmented form reads the
    OLD rows (numpy evaluates a[idx] op value first, then stores: a repeated row is updated once).  Everything else is outside the model."""
    st = cur()
    if isinstance(key, list):
        key = from_nested(key)
    if not isinstance(key, Arr) or key.ndim != 1 or not dim_conc(key.shape[0]) or key.dtype not in ("int",) or a.view is not None:
        raise EngineError("store through an integer index array (only a[idx] = v with one 1-D index array on the first axis is modelled)")
    m, n = key.shape[0], a.shape[0]
    kr = key.reader()
    rows = [norm(kr((k,))) for k in range(m)]
    for r_ in rows:
        cur().require(sv.and_(sv.cmp(">=", r_, 0), sv.cmp("<", r_, n)), "fancy-index-bounds")
    rest = tuple(a.shape[1:])
    vshape, vreader, vdt = as_operand(value)
    tshape = (m,) + rest
    if len(vshape) > len(tshape):
        raise EngineError("store value rank exceeds target")
    off = len(tshape) - len(vshape)
    for k, d in enumerate(vshape):
        if not (dim_conc(d) and d == 1):
            require_dim_eq(d, tshape[k + off], "store-shape")
    vmap = _bidx(vshape, len(tshape))
    old = st.heap[a.sid].data
    dt = a.dtype

    def fn(idx, old=old):
        out = lambda: old(idx)
        for k in range(m):
            def val(k=k):
                v = vreader(vmap((k,) + tuple(idx[1:])))
                if aug:
                    v = scalar_binop(aug, old(idx), v)
                return _cast(v, dt) if dt in ("float", "int", "complex", "bool") else v
            out = (lambda k=k, val=val, nxt=out: ite(sv.cmp("==", idx[0], rows[k]), val, nxt))
        return out()
    _replace(a.sid, fn)


class ReadOnlyStore(Exception):
    pass


def _is_full_key(key):
    return key is Ellipsis or (isinstance(key, slice) and key == slice(None))


def _norm_index_noreq(k, n):
    k = norm(k)
    if is_conc(k) and k < 0:
        return simp(sv.add(n, k))
    return k


def _idx_eq(i1, i2):
    return sv.and_(*[sv.cmp("==", a, b) for a, b in zip(i1, i2)])


def _replace(sid, fn):
    st = cur()
    c = st.heap[sid]
    st.heap[sid] = Content("arr", _memo(fn), c.meta)
    st.events.append(("store", sid, st.where, list(st.pc)))


def _mask_store(a, mask, value, aug):
    st = cur()
    old = st.heap[a.sid].data
    if a.view is not None:
        raise EngineError("mask store through a view")
    mr = mask.reader()
    vshape, vreader, _ = as_operand(value)
    if vshape != ():
        raise EngineError("mask store with array value")
    v = vreader(())
    nm = mask.ndim
    dt = a.dtype

    def fn(idx):
        def nv():
            x = v if not aug else scalar_binop(aug, old(idx), v)
            return _cast(x, dt)
        return ite(mr(tuple(idx[:nm])), nv, lambda: old(idx))
    _replace(a.sid, fn)


def _mask_row_store(a, mask, rest_key, value, aug):
    """a[mask, c1, .., ck] = value  (mask: boolean over axis 0, integer indices on all other axes): for every row r with mask[r]
    the element a[r, c1..ck] is set.  value: a scalar, or the selection v[mask'] of a 1-D array by a mask equal to `mask`
    (numpy pairs the selected rows in order: side obligation `mask-match`), then row r receives v[r]."""
    st = cur()
    if a.view is not None:
        raise EngineError("mask store through a view")
    old = st.heap[a.sid].data
    require_dim_eq(mask.shape[0], a.shape[0], "mask-length")
    fixed = tuple(_norm_index(k, a.shape[1 + n]) for n, k in enumerate(rest_key))
    mr = mask.reader()
    if isinstance(value, Masked):
        if value.rest != ():
            raise EngineError("mask store with a selection of rows of an n-d array")
        require_dim_eq(value.n, mask.shape[0], "mask-length")
        t = sv.fresh_int("mm")
        m1, m2 = norm(value.mask(t)), norm(mr((t,)))
        same = (is_conc(m1) and is_conc(m2) and bool(m1) == bool(m2)) or (isinstance(m1, SV) and isinstance(m2, SV) and m1.t.eq(m2.t))
        if not same:
            st.require(sv.implies(sv.and_(sv.cmp(">=", t, 0), sv.cmp("<", t, mask.shape[0])), sv.cmp("==", m1, m2)), "mask-match")
        vsrc = value.src
        vat = lambda r: vsrc((r,))
    else:
        vshape, vreader, _ = as_operand(value)
        if vshape != ():
            raise EngineError("mask store with array value")
        v0 = vreader(())
        vat = lambda r: v0
    dt = a.dtype

    def fn(idx):
        def nv():
            x = vat(idx[0]) if not aug else scalar_binop(aug, old(idx), vat(idx[0]))
            return _cast(x, dt)
        return ite(sv.and_(mr((idx[0],)), _idx_eq(tuple(idx[1:]), fixed)), nv, lambda: old(idx))
    _replace(a.sid, fn)


def scalar_binop(op, a, b):
    return {"+": sv.add, "-": sv.sub, "*": sv.mul, "/": sv.div, "//": sv.floordiv, "%": sv.mod,
            "**": sv.power, "&": sv.and_, "|": sv.or_}[op](a, b)


def inplace(a, op, value):
    """a op= value on an array target (whole array)"""
    if a.is_readonly():
        raise ReadOnlyStore(f"in-place {op}= on read-only array #{a.sid}")
    _check_storable(a)
    cur_reader = a.reader()
    vshape, vreader, vdt = as_operand(value)
    shape = a.shape
    if len(vshape) > len(shape):
        raise EngineError("in-place operand rank")
    off = len(shape) - len(vshape)
    for k, d in enumerate(vshape):
        if not (dim_conc(d) and d == 1):
            require_dim_eq(d, shape[k + off], "inplace-shape")
    vmap = _bidx(vshape, len(shape))
    dt = a.dtype
    if op == "/" and dt in ("int", "bool"):
        raise NumpyCastingError("in-place true division of an integer array")
    if vdt == "complex" and dt != "complex":
        raise NumpyCastingError("in-place op complex into real array")
    if vdt == "float" and dt in ("int", "bool"):
        raise NumpyCastingError("in-place op float into int array")

    if a.view is None:
        def fn(idx):
            return _cast(scalar_binop(op, cur_reader(idx), vreader(vmap(idx))), dt)
        _replace(a.sid, fn)
    else:
        setitem(a, Ellipsis, new_arr(shape, lambda idx: scalar_binop(op, cur_reader(idx), vreader(vmap(idx))), dt))


class NumpyCastingError(Exception):
    pass


# ----------------------------------------------------------------------------------------------
# reductions


def _axis_len_sum(n, f):
    """Σ_{t<n} f(t) for concrete or symbolic n"""
    return Sum(0, n, f)


def _masked_conv(v):
    if isinstance(v, SV) and v.is_bool:
        return sv.wrap(sv.znum(v))
    if isinstance(v, bool):
        return int(v)
    return v


def _typed(v, dt, shape=()):
    """a concrete integer result of a reduction over float / complex data of CONCRETE shape (empty range: the neutral element) in the
    result's class; results over symbolic axes are left exactly as they are (term shapes matter to the solvers)"""
    if isinstance(v, int) and not isinstance(v, bool) and dt in ("float", "complex") and all(dim_conc(d) for d in shape):
        return Fraction(v) if dt == "float" else Cx(Fraction(v), Fraction(0))
    return v


def reduce_sum(a, axis=None):
    if isinstance(a, Masked):
        src, mask, rest = a.src, a.mask, tuple(a.rest)
        dt = "int" if a.dtype == "bool" else a.dtype
        if axis is not None:
            axis = int(axis) % (1 + len(rest))
        if axis is None:
            def total(t, prefix, k):
                if k == len(rest):
                    return _masked_conv(src((t,) + tuple(prefix)))
                return Sum(0, rest[k], lambda u: total(t, prefix + [u], k + 1))
            return _typed(Sum(0, a.n, lambda t: ite(mask(t), lambda: total(t, [], 0), 0)), dt, (a.n,) + rest)
        if axis == 0:
            def fn0(idx):
                return _typed(Sum(0, a.n, lambda t: ite(mask(t), lambda: _masked_conv(src((t,) + tuple(idx))), 0)), dt, (a.n,) + rest)
            return fn0(()) if rest == () else new_arr(rest, fn0, dt)
        k = axis - 1
        new_rest = rest[:k] + rest[k + 1:]
        nk = rest[k]

        def srck(idx):
            t, r = idx[0], tuple(idx[1:])
            return Sum(0, nk, lambda u: _masked_conv(src((t,) + r[:k] + (u,) + r[k:])))
        return Masked(_memo(srck), a.n, mask, new_rest, dt)
    if not isinstance(a, Arr):
        a = from_nested(a)
    r = a.reader()
    shape = a.shape
    dt = "int" if a.dtype == "bool" else a.dtype
    conv = (lambda v: sv.wrap(sv.znum(v)) if isinstance(v, SV) and v.is_bool else (int(v) if isinstance(v, bool) else v))
    if axis is None:
        def total(prefix, k):
            if k == len(shape):
                return conv(r(tuple(prefix)))
            return _axis_len_sum(shape[k], lambda t: total(prefix + [t], k + 1))
        return _typed(total([], 0), dt, shape)
    if isinstance(axis, tuple):
        out = a
        for ax in sorted([x % len(shape) for x in axis], reverse=True):
            out = reduce_sum(out, ax)
        return out
    axis = int(axis) % len(shape)
    out_shape = shape[:axis] + shape[axis + 1:]
    n = shape[axis]

    def fn(idx):
        return _typed(_axis_len_sum(n, lambda t: conv(r(tuple(idx[:axis]) + (t,) + tuple(idx[axis:])))), dt, shape)
    if out_shape == ():
        return fn(())
    return new_arr(out_shape, fn, dt)


def reduce_prod(a, axis=None):
    if not isinstance(a, Arr):
        a = from_nested(a)
    shape = a.shape
    if not all(dim_conc(d) for d in shape):
        if axis is None:
            raise EngineError("product over symbolic axis")
    r = a.reader()
    if axis is None:
        acc = 1
        for idx in itertools.product(*[range(d) for d in shape]):
            acc = sv.mul(acc, r(idx))
        return _typed(acc, a.dtype, shape)
    axis = int(axis) % len(shape)
    if not dim_conc(shape[axis]):
        raise EngineError("product over symbolic axis")
    out_shape = shape[:axis] + shape[axis + 1:]
    n = shape[axis]

    def fn(idx):
        acc = 1
        for t in range(n):
            acc = sv.mul(acc, r(tuple(idx[:axis]) + (t,) + tuple(idx[axis:])))
        return acc
    return new_arr(out_shape, fn, a.dtype)


def count_elems(a):
    n = 1
    for d in a.shape:
        n = sv.mul(n, d)
    return n


def reduce_mean(a, axis=None):
    if isinstance(a, Masked):
        if axis is None:
            cnt = a.count()
            for dd in a.rest:
                cnt = sv.mul(cnt, dd)
            return sv.div(reduce_sum(a), cnt)
        ax = int(axis) % (1 + len(a.rest))
        s_ = reduce_sum(a, ax)
        if ax == 0:
            return binop("/", s_, a.count()) if isinstance(s_, Arr) else sv.div(s_, a.count())
        return _ew_masked(lambda x, y: sv.div(x, y), [s_, a.rest[ax - 1]], dtype="float")
    if not isinstance(a, Arr):
        a = from_nested(a)
    s = reduce_sum(a, axis)
    if axis is None:
        return sv.div(s, count_elems(a))
    n = a.shape[int(axis) % a.ndim]
    return binop("/", s, n) if isinstance(s, Arr) else sv.div(s, n)


def reduce_minmax(a, which, axis=None):
    if not isinstance(a, Arr):
        a = from_nested(a)
    if axis is not None:
        ax = int(norm(axis))
        if a.ndim == 1 and ax in (0, -1):
            return reduce_minmax(a, which)
        if a.ndim == 2 and ax == 0 and dim_conc(a.shape[1]):
            # column-wise extremum: one 1-D reduction per (concrete) column
            n, r = a.shape[0], a.reader()
            if dim_conc(n):
                cols = [reduce_minmax(getitem(a, (slice(None), k)), which) for k in range(a.shape[1])]
            else:
                from .relops import extremum
                cols = [extremum((lambda t, k=k: r((t, k))), n, which) for k in range(a.shape[1])]
            return from_nested(cols, a.dtype)
        raise EngineError("min/max with axis")
    shape = a.shape
    if not all(dim_conc(d) for d in shape):
        if len(shape) == 1 and SYMBOLIC_MINMAX[0] is not None:
            return SYMBOLIC_MINMAX[0](a, which)
        # ASSUMED relational contract of max/min over a symbolic axis (1-D): the result M is attained at a witness index
        # and bounds every element; the bound is a quantified fact (cur().qfacts) that contracts instantiate
        if len(shape) != 1:
            raise EngineError("min/max over symbolic axis of an nd array")
        n = shape[0]
        r = a.reader()
        cur().require(sv.cmp(">=", n, 1), f"{which}-of-nonempty")
        w = sv.fresh_int("argm")
        M = r((w,))
        st = cur()
        st.assume(sv.and_(sv.cmp(">=", w, 0), sv.cmp("<", w, n)))
        st.qfacts.append((which, n, r, M, w))
        return M
    r = a.reader()
    acc = None
    for idx in itertools.product(*[range(d) for d in shape]):
        v = r(idx)
        acc = v if acc is None else (sv.minv(acc, v) if which == "min" else sv.maxv(acc, v))
    if acc is None:
        raise EngineError("min/max of empty array")
    return acc


# ----------------------------------------------------------------------------------------------
# small linear algebra (concrete small dimensions)


def conc_dim(d, what="dimension"):
    if not dim_conc(d):
        raise EngineError(f"{what} must be concrete")
    return d


def dot(a, b):
    if not isinstance(a, Arr):
        a = from_nested(a)
    if not isinstance(b, Arr):
        b = from_nested(b)
    ra, rb = a.reader(), b.reader()
    sa, sb = a.shape, b.shape
    dt = promote(a.dtype, b.dtype)
    if len(sa) == 0 or len(sb) == 0:
        return binop("*", a, b)
    if len(sb) == 1:
        require_dim_eq(sa[-1], sb[0], "dot-shape")
        n = sa[-1]
        out_shape = sa[:-1]

        def fn(idx):
            return Sum(0, n, lambda t: sv.mul(ra(tuple(idx) + (t,)), rb((t,))))
        return fn(()) if out_shape == () else new_arr(out_shape, fn, dt)
    # b has rank >= 2: contract last of a with second-to-last of b
    require_dim_eq(sa[-1], sb[-2], "dot-shape")
    n = sa[-1]
    out_shape = sa[:-1] + sb[:-2] + sb[-1:]
    na = len(sa) - 1

    def fn2(idx):
        ia = tuple(idx[:na])
        ib = tuple(idx[na:])
        return Sum(0, n, lambda t: sv.mul(ra(ia + (t,)), rb(ib[:-1] + (t,) + ib[-1:])))
    return new_arr(out_shape, fn2, dt)


def matmul(a, b):
    if not isinstance(a, Arr):
        a = from_nested(a)
    if not isinstance(b, Arr):
        b = from_nested(b)
    if a.ndim <= 2 and b.ndim <= 2:
        return dot(a, b)
    raise EngineError("batched matmul")


def trace(a):
    if a.ndim != 2:
        raise EngineError("trace rank")
    require_dim_eq(a.shape[0], a.shape[1])
    r = a.reader()
    return Sum(0, a.shape[0], lambda t: r((t, t)))


def transpose(a):
    bv = a.base_view()
    nd = len(bv.shape)
    perm = list(range(nd))[::-1]
    inv = {old: new for new, old in enumerate(perm)}
    base = [spec if spec[0] == "fix" else ("rng", spec[1], inv[spec[2]]) for spec in bv.base]
    return Arr(a.sid, View(base, [bv.shape[p] for p in perm]), a.dtype)


def det_small(M, d):
    if d == 1:
        return M[0][0]
    if d == 2:
        return sv.sub(sv.mul(M[0][0], M[1][1]), sv.mul(M[0][1], M[1][0]))
    if d == 3:
        t = 0
        for (i, j, k), s in (((0, 1, 2), 1), ((1, 2, 0), 1), ((2, 0, 1), 1), ((0, 2, 1), -1), ((1, 0, 2), -1), ((2, 1, 0), -1)):
            t = sv.add(t, sv.mul(s, sv.mul(M[0][i], sv.mul(M[1][j], M[2][k]))))
        return t
    raise EngineError("det dimension")


def norm_l2(a, axis=None):
    if not isinstance(a, Arr):
        a = from_nested(a)
    r = a.reader()

    def sq(v):
        v = norm(v)
        if isinstance(v, Cx):
            return sv.add(sv.mul(v.re, v.re), sv.mul(v.im, v.im))
        return sv.mul(v, v)
    if axis is None:
        sq_arr = new_arr(a.shape, lambda idx: sq(r(idx)), "float")
        return sv.sqrt(reduce_sum(sq_arr))
    sq_arr = new_arr(a.shape, lambda idx: sq(r(idx)), "float")
    s = reduce_sum(sq_arr, axis)
    if isinstance(s, Arr):
        sr = s.reader()
        return new_arr(s.shape, lambda idx: sv.sqrt(sr(idx)), "float")
    return sv.sqrt(s)


def to_list(a):
    """concrete-shaped array -> nested python lists of scalars"""
    shape = a.shape
    r = a.reader()
    if not all(dim_conc(d) for d in shape):
        raise EngineError("to_list on symbolic shape")

    def build(prefix, k):
        if k == len(shape):
            return r(tuple(prefix))
        return [build(prefix + [t], k + 1) for t in range(shape[k])]
    return build([], 0)
