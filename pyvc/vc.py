"""Verification-condition driver: units (function under contract × case) -> named obligations -> verdicts."""
from __future__ import annotations

import ast
import hashlib
import time
import traceback

import z3

from . import arr as A
from . import solve, sv
from .interp import Frame, FuncVal, Interp, PyRaise, Ref, load_module, new_obj
from .lib import Lib
from .state import State, cur, use_state
from .sv import SV, EngineError, is_conc


class Ctx:
    """what a contract sees: symbol constructors, assumptions, the interpreter"""

    def __init__(self, unit, case, tier):
        self.unit, self.case, self.tier = unit, case, tier
        self.state = State()
        global LIB
        LIB = lib_for(getattr(unit, "lib_prop", None) or getattr(unit, "prop", None))      # `from pyvc.vc import LIB` in a contract = the current table
        LIB.activate()
        self.interp = Interp(LIB, summaries=dict(unit.summaries), loop_hints=dict(unit.loop_hints))
        self.interp.loop_opts = dict(getattr(unit, "loop_opts", None) or {})
        self.ghost = {}

    # symbols
    def real(self, name):
        return sv.real(name)

    def int(self, name):
        return sv.integer(name)

    def bool(self, name):
        return sv.boolean(name)

    def array_fact(self, fname, fact):
        """universally quantified precondition about an input array given as an uninterpreted function `fname`:
        fact(*index_terms) -> z3 Bool; instantiated for every application of the symbol that occurs in a query"""
        self.state.array_facts.append((fname, fact))

    def assume(self, cond):
        """precondition (requires)"""
        if isinstance(cond, SV):
            self.state.facts.append(sv.zb(cond))
        elif isinstance(cond, z3.ExprRef):
            self.state.facts.append(cond)
        elif not cond:
            self.state.facts.append(z3.BoolVal(False))

    def array(self, name, shape, dtype="float", origin=None, readonly=False):
        """symbolic input array: element (i,j,..) is the application name(i,j,..) of an uninterpreted function"""
        nd = len(shape)
        with use_state(self.state):
            if dtype == "complex":
                fre = z3.Function(name + "_re", *([z3.IntSort()] * nd), z3.RealSort()) if nd else z3.Real(name + "_re")
                fim = z3.Function(name + "_im", *([z3.IntSort()] * nd), z3.RealSort()) if nd else z3.Real(name + "_im")
                fn = (lambda idx: sv.Cx(SV(fre(*[sv.znum(i) for i in idx])), SV(fim(*[sv.znum(i) for i in idx])))) if nd else (lambda idx: sv.Cx(SV(fre), SV(fim)))
            else:
                sort = {"float": z3.RealSort(), "int": z3.IntSort(), "bool": z3.BoolSort()}[dtype]
                if nd:
                    f = z3.Function(name, *([z3.IntSort()] * nd), sort)
                    fn = lambda idx: SV(f(*[sv.znum(i) for i in idx]))
                else:
                    c = SV(z3.Const(name, sort))
                    fn = lambda idx: c
            a = A.new_arr(tuple(shape), fn, dtype, readonly=readonly, input=name)
            self.state.origin[a.sid] = origin or f"argument {name}"
        return a

    def array_of(self, shape, fn, dtype="float", name=None, origin=None):
        with use_state(self.state):
            a = A.new_arr(tuple(shape), fn, dtype, input=name)
            if origin or name:
                self.state.origin[a.sid] = origin or f"argument {name}"
        return a

    def obj(self, module, clsname, attrs, frozen=None):
        m = load_module(module)
        cls = m.get_class(clsname)
        with use_state(self.state):
            return new_obj(cls, attrs, frozen=cls.frozen if frozen is None else frozen, built_by_contract=True)

    def pylist(self, items):
        from .interp import new_list
        with use_state(self.state):
            return new_list(items)

    def pydict(self, d, unordered=False):
        from .interp import new_dict
        with use_state(self.state):
            return new_dict(d, unordered=unordered)

    def enum(self, module, clsname, member):
        m = load_module(module)
        cls = m.get_class(clsname)
        with use_state(self.state):
            return self.interp.getattr(cls, member)


class Outcome:
    def __init__(self, kind, value, state, frame, exc=None, msg=""):
        self.kind, self.value, self.state, self.frame, self.exc, self.msg = kind, value, state, frame, exc, msg


class Unit:
    """a function under contract.  Subclass and override."""
    module = None          # 'PyMatterSim.static.hessians'
    qualname = None        # 'PairInteractions.lennard_jones'
    prop = None
    summaries = {}         # callee contracts used: 'module.qualname' -> callable
    loop_hints = {}
    loop_opts = {}         # choices between equivalent closed forms of the loop rule (see loops._summarise_array)
    timeout = 10
    solver_opts = None

    def cases(self):
        return [""]

    def setup(self, ctx, case):
        """build symbolic inputs; return (args, kwargs, inp)"""
        raise NotImplementedError

    def ensures(self, ctx, case, inp, out):
        """yield (clause_name, goal) for a returning path (evaluated in the path's final state)"""
        return []

    def raises(self, ctx, case, inp, out):
        """for a raising path: return None if the raise is a contract failure, or a condition (SV/bool)
        under which raising `out.exc` is the specified behaviour"""
        return None

    def clause_names(self, case):
        """names of all ensures clauses (so that an obligation exists even when no path returns)"""
        return []

    @property
    def name(self):
        return self.qualname

    def replay(self, case, clause, model, seed):
        """runs under /venv/bin/python against the real package; override per unit"""
        return {"ran": False, "failed": False, "error": "no replay harness for this unit"}


_LIBS = {}


def lib_for(prop):
    """library-contract table for the units of one property (base table + that property's libext module with precedence
    + the names only other properties' libext modules define)"""
    if prop not in _LIBS:
        _LIBS[prop] = Lib(prop)
    return _LIBS[prop]


LIB = lib_for(None)


def function_source_sha(module, qualname):
    m = load_module(module)
    node = _find(m, qualname)
    seg = ast.get_source_segment(m.source, node) or ""
    return hashlib.sha256(seg.encode()).hexdigest()[:16], node.lineno, m.path


def _find(m, qualname):
    parts = qualname.split(".")
    if len(parts) == 1:
        if parts[0] not in m.defs:
            raise KeyError(f"{m.name}.{qualname} not found")
        return m.defs[parts[0]]
    cls = m.get_class(parts[0])
    if parts[1] not in cls.methods:
        raise KeyError(f"{m.name}.{qualname} not found")
    return cls.methods[parts[1]]


class ObResult:
    def __init__(self, name):
        self.name = name
        self.subs = []        # list of dicts: {path, status, backend, ms, model, reason}
        self.status = None
        self.note = ""

    def add(self, verdict, path=""):
        d = verdict.as_dict()
        d["path"] = path
        if verdict.model is not None:
            d["model"] = verdict.model
        self.subs.append(d)

    def finish(self):
        if not self.subs:
            self.status = solve.UNDECIDED
            self.note = "no sub-query generated"
        elif all(s["status"] == solve.PROVED for s in self.subs):
            self.status = solve.PROVED
        elif any(s["status"] == solve.REFUTED for s in self.subs):
            self.status = solve.REFUTED
        else:
            self.status = solve.UNDECIDED
        return self

    def as_dict(self):
        d = {"name": self.name, "status": self.status, "ms": round(sum(s["ms"] for s in self.subs), 1),
             "backends": sorted({s["backend"] for s in self.subs}), "queries": len(self.subs)}
        bad = [s for s in self.subs if s["status"] != solve.PROVED]
        if bad:
            d["failed"] = bad[:3]
        if self.note:
            d["note"] = self.note
        return d


def _opts(o, ctx):
    d = dict(o or {})
    if ctx.state.array_facts:
        d["array_facts"] = list(ctx.state.array_facts) + list(d.get("array_facts") or [])
    return d


def run_unit(unit, case, tier="quick"):
    """-> dict with obligations (list of ObResult dicts), meta"""
    t0 = time.time()
    uname = f"{unit.name}[{case}]" if case else unit.name
    res = {"unit": uname, "module": unit.module, "qualname": unit.qualname, "case": case, "obligations": [],
           "error": None, "paths": 0, "covered_paths": 0}
    try:
        sha, lineno, path = function_source_sha(unit.module, unit.qualname)
        res.update({"sha": sha, "line": lineno, "file": path})
    except KeyError as e:
        res["error"] = f"contract no longer binds: {e}"
        res["wall_s"] = time.time() - t0
        return res
    timeout = unit.timeout * (6 if tier == "thorough" else 1)
    try:
        from .interp import MODULE_VARIANTS
        MODULE_VARIANTS.clear()
        ctx = Ctx(unit, case, tier)
        interp = ctx.interp
        with use_state(ctx.state):
            args, kwargs, inp = unit.setup(ctx, case)
        m = load_module(unit.module)
        node = _find(m, unit.qualname)
        parts = unit.qualname.split(".")
        cls = m.get_class(parts[0]) if len(parts) == 2 else None
        fv = FuncVal(m, node, cls=cls)
        # vacuity: preconditions satisfiable
        r, model = solve.satisfiable(ctx.state.facts, timeout_s=5)
        vac = ObResult(uname + ":requires-satisfiable")
        vac.add(solve.Verdict(solve.PROVED if r == "sat" else (solve.REFUTED if r == "unsat" else solve.UNDECIDED), "z3-5.1", 0,
                              reason=f"requires is {r}"))
        res["obligations"].append(vac.finish().as_dict())
        res["requires_model"] = model
        with use_state(ctx.state):
            try:
                env = interp.bind_args(fv, args, kwargs)
                bind_exc = None
            except PyRaise as e:
                bind_exc = e
        outcomes = []
        if bind_exc is not None:
            outcomes.append(Outcome("raise", None, ctx.state, None, bind_exc.exc_type, bind_exc.msg))
        else:
            frame = Frame(m, env, f"{unit.module}.{unit.qualname}")
            interp.depth = 1
            for fr, st, out in interp.exec_block_paths(node.body, frame, ctx.state):
                if out[0] == "return":
                    outcomes.append(Outcome("return", out[1], st, fr))
                elif out[0] == "normal":
                    outcomes.append(Outcome("return", None, st, fr))
                elif out[0] == "raise":
                    outcomes.append(Outcome("raise", None, st, fr, out[1], out[2]))
                else:
                    raise EngineError(f"function ends with {out[0]}")
        res["paths"] = len(outcomes)
        clause_res = {}
        for cn in unit.clause_names(case):
            clause_res[cn] = ObResult(f"{uname}:{cn}")
        excfree = ObResult(f"{uname}:exc-free")
        nret = 0
        engine_limited = False
        specified_raises = []      # raising paths whose exception is the specified behaviour (unit.raises proved)
        for pi, out in enumerate(outcomes):
            assum = out.state.all_assumptions()
            ptag = f"path{pi}"
            if out.kind == "raise":
                with use_state(out.state):
                    allowed = unit.raises(ctx, case, inp, out)
                if allowed is None:
                    goal = z3.BoolVal(False)
                else:
                    goal = sv.zb(allowed) if not isinstance(allowed, bool) else z3.BoolVal(allowed)
                v = solve.prove(assum, goal, timeout, _opts(unit.solver_opts, ctx))
                v.reason = (v.reason + f" raises {out.exc}: {out.msg} at {out.state.where}").strip()
                if out.exc == "unresolved-callee" and v.status != solve.PROVED and not getattr(unit, "unresolved_is_failure", False):
                    # the engine has no contract for a library function the code calls: not a verdict about the code
                    v.status = solve.UNDECIDED
                    v.reason = "engine limit (no library contract): " + v.reason
                    engine_limited = True
                excfree.add(v, ptag)
                if allowed is not None and v.status == solve.PROVED:
                    specified_raises.append(out)
                continue
            nret += 1
            excfree.add(solve.Verdict(solve.PROVED, "engine", 0, reason="returns"), ptag)
            with use_state(out.state):
                goals = list(unit.ensures(ctx, case, inp, out))
            for gt in goals:
                cn, goal = gt[0], gt[1]
                gopts = gt[2] if len(gt) > 2 else {}
                ob = clause_res.setdefault(cn, ObResult(f"{uname}:{cn}"))
                if isinstance(goal, (bool,)):
                    gz = z3.BoolVal(goal)
                elif isinstance(goal, SV):
                    gz = sv.zb(goal)
                else:
                    gz = goal
                extra_as = [sv.zb(x) if isinstance(x, SV) else x for x in gopts.get("assume", []) if not isinstance(x, bool) or not x]
                extra_as = [z3.BoolVal(False) if isinstance(x, bool) else x for x in extra_as]
                ob.add(solve.prove(assum + extra_as, gz, gopts.get("timeout", timeout),
                                    dict(_opts(gopts.get("solver_opts", unit.solver_opts), ctx), rewrites=gopts.get("rewrites"),
                                         ring_only=gopts.get("ring_only", False), try_eval=gopts.get("try_eval", False),
                                         **{k: gopts[k] for k in ("abstract_nl", "abstract_only") if k in gopts})), ptag)
        # cover: at least one returning path is feasible
        cover = ObResult(f"{uname}:cover")
        ncov = 0
        only_raise = bool(getattr(unit, "may_only_raise", lambda c: False)(case))
        for out in outcomes:
            if out.kind == "return" or only_raise or out in specified_raises:
                r, _ = solve.satisfiable(out.state.all_assumptions(), timeout_s=5)
                if r != "unsat":
                    ncov += 1
        cover.add(solve.Verdict(solve.PROVED if ncov > 0 else (solve.UNDECIDED if engine_limited else solve.REFUTED), "z3-5.1", 0,
                                reason=f"{ncov} feasible returning (or specified raising) paths" + (" (a path stopped at an engine limit)" if engine_limited else "")))
        res["covered_paths"] = ncov
        # side obligations (safety)
        safety = ObResult(f"{uname}:safety")
        side = ctx.state.side
        # a unit that re-uses the setup of another property's unit (same AST, same symbolic inputs) may leave the side
        # obligations to their owner: then NO safety obligation is emitted here (nothing is claimed), only the count is recorded
        side_owner = getattr(unit, "side_obligations_owner", None)
        if side_owner:
            res["side_obligations_left_to"] = {"owner": side_owner, "count": len(side)}
            side = []
        seen = set()
        for so in side:
            assum = list(so.pc) if getattr(so, "explicit", False) else list(ctx.state.facts) + list(so.pc)
            key = (so.kind, so.cond.get_id(), tuple(a.get_id() for a in assum))
            if key in seen:
                continue
            seen.add(key)
            v = solve.prove(assum, so.cond, timeout, _opts(dict(unit.solver_opts or {}, **(getattr(so, "opts", None) or {})), ctx))
            v.reason = (v.reason + f" {so.kind} at {so.where}").strip()
            cn = getattr(so, "clause", None)
            if cn:      # a side obligation that belongs to a named clause of the contract (written loop summaries)
                clause_res.setdefault(cn, ObResult(f"{uname}:{cn}")).add(v, so.kind)
                continue
            safety.add(v, so.kind)
        if not side and not side_owner:
            safety.add(solve.Verdict(solve.PROVED, "engine", 0, reason="no side obligations"))
        # hidden state: the function (and the repo helpers inlined into it) must not use module-level mutable state
        hs = ObResult(f"{uname}:no-module-level-mutable-state")
        found = hidden_state_scan(unit.module, unit.qualname, sorted(interp.inlined))
        hs.add(solve.Verdict(solve.PROVED if not found else solve.REFUTED, "ast-scan", 0,
                             reason="; ".join(found) if found else "no module-level mutable container, no `global` statement"))
        res["obligations"].append(hs.finish().as_dict())
        res["obligations"].append(excfree.finish().as_dict())
        res["obligations"].append(cover.finish().as_dict())
        if not side_owner:
            res["obligations"].append(safety.finish().as_dict())
        if getattr(unit, "clauses_vacuous_without_return", False) and nret == 0 and outcomes and len(specified_raises) == len(outcomes):
            # a unit whose clauses speak about returned values only (frame/file clauses of C18): when every path raises an
            # exception the unit's `raises` accepts, they hold vacuously
            for ob in clause_res.values():
                if not ob.subs:
                    ob.add(solve.Verdict(solve.PROVED, "engine", 0, reason="no returning path: every path raises as specified"))
        for cn, ob in clause_res.items():
            res["obligations"].append(ob.finish().as_dict())
        res["summaries_used"] = sorted(interp.used_summaries)
        res["inlined"] = sorted(interp.inlined)
        res["lib_used"] = sorted(interp.lib_used)
    except EngineError as e:
        res["error"] = f"unsupported: {e}"
        res["trace"] = traceback.format_exc()[-1500:]
    except RecursionError as e:
        res["error"] = f"unsupported: recursion {e}"
    except Exception as e:  # engine bug -> checker fault
        res["error"] = f"engine-fault: {type(e).__name__}: {e}"
        res["trace"] = traceback.format_exc()[-2500:]
    res["wall_s"] = round(time.time() - t0, 3)
    return res


def prove_lemmas(prefix, lemmas, timeout=20, opts=None):
    """lemmas: [(name, goal)] on fresh variables, no assumptions -> obligation dicts (for extra_checks)"""
    out = []
    with use_state(State()):
        for name, goal in lemmas:
            ob = ObResult(f"{prefix}:{name}")
            gz = z3.BoolVal(goal) if isinstance(goal, bool) else (sv.zb(goal) if isinstance(goal, SV) else goal)
            ob.add(solve.prove([], gz, timeout, opts))
            out.append(ob.finish().as_dict())
    return out


_MUTABLE_CALLS = {"dict", "list", "set", "defaultdict", "OrderedDict", "deque", "Counter"}


def hidden_state_scan(module, qualname, inlined):
    """names of module-level mutable containers read, and `global` statements, in the function under contract and in
    the repo functions that were inlined into it (syntactic; sound for the subset the engine executes)"""
    found = []
    todo = [(module, qualname)]
    for key in inlined:
        parts = key.split(".")
        for cut in (len(parts) - 1, len(parts) - 2):
            mname, q = ".".join(parts[:cut]), ".".join(parts[cut:])
            if load_module(mname) is not None:
                todo.append((mname, q))
                break
    for mname, q in todo:
        m = load_module(mname)
        try:
            node = _find(m, q)
        except KeyError:
            continue
        mutable = set()
        for name, val in m.globals_nodes.items():
            if isinstance(val, (ast.Dict, ast.List, ast.Set, ast.ListComp, ast.DictComp, ast.SetComp)):
                mutable.add(name)
            elif isinstance(val, ast.Call) and isinstance(val.func, ast.Name) and val.func.id in _MUTABLE_CALLS:
                mutable.add(name)
        # a module-level container that no code of the module ever mutates is a constant table, not state
        mutated = set()
        MUT = {"append", "extend", "insert", "pop", "remove", "clear", "update", "setdefault", "popitem", "add", "discard", "sort", "reverse"}
        for n in ast.walk(m.tree):
            if isinstance(n, (ast.Assign, ast.AugAssign, ast.Delete)):
                tg = n.targets if not isinstance(n, ast.AugAssign) else [n.target]
                for t in tg:
                    if isinstance(t, ast.Subscript) and isinstance(t.value, ast.Name):
                        mutated.add(t.value.id)
                    if isinstance(n, ast.AugAssign) and isinstance(t, ast.Name):
                        mutated.add(t.id)
            elif isinstance(n, ast.Call) and isinstance(n.func, ast.Attribute) and isinstance(n.func.value, ast.Name) and n.func.attr in MUT:
                mutated.add(n.func.value.id)
            elif isinstance(n, ast.Global):
                mutated.update(n.names)
        mutable &= mutated
        local = {a.arg for a in node.args.args + node.args.kwonlyargs + node.args.posonlyargs}
        for n in ast.walk(node):
            if isinstance(n, ast.Name) and isinstance(n.ctx, ast.Store):
                local.add(n.id)
        for n in ast.walk(node):
            if isinstance(n, ast.Global):
                found.append(f"{mname}.{q}: global {', '.join(n.names)}")
            elif isinstance(n, ast.Name) and isinstance(n.ctx, ast.Load) and n.id in mutable and n.id not in local:
                found.append(f"{mname}.{q} reads module-level mutable container {n.id!r}")
            elif isinstance(n, ast.Call) and isinstance(n.func, ast.Name) and n.func.id not in local and n.func.id in m.defs \
                    and isinstance(m.defs[n.func.id], ast.FunctionDef):
                # same-module helper: scan it too (once)
                if (mname, n.func.id) not in todo:
                    todo.append((mname, n.func.id))
    return sorted(set(found))
