"""Relational contracts (ASSUMED) for library operations that have no closed form: boolean-mask selection as an array,
argsort, argpartition.  Results are applications of *lifted* uninterpreted functions: like Σ-terms (sigma.py) the
function symbol is determined by the canonical form of the data the operation depends on (λ-lifted over its free
constants), so the same source expression executed twice (loop discovery run / step run, two paths) yields the same
symbol applied to the respective parameters.  The defining facts are registered as `array_facts` (instantiated for every
application that occurs in a query); pairwise facts (sortedness, monotonicity) are offered to contracts as `qfacts`.

  select(mask, n)      SEL(t), RANK(j):  0 <= t < cnt -> 0 <= SEL(t) < n, mask(SEL(t)), RANK(SEL(t)) = t;
                                        0 <= j < n, mask(j) -> 0 <= RANK(j) < cnt, SEL(RANK(j)) = j;  cnt = Σ_j [mask(j)]
                       (strictly increasing: qfact ("select-increasing", …))
  argsort(key, m)      PI(t), PINV(j): mutually inverse bijections of [0, m);  qfact ("argsort", m, key, PI): key(PI(t)) <= key(PI(u)) for t <= u
  argpartition(key, m, kth)   P(t), PINV(j): bijections of [0, m); requires 0 <= kth < m;
                       qfact ("argpartition", m, key, P, kth): key(P(t)) <= key(P(kth)) for t <= kth,  key(P(kth)) <= key(P(u)) for u >= kth
"""
from __future__ import annotations

import z3

from . import arr as A
from . import sv
from .sigma import VAR0, _placeholder, canon_term, free_consts
from .state import cur
from .sv import SV, EngineError, fresh_name, is_conc, norm, znum

LIFTS = {}


class Lift:
    def __init__(self, kind, key, fns, placeholders, canon):
        self.kind, self.key, self.fns, self.placeholders, self.canon = kind, key, fns, placeholders, canon

    def data_at(self, x, args):
        subs = [(VAR0, x)] + list(zip(self.placeholders, args))
        return [z3.substitute(c, *subs) for c in self.canon]


class _Const0:
    """a lifted symbol without arguments (the data has no free constants): behaves like a 0-ary function"""
    def __init__(self, c):
        self.c = c

    def __call__(self, *a):
        return self.c

    def name(self):
        return self.c.decl().name()


def lift(kind, data_fn, outs):
    """data_fn(t: SV) -> list of scalar values the operation depends on (at index t and globally);
    outs: list of (suffix, [extra index sorts], result sort).  Returns (Lift, frees): function k is lift.fns[k]."""
    t = z3.Int(fresh_name("lt"))
    data = [znum(norm(x)) if not isinstance(norm(x), bool) else z3.BoolVal(norm(x)) for x in data_fn(SV(t))]
    data = [z3.simplify(d) for d in data]
    frees = []
    seen = set()
    for d in data:
        for c in free_consts(d, exclude=[t]):
            if c.get_id() not in seen:
                seen.add(c.get_id())
                frees.append(c)
    placeholders = [_placeholder(c.sort(), i) for i, c in enumerate(frees)]
    canon = []
    for d in data:
        dd = z3.substitute(d, (t, VAR0), *zip(frees, placeholders)) if frees else z3.substitute(d, (t, VAR0))
        canon.append(canon_term(dd))
    key = kind + "|" + "|".join(c.sexpr() for c in canon)
    L = LIFTS.get(key)
    if L is None:
        n = len(LIFTS)
        fns = []
        for suffix, idx_sorts, rs in outs:
            doms = list(idx_sorts) + [p.sort() for p in placeholders]
            if doms:
                fns.append(z3.Function(f"{kind}{suffix}{n}", *doms, rs))
            else:
                c0 = z3.Const(f"{kind}{suffix}{n}", rs)
                fns.append(_Const0(c0))
        L = Lift(kind, key, fns, placeholders, canon)
        LIFTS[key] = L
    return L, frees


def _register(fname, fact, group=()):
    """group: names of the function symbols defined together (SEL/RANK, P/PINV): their facts are also instantiated at every
    integer constant of a query for the parameter tuples that occur (axioms.py) — a fixed, terminating instantiation scheme"""
    st = cur()
    if not any(n == fname and getattr(f, "_relop", None) == fname for n, f in st.array_facts):
        fact._relop = fname
        fact._group = tuple(group)
        st.array_facts.append((fname, fact))


def select(mask_reader, n):
    """positions selected by a boolean mask over [0, n) as a 1-D int array of length cnt"""
    from .sigma import Sum
    I = z3.IntSort()
    L, frees = lift("SEL", lambda t: [mask_reader(t), n], [("", [I], I), ("RANK", [I], I)])
    SEL, RANK = L.fns
    cnt = Sum(0, n, lambda t: sv.ite(mask_reader(t), 1, 0))

    def data(x, ps):
        m, nn = L.data_at(x, ps)
        return m, nn

    cntz = znum(cnt)
    # cnt as a function of the parameters: rebuild by substituting the frees (only needed inside facts → reuse closure over `cnt` is wrong for
    # other parameter values, so the facts below are stated with the count term rebuilt from the canonical mask)
    def cnt_of(ps):
        pairs = list(zip(frees, ps))
        return z3.substitute(cntz, *pairs) if pairs else cntz

    def f_sel(t, *ps):
        m_at = lambda x: L.data_at(x, ps)[0]
        nn = L.data_at(t, ps)[1]
        s = SEL(t, *ps)
        return z3.Implies(z3.And(t >= 0, t < cnt_of(ps)), z3.And(s >= 0, s < nn, _as_bool(m_at(s)), RANK(s, *ps) == t))

    def f_rank(j, *ps):
        m_at = lambda x: L.data_at(x, ps)[0]
        nn = L.data_at(j, ps)[1]
        r = RANK(j, *ps)
        return z3.Implies(z3.And(j >= 0, j < nn, _as_bool(m_at(j))), z3.And(r >= 0, r < cnt_of(ps), SEL(r, *ps) == j))
    _register(SEL.name(), f_sel, (SEL.name(), RANK.name()))
    _register(RANK.name(), f_rank, (SEL.name(), RANK.name()))
    sel_app = lambda t: SV(SEL(znum(t), *frees))
    rank_app = lambda j: SV(RANK(znum(j), *frees))
    cur().qfacts.append(("select-increasing", cnt, sel_app, rank_app))
    if not is_conc(cnt):
        cur().assume(sv.and_(sv.cmp(">=", cnt, 0), sv.cmp("<=", cnt, n)))       # a count of positions of [0, n)
    return A.new_arr((A.simp(cnt),), lambda idx: sel_app(idx[0]), "int"), sel_app, rank_app, cnt


def _as_bool(t):
    return t if z3.is_bool(t) else t != 0


def masked_to_arr(m):
    """a[mask] (A.Masked) as an ordinary array (rows = selected positions in increasing order)"""
    pos, sel_app, rank_app, cnt = select(m.mask, m.n)
    src = m.src
    return A.new_arr((A.simp(cnt),) + tuple(m.rest), lambda idx: src((sel_app(idx[0]),) + tuple(idx[1:])), m.dtype)


def _perm(kind, key_reader, m, extra=()):
    I = z3.IntSort()
    L, frees = lift(kind, lambda t: [key_reader(t), m] + list(extra), [("", [I], I), ("INV", [I], I)])
    P, PINV = L.fns

    def f_p(t, *ps):
        mm = L.data_at(t, ps)[1]
        p = P(t, *ps)
        return z3.Implies(z3.And(t >= 0, t < mm), z3.And(p >= 0, p < mm, PINV(p, *ps) == t))

    def f_inv(j, *ps):
        mm = L.data_at(j, ps)[1]
        q = PINV(j, *ps)
        return z3.Implies(z3.And(j >= 0, j < mm), z3.And(q >= 0, q < mm, P(q, *ps) == j))
    _register(P.name(), f_p, (P.name(), PINV.name()))
    _register(PINV.name(), f_inv, (P.name(), PINV.name()))
    return (lambda t: SV(P(znum(t), *frees))), (lambda j: SV(PINV(znum(j), *frees)))


def argsort(a):
    if a.ndim != 1:
        raise EngineError("argsort of an nd array")
    r = a.reader()
    m = a.shape[0]
    if is_conc(m) and int(m) <= 1:
        return A.new_arr((m,), lambda idx: 0, "int")
    key = lambda t: r((t,))
    P, PINV = _perm("ARGSORT", key, m)
    cur().qfacts.append(("argsort", m, key, P, PINV))
    return A.new_arr((m,), lambda idx: P(idx[0]), "int")


def argpartition(a, kth):
    if a.ndim != 1:
        raise EngineError("argpartition of an nd array")
    r = a.reader()
    m = a.shape[0]
    kth = norm(kth)
    cur().require(sv.and_(sv.cmp(">=", kth, 0), sv.cmp("<", kth, m)), "argpartition-kth-in-range")
    key = lambda t: r((t,))
    P, PINV = _perm("ARGPART", key, m, extra=[kth])
    cur().qfacts.append(("argpartition", m, key, P, PINV, kth))
    return A.new_arr((m,), lambda idx: P(idx[0]), "int")


def extremum(key_reader, n, which):
    """ASSUMED relational contract of min / max over a symbolic axis: the result is attained at a witness position W and bounds
    every element.  W is a lifted function of the data (so the same reduction executed for another loop index is the same
    function at that index); the bound is offered to contracts as qfact (which, n, reader, M, W)."""
    I = z3.IntSort()
    cur().require(sv.cmp(">=", n, 1), f"{which}-of-nonempty")
    L, frees = lift("ARG" + which.upper(), lambda t: [key_reader(t), n], [("", [], I)])
    W = L.fns[0]

    def f_w(*ps):
        nn = L.data_at(z3.IntVal(0), ps)[1]
        w = W(*ps)
        return z3.Implies(nn >= 1, z3.And(w >= 0, w < nn))
    _register(W.name(), f_w)
    w = SV(W(*frees))
    if not frees:
        cur().assume(sv.and_(sv.cmp(">=", w, 0), sv.cmp("<", w, n)))
    M = key_reader(w)

    def inst(t, ps):
        """(key at position t, length, extremum) of the same reduction for the parameter values ps (aligned with `frees`)"""
        ps = [znum(x) for x in ps]
        key_t, nn = L.data_at(znum(t), ps)
        key_w = L.data_at(W(*ps), ps)[0]
        return sv.wrap(key_t), sv.wrap(nn), sv.wrap(key_w)
    cur().qfacts.append((which, n, (lambda idx: key_reader(idx[0])), M, w, dict(frees=list(frees), inst=inst)))
    return M
