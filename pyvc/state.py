"""Path state: heap, path condition, side obligations, events.  One global current state (`cur()`)."""
from __future__ import annotations

import itertools

import z3

from .sv import SV, EngineError, is_conc, wrap, z, zb

_sid = itertools.count(1)
LAST_SID = [0]      # the most recently allocated cell id (cells with a larger id than a statement's mark were allocated while evaluating it)


class Content:
    """heap cell content (immutable; replaced on every store)"""
    __slots__ = ("kind", "data", "meta")

    def __init__(self, kind, data, meta=None):
        self.kind, self.data, self.meta = kind, data, meta or {}


class SideOb:
    __slots__ = ("kind", "cond", "pc", "where")

    def __init__(self, kind, cond, pc, where):
        self.kind, self.cond, self.pc, self.where = kind, cond, pc, where


class State:
    def __init__(self):
        self.heap = {}
        self.pc = []            # list of z3 Bool
        self.side = []          # SideOb list (shared across forks by reference to a collector)
        self.events = []        # store events / file writes (tuples)
        self.origin = {}        # sid -> description for input-reachable storages
        self.where = "?"        # current source location (function:lineno)
        self.facts = []         # extra assumptions valid on every path (preconditions)
        self.decisions = {}     # z3 ast id -> (bool, term): branch decisions taken on this path
        self.default_cache = {} # evaluated default arguments (shared objects, as in CPython)
        self.trace = []         # file-write / print events
        self.fresh = 0          # per-path fresh-name counter (deterministic re-execution after forks)
        self.inverses = {}      # function symbol name -> inverse (python callable on z3 terms): registered bijections (scatter stores by id)
        self.files = {}         # path -> (start position, line_fn): symbolic text files that open(path) may read
        self.qfacts = []        # quantified facts produced by library contracts (max/min/argsort …), instantiated by contracts
        self.array_facts = []   # (function symbol name, fn(args)->z3 Bool): facts about input arrays, instantiated per application
        self.named = set()      # array cells that were ever bound to a name / attribute / container / parameter (not mere temporaries)
        self.stmt_mark = 0      # LAST_SID when the statement being executed started

    def fork(self):
        s = State.__new__(State)
        s.heap = dict(self.heap)
        s.pc = list(self.pc)
        s.side = self.side          # shared collector
        s.events = list(self.events)
        s.origin = self.origin      # shared
        s.where = self.where
        s.facts = self.facts
        s.decisions = dict(self.decisions)
        s.default_cache = self.default_cache
        s.trace = list(self.trace)
        s.fresh = self.fresh
        s.array_facts = self.array_facts
        s.inverses = self.inverses
        s.files = self.files
        s.qfacts = self.qfacts
        s.named = set(getattr(self, "named", ()))
        s.stmt_mark = LAST_SID[0]        # nothing allocated before a fork counts as a temporary of the statement that follows
        return s

    # heap
    def alloc(self, content):
        sid = next(_sid)
        LAST_SID[0] = sid
        self.heap[sid] = content
        return sid

    def assume(self, cond):
        if isinstance(cond, SV):
            self.pc.append(zb(cond))
        elif isinstance(cond, z3.ExprRef):
            self.pc.append(cond)
        elif not cond:
            self.pc.append(z3.BoolVal(False))

    def require(self, cond, kind):
        """record a side obligation (proved later under the current path condition), then assume it"""
        if is_conc(cond):
            if cond:
                return
            self.side.append(SideOb(kind, z3.BoolVal(False), list(self.pc), self.where))
            return
        t = zb(cond)
        self.side.append(SideOb(kind, t, list(self.pc), self.where))
        self.pc.append(t)

    def all_assumptions(self):
        return list(self.facts) + list(self.pc)


_CUR = [None]


def _fresh_from_state():
    s = _CUR[0]
    if s is None:
        return None
    s.fresh += 1
    return s.fresh


from . import sv as _sv  # noqa: E402
_sv.FRESH_HOOK[0] = _fresh_from_state


def cur() -> State:
    s = _CUR[0]
    if s is None:
        raise EngineError("no current state")
    return s


def set_cur(s):
    _CUR[0] = s


class use_state:
    def __init__(self, s):
        self.s = s

    def __enter__(self):
        self.prev = _CUR[0]
        _CUR[0] = self.s
        return self.s

    def __exit__(self, *a):
        _CUR[0] = self.prev
