"""Conformance probes run under the repository's interpreter (/venv/bin/python).

import_probe: every module that holds a function under contract must import on the installed
libraries (DESIGN I.7 (a): existence of the library entry points the repo binds at import time).
"""
from __future__ import annotations

import json
import os
import subprocess
import time

PY = os.environ.get("PYVC_REPLAY_PYTHON", "/venv/bin/python")


def import_probe(modules, repo):
    obs = []
    for m in modules:
        t0 = time.time()
        code = f"import sys; sys.path.insert(0, {repo!r}); import importlib; importlib.import_module({m!r})"
        try:
            r = subprocess.run([PY, "-c", code], capture_output=True, text=True, timeout=300, cwd="/tmp")
            ok = r.returncode == 0
            err = (r.stderr or "").strip().splitlines()[-1:] if not ok else []
        except subprocess.TimeoutExpired:
            ok, err = False, ["timeout"]
        ob = {"name": f"{m}:imports-on-installed-libraries", "status": "PROVED" if ok else "REFUTED",
              "ms": round((time.time() - t0) * 1000, 1), "backends": ["cpython-probe"], "queries": 1, "replayable": True,
              "probe": {"kind": "import", "module": m}}
        if not ok:
            ob["failed"] = [{"status": "REFUTED", "backend": "cpython-probe", "reason": " ".join(err), "model": {"module": m}}]
        obs.append(ob)
    return obs


def replay_import(rec):
    import importlib
    m = (rec.get("model") or {}).get("module")
    try:
        importlib.import_module(m)
        return {"ran": True, "failed": False}
    except Exception as e:
        return {"ran": True, "failed": True, "detail": f"import {m} raises {type(e).__name__}: {e}"}
